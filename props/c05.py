"""C05 -- floating-point and complex stores round-trip with C conversion
semantics; long double copies are bit-exact.

Oracle: the IEEE value C obtains (ctypes.c_float / struct 'd' -- both compiled
C conversions independent of cffi) and C-side bit recorders in a compiled
helper module; long double: 10 value bytes of valid x87 encodings.
"""
import os, sys, struct, math
from vlib import gen, core, modbuild

RULE = ("case = (target type, store path, source value); float/double: doubles from random 64-bit "
        "patterns, edge values, float32 rounding boundaries (+-1ulp of the halfway points), objects "
        "with __float__, 1-char bytes/str for cast; complex: pairs of such doubles; long double: "
        "random valid x87 80-bit encodings (normals with 64-bit mantissas, denormals, zeros, inf, "
        "quiet NaN) and values produced by C; paths: new, item, field, cast, API arg, libffi arg, "
        "callback result, extern-Python result; distinct = (type,path,bits); non-trivial = value "
        "not in {0,1,-1}.  Audit extension: stored bytes are also read through ffi.buffer (write judged "
        "independently of read); READ paths from raw bit patterns written through ffi.buffer (all "
        "float32/float64 patterns: item, field, ffi.unpack aligned/unaligned, list()/slice, global, API "
        "and libffi function result, struct-by-value result, callback / extern-Python ARGUMENTS in a "
        "mixed (char,float,double,long double,float) signature); more SOURCES (Python int/bool, float "
        "subclass, __index__ object, cdata float/double/long double/int/char/wchar_t/_Bool as source "
        "of new/cast/item/call); more STORES (struct/array initializers nested, slice assignment, "
        "global variable, variadic argument, unaligned pointer, struct by value argument, store after "
        "a failed store); complex: real/int/bytes/str/__complex__/complex-cdata/float-cdata sources, "
        "initializers, globals, unpack, extern-Python argument+result; long double: from Python float "
        "(expected x87 encoding computed from the double's bits), to double (correct rounding computed "
        "with exact integer arithmetic), unpack, global, variadic, initializer, unaligned, extern-Python "
        "argument and result")
ASSUMPTIONS = ["ctypes.c_float and struct.pack('f') perform the platform C double->float conversion",
               "invalid x87 encodings (pseudo-denormals, unnormals) are not generated: the hardware rewrites them",
               "long double padding bytes 10..15 are not compared; NaN payloads are not compared for float/double (NaN stays NaN)",
               "CPython int->float and int/int true division are correctly rounded (used as the oracle for "
               "Python int sources and for long double -> double)",
               "a cdata float/double/long double used as the source of a store counts as 'an object with "
               "__float__': expected = the C conversion of float(cdata)"]

SRC = r'''
#include <string.h>
#include <complex.h>
unsigned int lastf; unsigned long long lastd; unsigned char lastl[16];
float idf(float x) { memcpy(&lastf, &x, 4); return x; }
double idd(double x) { memcpy(&lastd, &x, 8); return x; }
long double idl(long double x) { memset(lastl, 0, 16); memcpy(lastl, &x, 10); return x; }
float callf(float (*cb)(void)) { float x = cb(); memcpy(&lastf, &x, 4); return x; }
double calld(double (*cb)(void)) { double x = cb(); memcpy(&lastd, &x, 8); return x; }
long double calll(long double (*cb)(void)) { long double x = cb(); memset(lastl, 0, 16); memcpy(lastl, &x, 10); return x; }
static float epf(void); static double epd(void);
float callepf(void) { float x = epf(); memcpy(&lastf, &x, 4); return x; }
double callepd(void) { double x = epd(); memcpy(&lastd, &x, 8); return x; }
float _Complex idfc(float _Complex x) { return x; }
double _Complex iddc(double _Complex x) { return x; }
float fcre(float _Complex x) { return crealf(x); }
float fcim(float _Complex x) { return cimagf(x); }
double dcre(double _Complex x) { return creal(x); }
double dcim(double _Complex x) { return cimag(x); }
long double mkld(double a, double b, int e) { return ldexpl((long double)a + (long double)b * 0x1p-60L, e); }
struct sf { char c; float f; char d; };
struct sd { char c; double f; char d; };
struct sl { char c; long double f; char d; };
struct sfc { char c; float _Complex f; char d; };
struct sdc { char c; double _Complex f; char d; };
/* ---- audit extension ---- */
#include <stdarg.h>
unsigned char lastc[16];
float gf; double gd; long double gl; float _Complex gfc; double _Complex gdc;
float retgf(void) { return gf; }
double retgd(void) { return gd; }
long double retgl(void) { return gl; }
float _Complex retgfc(void) { return gfc; }
double _Complex retgdc(void) { return gdc; }
double vad(int n, ...) { va_list ap; double r = 0; va_start(ap, n); while (n-- > 0) r = va_arg(ap, double);
  va_end(ap); memcpy(&lastd, &r, 8); return r; }
long double val(int n, ...) { va_list ap; long double r = 0; va_start(ap, n); while (n-- > 0) r = va_arg(ap, long double);
  va_end(ap); memset(lastl, 0, 16); memcpy(lastl, &r, 10); return r; }
double cbargs(double (*cb)(char, float, double, long double, float)) {
  double r = cb('x', gf, gd, gl, gf); memcpy(&lastd, &r, 8); return r; }
static double epargs(char, float, double, long double, float);
double callepargs(void) { double r = epargs('x', gf, gd, gl, gf); memcpy(&lastd, &r, 8); return r; }
static long double epl(long double, float);
long double callepl(void) { long double x = epl(gl, gf); memset(lastl, 0, 16); memcpy(lastl, &x, 10); return x; }
static long double epl0(void);
long double callepl0(void) { long double x = epl0(); memset(lastl, 0, 16); memcpy(lastl, &x, 10); return x; }
static float _Complex epfc(float _Complex, float);
static double _Complex epdc(double _Complex, double);
float _Complex callepfc(void) { float _Complex r = epfc(gfc, gf); memset(lastc, 0, 16); memcpy(lastc, &r, 8); return r; }
double _Complex callepdc(void) { double _Complex r = epdc(gdc, gd); memcpy(lastc, &r, 16); return r; }
struct nest { char c; struct sf inr; float arr[3]; double darr[2]; double _Complex z; float _Complex w;
              long double l; char e; };
float sfarg(struct sf s) { memcpy(&lastf, &s.f, 4); return s.f; }
double sdarg(struct sd s) { memcpy(&lastd, &s.f, 8); return s.f; }
struct sf sfres(void) { struct sf s; memset(&s, 0, sizeof s); s.f = gf; return s; }
struct sd sdres(void) { struct sd s; memset(&s, 0, sizeof s); s.f = gd; return s; }
'''
CDEF = r'''
unsigned int lastf; unsigned long long lastd; unsigned char lastl[16];
float idf(float x); double idd(double x); long double idl(long double x);
float callf(float (*cb)(void)); double calld(double (*cb)(void)); long double calll(long double (*cb)(void));
extern "Python" float epf(void); extern "Python" double epd(void);
float callepf(void); double callepd(void);
float _Complex idfc(float _Complex x); double _Complex iddc(double _Complex x);
float fcre(float _Complex x); float fcim(float _Complex x); double dcre(double _Complex x); double dcim(double _Complex x);
long double mkld(double a, double b, int e);
struct sf { char c; float f; char d; };
struct sd { char c; double f; char d; };
struct sl { char c; long double f; char d; };
struct sfc { char c; float _Complex f; char d; };
struct sdc { char c; double _Complex f; char d; };
unsigned char lastc[16];
float gf; double gd; long double gl; float _Complex gfc; double _Complex gdc;
float retgf(void); double retgd(void); long double retgl(void);
float _Complex retgfc(void); double _Complex retgdc(void);
double vad(int n, ...); long double val(int n, ...);
double cbargs(double (*cb)(char, float, double, long double, float));
extern "Python" double epargs(char, float, double, long double, float);
double callepargs(void);
extern "Python" long double epl(long double, float);
long double callepl(void);
extern "Python" long double epl0(void);
long double callepl0(void);
extern "Python" float _Complex epfc(float _Complex, float);
extern "Python" double _Complex epdc(double _Complex, double);
float _Complex callepfc(void); double _Complex callepdc(void);
struct nest { char c; struct sf inr; float arr[3]; double darr[2]; double _Complex z; float _Complex w;
              long double l; char e; };
float sfarg(struct sf s); double sdarg(struct sd s);
struct sf sfres(void); struct sd sdres(void);
'''

FPATHS = ['new', 'item', 'field', 'cast', 'apiarg', 'ffiarg', 'callback', 'externpy',
          'dunder_float', 'cast_char']
CPATHS = ['new', 'item', 'field', 'cast', 'apiarg']
LPATHS = ['new', 'item', 'field', 'cast', 'apiarg', 'ffiarg', 'callback', 'fromc']
# audit extension: further sources / stores (values as before), reads from raw bit patterns,
# callback / extern-Python arguments
F2PATHS = ['pyint', 'pyobj', 'cdata_src', 'init', 'global', 'vararg', 'unaligned', 'structarg',
           'after_error']
FRPATHS = ['rd_item', 'rd_field', 'rd_unpack', 'rd_unaligned', 'rd_global', 'rd_apires', 'rd_ffires',
           'rd_structres']
C2PATHS = ['pyreal', 'cast_char', 'pyobj', 'cdata_src', 'init', 'global', 'unaligned', 'externpy']
CRPATHS = ['rd_item', 'rd_unpack', 'rd_global', 'rd_apires']
L2PATHS = ['from_pyfloat', 'to_double', 'unpack', 'global', 'vararg', 'init', 'unaligned']
APATHS = ['cbarg', 'eparg', 'epl']

F32_EDGES = [0, 0x80000000, 1, 0x80000001, 0x007fffff, 0x00800000, 0x00400000, 0x7f7fffff, 0xff7fffff,
             0x7f800000, 0xff800000, 0x7fc00000, 0x7fa00000, 0xffc00001, 0x7f800001, 0x3f800000,
             0xbf800000, 0x3f800001, 0x4b800000, 0x33800000]
F64_EDGES = [0, 1 << 63, 1, (1 << 63) | 1, (1 << 52) - 1, 1 << 52, 0x7fefffffffffffff, 0x7ff0000000000000,
             0xfff0000000000000, 0x7ff8000000000000, 0x7ff0000000000001, 0xfff8000000000001,
             0x3ff0000000000000, 0xbff0000000000000, 0x3ff0000000000001, 0x36a0000000000000,
             0x47efffffe0000000, 0x47efffffffffffff, 0x47f0000000000000]


def rand_bits(rng, size):
    """raw little-endian bytes (hex) of a float32 / float64 bit pattern."""
    r = rng.random()
    bits = 8 * size
    if r < 0.12:
        v = rng.choice(F32_EDGES if size == 4 else F64_EDGES)
    elif r < 0.25:                  # denormals
        v = (rng.getrandbits(1) << (bits - 1)) | rng.getrandbits(23 if size == 4 else 52)
    elif r < 0.33:                  # NaNs with payloads / infinities
        expall = (0xff << 23) if size == 4 else (0x7ff << 52)
        v = (rng.getrandbits(1) << (bits - 1)) | expall | \
            (rng.getrandbits(23 if size == 4 else 52) if rng.random() < 0.7 else 0)
    else:
        v = rng.getrandbits(bits)
    return v.to_bytes(size, 'little').hex()


def rand_pyint(rng):
    r = rng.random()
    if r < 0.06:
        return rng.choice(['True', 'False'])
    b = rng.choice([1, 2, 8, 24, 25, 31, 32, 53, 54, 55, 63, 64, 65, 100, 127, 128, 129, 300, 1000, 1023])
    if r < 0.5:
        v = (1 << b) + rng.choice([-2, -1, 0, 1, 2])
        if b > 30 and rng.random() < 0.5:       # float32 / float64 halfway points of this binade
            v = (1 << b) + rng.choice([1, 3]) * (1 << max(0, b - rng.choice([24, 25, 53, 54])))
    else:
        v = rng.getrandbits(b)
    if v >= 1 << 1023:
        v = (1 << 1023) - 1
    if rng.random() < 0.5:
        v = -v
    return str(v)


def spec(d):
    return {'name': '_c05mod', 'kind': 'api', 'cdef': CDEF, 'source': '#include <math.h>\n' + SRC,
            'dir': d, 'kwds': {'libraries': ['m']}}


def rand_x87(rng):
    r = rng.random()
    sign = rng.getrandbits(1)
    if r < 0.6:
        exp = rng.choice([rng.randrange(1, 32767), 16383, 16384, 16382, 1, 32766,
                          16383 + rng.randrange(-80, 80)])
        mant = (1 << 63) | rng.getrandbits(63)
        if rng.random() < 0.2:
            mant = (1 << 63) | rng.choice([0, 1, (1 << 63) - 1, 1 << 10, (1 << 11) - 1, 1 << 62])
    elif r < 0.7:
        exp, mant = 0, rng.getrandbits(63)          # denormal / zero
        if rng.random() < 0.3:
            mant = 0
    elif r < 0.8:
        exp, mant = 32767, 1 << 63                  # inf
    elif r < 0.9:
        exp, mant = 32767, (3 << 62) | rng.getrandbits(62)   # quiet NaN
    else:
        exp = 16383 + rng.randrange(-1100, 1100)    # in and around double's range
        mant = (1 << 63) | (rng.getrandbits(63) & ~((1 << rng.choice([0, 11, 40])) - 1))
    v = (sign << 79) | (exp << 64) | mant
    return v.to_bytes(10, 'little').hex()


def generate(ctx):
    rng = ctx.rng('gen')
    d = os.path.join(ctx.tmp, 'mod')
    res = modbuild.build_modules(ctx, [spec(d)])['_c05mod']
    if not res['ok']:
        raise core.Inconclusive('helper module build failed: ' + res['error'] + res.get('log', ''))
    n = ctx.scale(6000, 150000)
    cases = []

    def doubles(k):
        out = [x.hex() for x in gen.FLOAT_EDGES]
        while len(out) < k:
            out.append(gen.rand_double(rng).hex())
        return out
    for T in ('float', 'double'):
        for path in FPATHS:
            m = n if path not in ('callback', 'externpy') else max(60, n // 6)
            cases.append({'T': T, 'path': path, 'vals': doubles(m)})
    for T in ('float _Complex', 'double _Complex'):
        for path in CPATHS:
            cases.append({'T': T, 'path': path,
                          'vals': [[a, b] for a, b in zip(doubles(n // 2), reversed(doubles(n // 2)))]})
    for path in LPATHS:
        m = n if path != 'callback' else max(60, n // 6)
        cases.append({'T': 'long double', 'path': path, 'vals': [rand_x87(rng) for _ in range(m)]})
    # ---- audit extension
    m2 = ctx.scale(1200, 15000)          # each value goes through several (up to ~30) operations
    m6 = ctx.scale(800, 10000)
    for T in ('float', 'double'):
        size = 4 if T == 'float' else 8
        for path in F2PATHS:
            if path == 'vararg' and T == 'float':
                continue                      # a float is never passed through '...'
            if path == 'pyint':
                vals = ['0', '1', '-1', 'True', 'False', str(1 << 24), str((1 << 24) + 1),
                        str((1 << 53) + 1), str((1 << 64) - 1), str(1 << 64), str(-(1 << 63)),
                        str((1 << 128) - (1 << 103)), str((1 << 128) - (1 << 103) - 1), str(1 << 128),
                        str((1 << 1023) - 1)]
                while len(vals) < m2:
                    vals.append(rand_pyint(rng))
            else:
                vals = doubles(m2)
            cases.append({'T': T, 'path': path, 'vals': vals})
        for path in FRPATHS:
            edges = F32_EDGES if size == 4 else F64_EDGES
            vals = [v.to_bytes(size, 'little').hex() for v in edges]
            while len(vals) < m2:
                vals.append(rand_bits(rng, size))
            cases.append({'T': T, 'path': path, 'vals': vals})
    for T in ('float _Complex', 'double _Complex'):
        size = 4 if T.startswith('float') else 8
        for path in C2PATHS:
            if path in ('pyreal', 'cast_char'):
                vals = doubles(m6)
            else:
                vals = [[a, b] for a, b in zip(doubles(m6), reversed(doubles(m6)))]
            cases.append({'T': T, 'path': path, 'vals': vals})
        for path in CRPATHS:
            cases.append({'T': T, 'path': path,
                          'vals': [rand_bits(rng, size) + rand_bits(rng, size) for _ in range(m6)]})
    for path in L2PATHS:
        if path == 'from_pyfloat':
            vals = doubles(m2)
        else:
            vals = [rand_x87(rng) for _ in range(m2)]
        cases.append({'T': 'long double', 'path': path, 'vals': vals})
    for path in APATHS:
        cases.append({'T': 'args', 'path': path,
                      'vals': [[rand_bits(rng, 4), rand_bits(rng, 8), rand_x87(rng)] for _ in range(m6)]})
    return {'dir': d}, cases


def child_setup(setup, wd):
    sys.path.insert(0, setup['dir'])
    import _c05mod
    sys.stderr = open(os.devnull, 'w')
    sys.unraisablehook = lambda *a: None
    return {'ffi': _c05mod.ffi, 'lib': _c05mod.lib}


def fbits(x):
    return struct.unpack('<I', struct.pack('<f', x))[0]


def dbits(x):
    return struct.unpack('<Q', struct.pack('<d', x))[0]


def c_float(x):
    import ctypes
    return ctypes.c_float(x).value


def same(a, b):
    """a, b Python floats: same IEEE value (NaN == NaN, -0.0 != 0.0)."""
    if a != a or b != b:
        return a != a and b != b
    return dbits(a) == dbits(b)


class WithFloat(object):
    def __init__(self, x):
        self.x = x

    def __float__(self):
        return self.x


# ----------------------------------------------------------------- audit extension (child side)

class FloatSub(float):
    pass


class IntSub(int):
    pass


class ComplexSub(complex):
    pass


class IndexOnly(object):
    def __init__(self, k):
        self.k = k

    def __index__(self):
        return self.k


class WithComplex(object):
    def __init__(self, z):
        self.z = z

    def __complex__(self):
        return self.z


class Raises(object):
    def __float__(self):
        raise ValueError("no float here")

    def __complex__(self):
        raise ValueError("no complex here")


def x87_of_double(x):
    """The 10 value bytes of (long double)x; None for a NaN (payload not compared)."""
    b = dbits(x)
    s, e, m = b >> 63, (b >> 52) & 0x7ff, b & ((1 << 52) - 1)
    if e == 0x7ff:
        if m:
            return None
        exp, mant = 32767, 1 << 63
    elif e == 0:
        if m == 0:
            exp, mant = 0, 0
        else:
            bl = m.bit_length()
            mant = m << (64 - bl)
            exp = bl - 1 - 1074 + 16383
    else:
        exp, mant = e - 1023 + 16383, (1 << 63) | (m << 11)
    return ((s << 79) | (exp << 64) | mant).to_bytes(10, 'little')


def x87_is_nan(raw):
    v = int.from_bytes(raw[:10], 'little')
    return ((v >> 64) & 0x7fff) == 32767 and (v & ((1 << 63) - 1)) != 0


def double_of_x87(raw):
    """(double)ld, round-to-nearest-even, by exact integer arithmetic (valid encodings only)."""
    v = int.from_bytes(raw[:10], 'little')
    s, exp, mant = v >> 79, (v >> 64) & 0x7fff, v & ((1 << 64) - 1)
    sign = -1.0 if s else 1.0
    if exp == 32767:
        return sign * math.inf if mant == 1 << 63 else math.nan
    if exp == 0 or mant == 0:
        return sign * 0.0
    ue = exp - 16383
    if ue >= 1025:
        return sign * math.inf
    if ue < -1080:
        return sign * 0.0
    e = ue - 63
    try:
        r = float(mant << e) if e >= 0 else mant / (1 << -e)
    except OverflowError:
        r = math.inf
    return sign * r


def ld_bytes(ffi, ld):
    """value bytes of a long double cdata / of what a store of `ld` leaves in memory."""
    q = ffi.new('long double *', ld)
    return bytes(ffi.buffer(q)[0:10])


def unaligned(ffi, T, size, count=3):
    buf = ffi.new('char[]', count * size + 1)
    p = ffi.cast(T + ' *', ffi.cast('char *', buf) + 1)
    return buf, p


def set_global(ffi, lib, name, raw):
    b = ffi.buffer(ffi.addressof(lib, name))
    b[0:len(raw)] = raw
    if len(b) > len(raw):
        b[len(raw):len(b)] = b'\0' * (len(b) - len(raw))


def fd_ext(ffi, lib, rep, T, path, vals):
    isf = T == 'float'
    conv = c_float if isf else (lambda v: v)
    size = 4 if isf else 8
    fmt = '<f' if isf else '<d'
    S = 'sf' if isf else 'sd'
    sfx = 'f' if isf else 'd'
    bits_of = fbits if isf else dbits
    idfn = getattr(lib, 'id' + sfx)

    def crec():
        return lib.lastf if isf else lib.lastd

    def judge(sub, hx, exp, got=None, mem=None, cr=None, src=None):
        rep.stat('%s_%s:%s' % (T, path, sub))
        if got is not None and (not isinstance(got, float) or not same(got, exp)):
            rep.bad('value:' + path, '%s via %s/%s: source %s, read %r, C conversion gives %r'
                    % (T, path, sub, src if src is not None else hx, got, exp), hx)
        if mem is not None:
            v = struct.unpack(fmt, mem)[0]
            if not same(v, exp):
                rep.bad('stored-bytes:' + path, '%s via %s/%s: source %s, memory holds %s (%r), '
                        'C conversion gives %r' % (T, path, sub, src if src is not None else hx,
                                                   mem.hex(), v, exp), hx)
        if cr is not None and exp == exp and cr != bits_of(exp):
            rep.bad('c-received:' + path, '%s via %s/%s: source %s, C received bits %#x, expected %#x'
                    % (T, path, sub, src if src is not None else hx, cr, bits_of(exp)), hx)

    def stores(sub, hx, src, exp, which=('new', 'cast', 'item', 'field', 'apiarg'), srcrepr=None):
        """the same source object through several store paths"""
        sr = srcrepr if srcrepr is not None else repr(src)
        if 'new' in which:
            p = ffi.new(T + '*', src)
            judge(sub + '/new', hx, exp, p[0], bytes(ffi.buffer(p)), src=sr)
        if 'cast' in which:
            judge(sub + '/cast', hx, exp, float(ffi.cast(T, src)), src=sr)
        if 'item' in which:
            a = ffi.new(T + '[3]')
            a[1] = src
            judge(sub + '/item', hx, exp, a[1], bytes(ffi.buffer(a)[size:2 * size]), src=sr)
            if a[0] != 0 or a[2] != 0:
                rep.bad('neighbour-changed', '%s item store (%s)' % (T, path), hx)
        if 'field' in which:
            s = ffi.new('struct %s *' % S)
            s.f = src
            judge(sub + '/field', hx, exp, s.f, bytes(ffi.buffer(ffi.addressof(s, 'f'))), src=sr)
            if s.c != b'\0' or s.d != b'\0':
                rep.bad('neighbour-changed', '%s field store (%s)' % (T, path), hx)
        if 'apiarg' in which:
            g = idfn(src)
            judge(sub + '/apiarg', hx, exp, g, cr=crec(), src=sr)
        if 'ffiarg' in which:
            g = ffi.addressof(lib, 'id' + sfx)(src)
            judge(sub + '/ffiarg', hx, exp, g, cr=crec(), src=sr)

    prev = 0.5
    for i, hx in enumerate(vals):
        try:
            if path == 'pyint':
                k = (hx == 'True') if hx in ('True', 'False') else int(hx)
                exp = conv(float(k))
                rep.case((T, path, hx), nontrivial=k not in (0, 1, -1), sample={'T': T, 'path': path, 'n': hx})
                if abs(exp) == math.inf:
                    rep.stat('overflow_to_inf')
                elif float(k) != k or exp != k:
                    rep.stat('pyint_rounded')
                stores('int', hx, k, exp, ('new', 'cast', 'item', 'field', 'apiarg', 'ffiarg'))
                if type(k) is int:
                    stores('intsub', hx, IntSub(k), exp, ('new', 'cast', 'apiarg'))
                if i % 8 == 0:
                    cb = ffi.callback(T + '(void)', lambda: k)
                    g = getattr(lib, 'call' + sfx)(cb)
                    judge('int/callback', hx, exp, g, cr=crec(), src=hx)
                continue
            if path.startswith('rd_'):
                raw = bytes.fromhex(hx)
                exp = struct.unpack(fmt, raw)[0]
                rep.case((T, path, hx), sample={'T': T, 'path': path, 'bits': hx})
                if exp != exp:
                    rep.stat('rd_nan_patterns')
                elif exp != 0 and abs(exp) < (1.1754943508222875e-38 if isf else 2.2250738585072014e-308):
                    rep.stat('rd_denormal_patterns')
                zero = b'\0' * size
                if path == 'rd_item':
                    a = ffi.new(T + '[3]')
                    ffi.buffer(a)[size:2 * size] = raw
                    judge('item', hx, exp, a[1])
                    judge('item-neg-index', hx, exp, (a + 2)[-1])
                    judge('deref', hx, exp, ffi.cast(T + '*', a + 1)[0])
                elif path == 'rd_field':
                    s = ffi.new('struct %s *' % S)
                    ffi.buffer(ffi.addressof(s, 'f'))[0:size] = raw
                    judge('field', hx, exp, s.f)
                    judge('field-of-struct', hx, exp, s[0].f)
                    nn = ffi.new('struct nest *')
                    fld, idx = ('arr', 2) if isf else ('darr', 1)
                    ffi.buffer(ffi.addressof(nn, fld))[idx * size:(idx + 1) * size] = raw
                    judge('nested-array-field', hx, exp, getattr(nn, fld)[idx])
                    if isf:
                        ffi.buffer(ffi.addressof(nn.inr, 'f'))[0:size] = raw
                        judge('nested-struct-field', hx, exp, nn.inr.f)
                elif path in ('rd_unpack', 'rd_unaligned'):
                    praw = struct.pack(fmt, prev)
                    if path == 'rd_unpack':
                        a = ffi.new(T + '[3]')
                        ffi.buffer(a)[0:3 * size] = praw + raw + zero
                    else:
                        keep, a = unaligned(ffi, T, size)
                        ffi.buffer(keep)[1:1 + 3 * size] = praw + raw + zero
                        judge('item', hx, exp, a[1])
                    u = ffi.unpack(a, 3)
                    judge('unpack', hx, exp, u[1])
                    if not (isinstance(u[0], float) and same(u[0], prev) and same(u[2], 0.0)) or len(u) != 3:
                        rep.bad('value:' + path, '%s unpack of [%r, %s, 0]: %r' % (T, prev, hx, u), hx)
                    judge('unpack-2', hx, exp, ffi.unpack(a + 1, 1)[0])
                    if path == 'rd_unpack':
                        judge('list', hx, exp, list(a)[1])
                        judge('slice', hx, exp, a[1:3][0])
                        judge('list-of-slice', hx, exp, list(a[0:2])[1])
                    prev = exp if exp == exp else 0.25
                elif path == 'rd_global':
                    set_global(ffi, lib, 'g' + sfx, raw)
                    judge('global', hx, exp, getattr(lib, 'g' + sfx))
                    judge('global-addressof', hx, exp, ffi.addressof(lib, 'g' + sfx)[0])
                elif path == 'rd_apires':
                    set_global(ffi, lib, 'g' + sfx, raw)
                    judge('apires', hx, exp, getattr(lib, 'retg' + sfx)())
                elif path == 'rd_ffires':
                    set_global(ffi, lib, 'g' + sfx, raw)
                    judge('ffires', hx, exp, ffi.addressof(lib, 'retg' + sfx)())
                elif path == 'rd_structres':
                    set_global(ffi, lib, 'g' + sfx, raw)
                    judge('structres-api', hx, exp, getattr(lib, 's%sres' % sfx)().f)
                    judge('structres-ffi', hx, exp, ffi.addressof(lib, 's%sres' % sfx)().f)
                continue
            x = float.fromhex(hx)
            exp = conv(x)
            rep.case((T, path, hx), nontrivial=x not in (0.0, 1.0, -1.0),
                     sample={'T': T, 'path': path, 'x': hx})
            if exp != exp:
                rep.stat('nan_sources')
            elif abs(exp) == math.inf and abs(x) != math.inf:
                rep.stat('overflow_to_inf')
            elif isf and exp != x:
                rep.stat('rounded')
            if path == 'pyobj':
                stores('floatsub', hx, FloatSub(x), exp, ('new', 'cast', 'item', 'apiarg', 'ffiarg'),
                       srcrepr='FloatSub(%r)' % x)
                if x == x and abs(x) < 2.0 ** 1000:
                    k = int(x)
                    stores('index', hx, IndexOnly(k), conv(float(k)), ('new', 'cast', 'field', 'apiarg'),
                           srcrepr='object with __index__ -> %d' % k)
            elif path == 'cdata_src':
                for tn, e2 in (('double', exp), ('float', conv(c_float(x))), ('long double', exp)):
                    src = ffi.cast(tn, x)
                    stores('from-' + tn.replace(' ', ''), hx, src, e2,
                           ('new', 'cast', 'item', 'field', 'apiarg', 'ffiarg'),
                           srcrepr='cast(%s, %r)' % (tn, x))
                if x == x and abs(x) != math.inf:
                    k = max(-2 ** 31, min(2 ** 31 - 1, int(x)))
                    ku = int(abs(x)) % (1 << 64)
                    c = int(abs(x)) % 256
                    w = (int(abs(x)) % 0xD000) + 1
                    for tn, v, ev in (('int', k, k), ('long long', -ku // 2, -ku // 2),
                                      ('unsigned long long', ku, ku), ('unsigned char', c, c),
                                      ('char', bytes([c]), c), ('wchar_t', chr(w), w),
                                      ('_Bool', bool(k), int(bool(k)))):
                        g = float(ffi.cast(T, ffi.cast(tn, v)))
                        judge('cast-from-' + tn.replace(' ', ''), hx, conv(float(ev)), g,
                              src='cast(%s, %r)' % (tn, v))
            elif path == 'init':
                ey = conv(prev)
                fld = 'arr' if isf else 'darr'
                if i % 2:
                    init = {fld: [prev, x]}
                    if isf:
                        init['inr'] = {'f': x}
                else:
                    init = [b'c', [b'a', x if isf else 0.0, b'b'], [prev, x, prev] if isf else [0, 0],
                            [prev, x]]
                    if isf:
                        init = init[:3]
                nn = ffi.new('struct nest *', init)
                arr = getattr(nn, fld)
                judge('struct-init-array', hx, exp, arr[1],
                      bytes(ffi.buffer(ffi.addressof(nn, fld))[size:2 * size]))
                if not same(arr[0], ey):
                    rep.bad('value:init', '%s struct initializer %r: first item %r' % (T, init, arr[0]), hx)
                if isf:
                    judge('struct-init-nested', hx, exp, nn.inr.f,
                          bytes(ffi.buffer(ffi.addressof(nn.inr, 'f'))))
                s = ffi.new('struct %s *' % S, [b'q', x] if i % 2 else {'f': x})
                judge('struct-init', hx, exp, s.f, bytes(ffi.buffer(ffi.addressof(s, 'f'))))
                a = ffi.new(T + '[]', [prev, x, prev])
                judge('array-init-list', hx, exp, a[1], bytes(ffi.buffer(a)[size:2 * size]))
                a = ffi.new(T + '[4]', (x,))
                judge('array-init-tuple', hx, exp, a[0], bytes(ffi.buffer(a)[0:size]))
                if bytes(ffi.buffer(a)[size:4 * size]) != b'\0' * (3 * size):
                    rep.bad('neighbour-changed', '%s partial array initializer' % T, hx)
                a[1:3] = [x, prev]
                judge('slice-assign', hx, exp, a[1], bytes(ffi.buffer(a)[size:2 * size]))
                if not same(a[2], ey) or a[3] != 0:
                    rep.bad('value:init', '%s slice assignment [x, %r]: a[2]=%r a[3]=%r'
                            % (T, prev, a[2], a[3]), hx)
                b = ffi.new(T + '[2]')
                b[0:2] = a[1:3]
                judge('slice-assign-cdata', hx, exp, b[0], bytes(ffi.buffer(b)[0:size]))
                pp = ffi.new(T + '**', ffi.new(T + '*', x))     # initializer one level down stays alive?
                del pp
            elif path == 'global':
                setattr(lib, 'g' + sfx, x)
                mem = bytes(ffi.buffer(ffi.addressof(lib, 'g' + sfx)))
                judge('global', hx, exp, getattr(lib, 'g' + sfx), mem)
                judge('global-then-c', hx, exp, getattr(lib, 'retg' + sfx)())
                ffi.addressof(lib, 'g' + sfx)[0] = prev
                setattr(lib, 'g' + sfx, FloatSub(x))
                judge('global-2', hx, exp, None, bytes(ffi.buffer(ffi.addressof(lib, 'g' + sfx))))
            elif path == 'vararg':
                g = lib.vad(2, ffi.cast('double', prev), ffi.cast('double', x))
                judge('vararg-double', hx, exp, g, cr=lib.lastd)
                g = lib.vad(3, ffi.cast('double', prev), ffi.cast('double', -prev), ffi.cast('double', x))
                judge('vararg-double-3', hx, exp, g, cr=lib.lastd)
            elif path == 'unaligned':
                keep, p = unaligned(ffi, T, size)
                p[1] = x
                mem = bytes(ffi.buffer(keep))
                judge('unaligned-item', hx, exp, p[1], mem[1 + size:1 + 2 * size])
                if mem[:1 + size] != bytes(1 + size) or mem[1 + 2 * size:] != bytes(size):
                    rep.bad('neighbour-changed', '%s unaligned item store' % T, hx)
                q = ffi.cast(T + ' *', ffi.cast('char *', keep) + 1 + 2 * size)
                q[0] = FloatSub(x)
                judge('unaligned-deref', hx, exp, q[0], bytes(ffi.buffer(keep))[1 + 2 * size:1 + 3 * size])
            elif path == 'structarg':
                for nm, f in (('api', getattr(lib, 's%sarg' % sfx)),
                              ('ffi', ffi.addressof(lib, 's%sarg' % sfx))):
                    g = f({'f': x})
                    judge('structarg-dict-' + nm, hx, exp, g, cr=crec())
                    g = f([b'a', x, b'b'])
                    judge('structarg-list-' + nm, hx, exp, g, cr=crec())
                    s = ffi.new('struct %s *' % S)
                    s.f = x
                    g = f(s[0])
                    judge('structarg-cdata-' + nm, hx, exp, g, cr=crec())
            elif path == 'after_error':
                a = ffi.new(T + '[3]')
                a[1] = prev
                kind = i % 8
                raised = False
                try:
                    if kind == 0:
                        a[1] = None
                    elif kind == 1:
                        a[1] = 'a'
                    elif kind == 2:
                        ffi.cast(T, 'ab')
                    elif kind == 3:
                        a[1] = Raises()
                    elif kind == 4:
                        idfn(b'x')
                    elif kind == 5:
                        ffi.cast(T, 10 ** 400)
                    elif kind == 6:
                        a[1] = [x]
                    else:
                        ffi.new(T + '*', Raises())
                except Exception:
                    raised = True
                rep.stat('failed_store_raised' if raised else 'failed_store_did_not_raise')
                a[1] = x
                judge('item-after-error', hx, exp, a[1], bytes(ffi.buffer(a)[size:2 * size]))
                judge('cast-after-error', hx, exp, float(ffi.cast(T, x)))
                g = idfn(x)
                judge('apiarg-after-error', hx, exp, g, cr=crec())
            prev = x if x == x else 0.25
        except Exception as e:
            rep.bad('raised:' + path, '%s via %s of %s raised %s: %s' % (T, path, hx, type(e).__name__, e), hx)
    return rep.result()


def cx_ext(ffi, lib, rep, T, path, vals):
    isf = T.startswith('float')
    conv = c_float if isf else (lambda v: v)
    size = 4 if isf else 8
    fmt = '<ff' if isf else '<dd'
    S = 'sfc' if isf else 'sdc'
    p2 = 'f' if isf else 'd'
    gname = 'g%sc' % p2
    other = 'double _Complex' if isf else 'float _Complex'
    # mechanism key: the extern-Python path is keyed per base type (the two differ in slot size)
    pkey = path if path != 'externpy' else 'externpy-' + ('float' if isf else 'double')

    def judge(sub, det, er, ei, got=None, mem=None, src=None):
        rep.stat('%s_%s:%s' % (T, path, sub))
        if got is not None and (not isinstance(got, complex) or not same(got.real, er) or
                                not same(got.imag, ei)):
            rep.bad('value:complex:' + pkey, '%s via %s/%s: source %s, read %r, expected (%r, %r)'
                    % (T, path, sub, src if src is not None else det, got, er, ei), det)
        if mem is not None:
            a, b = struct.unpack(fmt, mem)
            if not same(a, er) or not same(b, ei):
                rep.bad('stored-bytes:complex:' + pkey, '%s via %s/%s: source %s, memory holds %s '
                        '(%r, %r), expected (%r, %r)' % (T, path, sub, src if src is not None else det,
                                                         mem.hex(), a, b, er, ei), det)

    def stores(sub, det, src, er, ei, which=('new', 'cast', 'item', 'field', 'apiarg'), srcrepr=None):
        sr = srcrepr if srcrepr is not None else repr(src)
        if 'new' in which:
            p = ffi.new(T + '*', src)
            judge(sub + '/new', det, er, ei, p[0], bytes(ffi.buffer(p)), src=sr)
        if 'cast' in which:
            judge(sub + '/cast', det, er, ei, complex(ffi.cast(T, src)), src=sr)
        if 'item' in which:
            a = ffi.new(T + '[3]')
            a[1] = src
            judge(sub + '/item', det, er, ei, a[1], bytes(ffi.buffer(a)[2 * size:4 * size]), src=sr)
            if a[0] != 0 or a[2] != 0:
                rep.bad('neighbour-changed', '%s item store (%s)' % (T, path), det)
        if 'field' in which:
            s = ffi.new('struct %s *' % S)
            s.f = src
            judge(sub + '/field', det, er, ei, s.f, bytes(ffi.buffer(ffi.addressof(s, 'f'))), src=sr)
            if s.c != b'\0' or s.d != b'\0':
                rep.bad('neighbour-changed', '%s field store (%s)' % (T, path), det)
        if 'apiarg' in which:
            g = getattr(lib, 'id%sc' % p2)(src)
            re_ = getattr(lib, p2 + 'cre')(src)
            im_ = getattr(lib, p2 + 'cim')(src)
            judge(sub + '/apiarg', det, er, ei, g, src=sr)
            if not (same(re_, er) and same(im_, ei)):
                rep.bad('c-received:complex:' + pkey, '%s passed %s: C sees (%r, %r), expected (%r, %r)'
                        % (T, sr, re_, im_, er, ei), det)

    cur = {}
    if path == 'externpy':
        def ep(z, y):
            cur['got'] = (z, y)
            return cur['ret']
        ffi.def_extern(name='ep%sc' % p2)(ep)
    prevz = complex(0.5, -2.0)
    for i, det in enumerate(vals):
        try:
            if path.startswith('rd_'):
                raw = bytes.fromhex(det)
                er, ei = struct.unpack(fmt, raw)
                rep.case((T, path, det), sample={'T': T, 'path': path, 'bits': det})
                if path == 'rd_item':
                    a = ffi.new(T + '[3]')
                    ffi.buffer(a)[2 * size:4 * size] = raw
                    judge('item', det, er, ei, a[1])
                    s = ffi.new('struct %s *' % S)
                    ffi.buffer(ffi.addressof(s, 'f'))[0:2 * size] = raw
                    judge('field', det, er, ei, s.f)
                    judge('complex-of-cast', det, er, ei, complex(ffi.cast(T, a[1])))
                elif path == 'rd_unpack':
                    a = ffi.new(T + '[3]')
                    ffi.buffer(a)[2 * size:4 * size] = raw
                    u = ffi.unpack(a, 3)
                    judge('unpack', det, er, ei, u[1])
                    if u[0] != 0 or u[2] != 0 or len(u) != 3:
                        rep.bad('value:complex:' + pkey, '%s unpack neighbours %r' % (T, u), det)
                    judge('list', det, er, ei, list(a)[1])
                    keep, p = unaligned(ffi, T, 2 * size)
                    ffi.buffer(keep)[1 + 2 * size:1 + 4 * size] = raw
                    judge('unaligned-item', det, er, ei, p[1])
                    judge('unaligned-unpack', det, er, ei, ffi.unpack(p, 2)[1])
                elif path == 'rd_global':
                    set_global(ffi, lib, gname, raw)
                    judge('global', det, er, ei, getattr(lib, gname))
                elif path == 'rd_apires':
                    set_global(ffi, lib, gname, raw)
                    judge('apires', det, er, ei, getattr(lib, 'ret' + gname)())
                continue
            if path in ('pyreal', 'cast_char'):
                x = float.fromhex(det)
                rep.case((T, path, det), sample={'T': T, 'path': path, 'x': det})
                if path == 'pyreal':
                    stores('float', det, x, conv(x), 0.0)
                    stores('dunder-float', det, WithFloat(x), conv(x), 0.0, ('new', 'cast', 'apiarg'),
                           srcrepr='object with __float__ -> %r' % x)
                    if x == x and abs(x) != math.inf and abs(x) < 2.0 ** 1000:
                        k = int(x)
                        stores('int', det, k, conv(float(k)), 0.0, ('new', 'cast', 'item', 'apiarg'))
                        stores('bool', det, bool(k), float(bool(k)), 0.0, ('new', 'cast'))
                else:
                    c = int(abs(x)) % 256 if x == x and abs(x) != math.inf else 7
                    w = c * 257 % 0x10FFFF if c else 1
                    if 0xD800 <= w < 0xE000:
                        w = 0xE000
                    judge('cast-bytes', det, float(c), 0.0, complex(ffi.cast(T, bytes([c]))),
                          src='bytes([%d])' % c)
                    judge('cast-str', det, conv(float(w)), 0.0, complex(ffi.cast(T, chr(w))),
                          src='chr(%d)' % w)
                    judge('cast-char-cdata', det, float(c), 0.0,
                          complex(ffi.cast(T, ffi.cast('char', bytes([c])))), src='cast(char, %d)' % c)
                    judge('cast-wchar-cdata', det, conv(float(w)), 0.0,
                          complex(ffi.cast(T, ffi.cast('wchar_t', chr(w)))), src='cast(wchar_t, %d)' % w)
                continue
            ha, hb = det
            a, b = float.fromhex(ha), float.fromhex(hb)
            z = complex(a, b)
            er, ei = conv(a), conv(b)
            rep.case((T, path, ha, hb), sample={'T': T, 'path': path, 'z': [ha, hb]})
            if path == 'pyobj':
                stores('dunder-complex', det, WithComplex(z), er, ei, srcrepr='object with __complex__ -> %r' % z)
                stores('complexsub', det, ComplexSub(z), er, ei, ('new', 'cast', 'item', 'apiarg'),
                       srcrepr='ComplexSub(%r)' % z)
            elif path == 'cdata_src':
                stores('from-same', det, ffi.cast(T, z), er, ei, srcrepr='cast(%s, %r)' % (T, z))
                stores('from-other', det, ffi.cast(other, z), conv(c_float(a)), conv(c_float(b)),
                       srcrepr='cast(%s, %r)' % (other, z))
                stores('from-item', det, ffi.new(T + '*', z)[0], er, ei, ('new', 'cast'))
                for tn, e2 in (('double', er), ('float', conv(c_float(a)))):
                    judge('cast-from-' + tn, det, e2, 0.0, complex(ffi.cast(T, ffi.cast(tn, a))),
                          src='cast(%s, %r)' % (tn, a))
                if a == a and abs(a) != math.inf:
                    k = max(-2 ** 31, min(2 ** 31 - 1, int(a)))
                    judge('cast-from-int', det, conv(float(k)), 0.0, complex(ffi.cast(T, ffi.cast('int', k))),
                          src='cast(int, %d)' % k)
            elif path == 'init':
                fld = 'w' if isf else 'z'
                nn = ffi.new('struct nest *', {fld: z, 'e': b'e'})
                judge('struct-init', det, er, ei, getattr(nn, fld),
                      bytes(ffi.buffer(ffi.addressof(nn, fld))))
                arr = ffi.new(T + '[]', [prevz, z, a])
                judge('array-init', det, er, ei, arr[1], bytes(ffi.buffer(arr)[2 * size:4 * size]))
                judge('array-init-real', det, er, 0.0, arr[2], bytes(ffi.buffer(arr)[4 * size:6 * size]))
                arr[0:2] = [z, prevz]
                judge('slice-assign', det, er, ei, arr[0], bytes(ffi.buffer(arr)[0:2 * size]))
                s = ffi.new('struct %s *' % S, [b'c', z])
                judge('struct-init-list', det, er, ei, s.f, bytes(ffi.buffer(ffi.addressof(s, 'f'))))
            elif path == 'global':
                setattr(lib, gname, z)
                judge('global', det, er, ei, getattr(lib, gname),
                      bytes(ffi.buffer(ffi.addressof(lib, gname))))
                judge('global-then-c', det, er, ei, getattr(lib, 'ret' + gname)())
            elif path == 'unaligned':
                keep, p = unaligned(ffi, T, 2 * size)
                p[1] = z
                mem = bytes(ffi.buffer(keep))
                judge('unaligned-item', det, er, ei, p[1], mem[1 + 2 * size:1 + 4 * size])
                if mem[:1 + 2 * size] != bytes(1 + 2 * size) or mem[1 + 4 * size:] != bytes(2 * size):
                    rep.bad('neighbour-changed', '%s unaligned item store' % T, det)
            elif path == 'externpy':
                # C passes (g?c, g?) to the extern "Python" function and records what comes back
                # (double _Complex: 16-byte argument in the 8-byte slots of the generated
                # extern "Python" trampoline -- keyed separately as externpy-double)
                set_global(ffi, lib, gname, struct.pack(fmt, er, ei))
                yv = conv(prevz.real)
                set_global(ffi, lib, 'g' + p2, struct.pack('<f' if isf else '<d', yv))
                cur['ret'] = complex(b, a)
                cur.pop('got', None)
                r = getattr(lib, 'callep%sc' % p2)()
                if 'got' not in cur:
                    rep.bad('value:complex:' + pkey, '%s extern "Python" function was not called' % T, det)
                else:
                    gz, gy = cur['got']
                    judge('arg', det, er, ei, gz, src='C value (%r, %r)' % (er, ei))
                    if not isinstance(gy, float) or not same(gy, yv):
                        rep.bad('value:complex:' + pkey, '%s extern "Python"(z, y): y passed as %r, '
                                'received %r' % (T, yv, gy), det)
                judge('result', det, ei, er, r, bytes(ffi.buffer(lib.lastc)[0:2 * size]),
                      src='returned %r' % cur['ret'])
            prevz = z if z == z else complex(0.25, 4.0)
        except Exception as e:
            rep.bad('raised:' + path, '%s via %s of %s raised %s: %s' % (T, path, det, type(e).__name__, e), det)
    return rep.result()


def ld_ext(ffi, lib, rep, path, vals):
    T = 'long double'

    def judge_bytes(sub, hx, out, raw, mech='longdouble-copy:'):
        rep.stat('longdouble_%s:%s' % (path, sub))
        if out != raw:
            rep.bad(mech + path, 'long double %s via %s/%s became %s' % (raw.hex(), path, sub, out.hex()), hx)

    cur = {}
    if path == 'from_pyfloat':
        ffi.def_extern(name='epl0')(lambda: cur['x'])
    prevraw = x87_of_double(0.5)
    for i, hx in enumerate(vals):
        try:
            if path == 'from_pyfloat':
                x = float.fromhex(hx)
                expb = x87_of_double(x)
                rep.case(('ld', path, hx), nontrivial=x not in (0.0, 1.0, -1.0),
                         sample={'T': T, 'path': path, 'x': hx})

                def jf(sub, out, back=None, hx=hx, x=x, expb=expb):
                    rep.stat('longdouble_%s:%s' % (path, sub))
                    if expb is None:
                        if not x87_is_nan(out):
                            rep.bad('longdouble-from-double:' + path, 'NaN stored as long double via %s '
                                    'became %s' % (sub, out.hex()), hx)
                    elif out != expb:
                        rep.bad('longdouble-from-double:' + path, '%r stored as long double via %s: '
                                'memory %s, (long double)x is %s' % (x, sub, out.hex(), expb.hex()), hx)
                    if back is not None and (not isinstance(back, float) or not same(back, x)):
                        rep.bad('longdouble-to-double:' + path, '%r -> long double (%s) -> float() gives %r'
                                % (x, sub, back), hx)
                p = ffi.new('long double *', x)
                jf('new', bytes(ffi.buffer(p)[0:10]), float(p[0]))
                c = ffi.cast('long double', x)
                jf('cast', ld_bytes(ffi, c), float(c))
                jf('cast-dunder-float', ld_bytes(ffi, ffi.cast('long double', WithFloat(x))))
                a = ffi.new('long double[3]')
                a[1] = x
                jf('item', bytes(ffi.buffer(a)[16:26]), float(a[1]))
                s = ffi.new('struct sl *', {'f': x})
                jf('field-init', bytes(ffi.buffer(ffi.addressof(s, 'f'))[0:10]))
                s.f = FloatSub(x)
                jf('field', bytes(ffi.buffer(ffi.addressof(s, 'f'))[0:10]), float(s.f))
                r = lib.idl(x)
                jf('apiarg', bytes(ffi.buffer(lib.lastl)[0:10]), float(r))
                r = ffi.addressof(lib, 'idl')(x)
                jf('ffiarg', bytes(ffi.buffer(lib.lastl)[0:10]), float(r))
                lib.gl = x
                jf('global', bytes(ffi.buffer(ffi.addressof(lib, 'gl'))[0:10]), float(lib.gl))
                nn = ffi.new('struct nest *', {'l': x})
                jf('struct-init', bytes(ffi.buffer(ffi.addressof(nn, 'l'))[0:10]))
                if i % 6 == 0:
                    cb = ffi.callback('long double(void)', lambda: x)
                    r = lib.calll(cb)
                    jf('callback-result', bytes(ffi.buffer(lib.lastl)[0:10]), float(r))
                    cur['x'] = x
                    r = lib.callepl0()
                    jf('externpy-result', bytes(ffi.buffer(lib.lastl)[0:10]), float(r))
                if x == x and abs(x) != math.inf and abs(x) < 2.0 ** 1000:
                    k = int(x)
                    eb = x87_of_double(float(k))
                    out = ld_bytes(ffi, ffi.cast('long double', k))
                    rep.stat('longdouble_from_pyfloat:cast-int')
                    if out != eb:
                        rep.bad('longdouble-from-double:' + path, 'cast(long double, %d): memory %s, '
                                'expected %s' % (k, out.hex(), eb.hex()), hx)
                continue
            raw = bytes.fromhex(hx)
            src = ffi.new('long double *')
            ffi.buffer(src)[0:10] = raw
            ld = src[0]
            rep.case(('ld', path, hx), sample={'T': T, 'path': path, 'x87': hx})
            if int.from_bytes(raw[:8], 'little') & 0x7ff:
                rep.stat('longdouble_mantissa_beyond_double')
            if path == 'to_double':
                expd = double_of_x87(raw)
                v = int.from_bytes(raw, 'little')
                if expd == expd and abs(expd) not in (0.0, math.inf) and (v & 0x7ff):
                    rep.stat('longdouble_to_double_rounded')
                elif abs(expd) == math.inf and ((v >> 64) & 0x7fff) != 32767:
                    rep.stat('longdouble_to_double_overflow')

                def jd(sub, got, cr=None, hx=hx, expd=expd):
                    rep.stat('longdouble_%s:%s' % (path, sub))
                    if not isinstance(got, float) or not same(got, expd):
                        rep.bad('longdouble-to-double:' + path, 'long double %s via %s gives %r, '
                                '(double)ld is %r' % (hx, sub, got, expd), hx)
                    if cr is not None and expd == expd and cr != dbits(expd):
                        rep.bad('c-received:' + path, 'long double %s passed as double: C received %#x, '
                                'expected %#x' % (hx, cr, dbits(expd)), hx)
                jd('float()', float(ld))
                jd('cast-double', float(ffi.cast('double', ld)))
                jd('new-double', ffi.new('double *', ld)[0])
                a = ffi.new('double[2]')
                a[1] = ld
                jd('item-double', a[1])
                g = lib.idd(ld)
                jd('apiarg-double', g, lib.lastd)
                jd('float-of-copy', float(ffi.cast('long double', ld)))
            elif path == 'unpack':
                a = ffi.new('long double[3]')
                ffi.buffer(a)[0:10] = prevraw
                ffi.buffer(a)[16:26] = raw
                u = ffi.unpack(a, 3)
                judge_bytes('unpack', hx, ld_bytes(ffi, u[1]), raw)
                judge_bytes('unpack-first', hx, ld_bytes(ffi, u[0]), prevraw)
                judge_bytes('list', hx, ld_bytes(ffi, list(a)[1]), raw)
                judge_bytes('slice', hx, ld_bytes(ffi, a[1:3][0]), raw)
                b = ffi.new('long double[3]')
                b[0:3] = a[0:3]
                judge_bytes('slice-assign-cdata', hx, bytes(ffi.buffer(b)[16:26]), raw)
                b[0:2] = [u[1], u[0]]
                judge_bytes('slice-assign-list', hx, bytes(ffi.buffer(b)[0:10]), raw)
            elif path == 'global':
                lib.gl = ld
                judge_bytes('global-store', hx, bytes(ffi.buffer(ffi.addressof(lib, 'gl'))[0:10]), raw)
                judge_bytes('global-read', hx, ld_bytes(ffi, lib.gl), raw)
                judge_bytes('global-then-c', hx, ld_bytes(ffi, lib.retgl()), raw)
                judge_bytes('global-then-c-ffi', hx, ld_bytes(ffi, ffi.addressof(lib, 'retgl')()), raw)
            elif path == 'vararg':
                other = ffi.new('long double *')
                ffi.buffer(other)[0:10] = prevraw
                r = lib.val(2, other[0], ld)
                judge_bytes('vararg', hx, bytes(ffi.buffer(lib.lastl)[0:10]), raw, 'c-received:longdouble-')
                judge_bytes('vararg-result', hx, ld_bytes(ffi, r), raw)
                r = lib.val(1, ld, other[0])
                judge_bytes('vararg-first', hx, bytes(ffi.buffer(lib.lastl)[0:10]), raw,
                            'c-received:longdouble-')
            elif path == 'init':
                nn = ffi.new('struct nest *', {'l': ld, 'e': b'e'})
                judge_bytes('struct-init', hx, bytes(ffi.buffer(ffi.addressof(nn, 'l'))[0:10]), raw)
                s = ffi.new('struct sl *', [b'c', ld, b'd'])
                judge_bytes('struct-init-list', hx, bytes(ffi.buffer(ffi.addressof(s, 'f'))[0:10]), raw)
                a = ffi.new('long double[]', [0, ld])
                judge_bytes('array-init', hx, bytes(ffi.buffer(a)[16:26]), raw)
                if bytes(ffi.buffer(a)[0:10]) != b'\0' * 10:
                    rep.bad('neighbour-changed', 'long double array initializer', hx)
                c2 = ffi.cast('long double', ffi.cast('long double', ld))
                judge_bytes('cast-twice', hx, ld_bytes(ffi, c2), raw)
                pp = ffi.new('long double *', ffi.new('long double *', ld)[0])
                judge_bytes('new-of-item', hx, bytes(ffi.buffer(pp)[0:10]), raw)
            elif path == 'unaligned':
                keep, p = unaligned(ffi, T, 16)
                p[1] = ld
                mem = bytes(ffi.buffer(keep))
                judge_bytes('unaligned-store', hx, mem[17:27], raw)
                judge_bytes('unaligned-read', hx, ld_bytes(ffi, p[1]), raw)
                judge_bytes('unaligned-unpack', hx, ld_bytes(ffi, ffi.unpack(p, 2)[1]), raw)
                if mem[:17] != b'\0' * 17 or mem[33:] != b'\0' * 16:
                    rep.bad('neighbour-changed', 'long double unaligned item store', hx)
            prevraw = raw
        except Exception as e:
            rep.bad('raised:' + path, 'long double via %s of %s raised %s: %s'
                    % (path, hx, type(e).__name__, e), hx)
    return rep.result()


def args_ext(ffi, lib, rep, path, vals):
    """C calls a callback / extern "Python" function with (char, float, double, long double, float)
    read from globals whose bytes were set through ffi.buffer."""
    cur = {}

    def rec(c, a, b, l, a2):
        cur['got'] = (c, a, b, l, a2)
        return cur['ret']

    def recl(l, a):
        cur['got'] = (l, a)
        return cur['ret']
    if path == 'cbarg':
        cb = ffi.callback('double(char, float, double, long double, float)', rec)
        call = lambda: lib.cbargs(cb)
    elif path == 'eparg':
        ffi.def_extern(name='epargs')(rec)
        call = lib.callepargs
    else:
        ffi.def_extern(name='epl')(recl)
        call = lib.callepl
    for det in vals:
        fh, dh, lh = det
        try:
            fraw, draw, lraw = bytes.fromhex(fh), bytes.fromhex(dh), bytes.fromhex(lh)
            ef = struct.unpack('<f', fraw)[0]
            ed = struct.unpack('<d', draw)[0]
            set_global(ffi, lib, 'gf', fraw)
            set_global(ffi, lib, 'gd', draw)
            set_global(ffi, lib, 'gl', lraw)
            cur.pop('got', None)
            rep.case(('args', path, fh, dh, lh), sample={'T': 'args', 'path': path, 'bits': det})
            rep.stat('args_' + path)
            if path == 'epl':
                cur['ret'] = ffi.addressof(lib, 'gl')[0]
                r = call()
                if 'got' not in cur:
                    rep.bad('value:' + path, 'extern "Python" function not called', det)
                    continue
                l, a = cur['got']
                if ld_bytes(ffi, l) != lraw:
                    rep.bad('longdouble-copy:' + path, 'C passed long double %s, Python received %s'
                            % (lh, ld_bytes(ffi, l).hex()), det)
                if not isinstance(a, float) or not same(a, ef):
                    rep.bad('value:' + path, 'C passed float %s (%r) after a long double, Python '
                            'received %r' % (fh, ef, a), det)
                if bytes(ffi.buffer(lib.lastl)[0:10]) != lraw:
                    rep.bad('c-received:longdouble-' + path, 'extern "Python" returned long double %s, '
                            'C received %s' % (lh, bytes(ffi.buffer(lib.lastl)[0:10]).hex()), det)
                if ld_bytes(ffi, r) != lraw:
                    rep.bad('longdouble-copy:' + path, 'long double %s through extern "Python" and back: '
                            '%s' % (lh, ld_bytes(ffi, r).hex()), det)
                continue
            cur['ret'] = ed
            r = call()
            if 'got' not in cur:
                rep.bad('value:' + path, 'callback not called', det)
                continue
            c, a, b, l, a2 = cur['got']
            if c != b'x' or not isinstance(a, float) or not same(a, ef) or not isinstance(a2, float) or \
                    not same(a2, ef):
                rep.bad('value:' + path, 'C passed (x, float %s = %r, ..., same float): Python received '
                        '(%r, %r, ..., %r)' % (fh, ef, c, a, a2), det)
            if not isinstance(b, float) or not same(b, ed):
                rep.bad('value:' + path, 'C passed double %s = %r: Python received %r' % (dh, ed, b), det)
            if ld_bytes(ffi, l) != lraw:
                rep.bad('longdouble-copy:' + path, 'C passed long double %s, Python received %s'
                        % (lh, ld_bytes(ffi, l).hex()), det)
            if not same(r, ed) or (ed == ed and lib.lastd != dbits(ed)):
                rep.bad('c-received:' + path, 'Python returned %r: C received bits %#x, call returned %r'
                        % (ed, lib.lastd, r), det)
        except Exception as e:
            rep.bad('raised:' + path, 'args via %s of %s raised %s: %s' % (path, det, type(e).__name__, e), det)
    return rep.result()


def child_case(st, case):
    ffi, lib = st['ffi'], st['lib']
    T, path = case['T'], case['path']
    rep = core.ChildRep()
    if T in ('float', 'double') and (path in F2PATHS or path in FRPATHS):
        return fd_ext(ffi, lib, rep, T, path, case['vals'])
    if T.endswith('_Complex') and (path in C2PATHS or path in CRPATHS):
        return cx_ext(ffi, lib, rep, T, path, case['vals'])
    if T == 'long double' and path in L2PATHS:
        return ld_ext(ffi, lib, rep, path, case['vals'])
    if T == 'args':
        return args_ext(ffi, lib, rep, path, case['vals'])
    if T in ('float', 'double'):
        conv = c_float if T == 'float' else (lambda x: x)
        S = 'sf' if T == 'float' else 'sd'
        sfx = 'f' if T == 'float' else 'd'
        cur = {}
        if path == 'externpy':
            ffi.def_extern(name='ep' + sfx)(lambda: cur['x'])
        for hx in case['vals']:
            x = float.fromhex(hx)
            exp = conv(x)
            crec = None
            try:
                if path == 'new':
                    got = ffi.new(T + '*', x)[0]
                elif path == 'item':
                    a = ffi.new(T + '[3]')
                    a[1] = x
                    got = a[1]
                    if a[0] != 0 or a[2] != 0:
                        rep.bad('neighbour-changed', '%s item store of %r' % (T, x), hx)
                elif path == 'field':
                    s = ffi.new('struct %s *' % S)
                    s.f = x
                    got = s.f
                    if s.c != b'\0' or s.d != b'\0':
                        rep.bad('neighbour-changed', '%s field store of %r' % (T, x), hx)
                elif path == 'cast':
                    got = float(ffi.cast(T, x))
                elif path == 'dunder_float':
                    got = ffi.new(T + '*', WithFloat(x))[0]
                    g2 = float(ffi.cast(T, WithFloat(x)))
                    if not same(got, g2):
                        rep.bad('cast-vs-new', '%s __float__ %r: new %r cast %r' % (T, x, got, g2), hx)
                elif path == 'cast_char':
                    c = int(abs(x)) % 256 if x == x and abs(x) != math.inf else 7
                    got = float(ffi.cast(T, bytes([c])))
                    exp = float(c)
                    g2 = float(ffi.cast(T, chr(c * 257 % 0x10FFFF if c else 1)))
                    e2 = float(c * 257 % 0x10FFFF if c else 1)
                    if not same(conv(e2), g2):
                        rep.bad('cast-str', 'cast(%s, chr(%d)) = %r' % (T, int(e2), g2), hx)
                elif path in ('apiarg', 'ffiarg'):
                    f = getattr(lib, 'id' + sfx)
                    if path == 'ffiarg':
                        f = ffi.addressof(lib, 'id' + sfx)
                    got = f(x)
                    crec = lib.lastf if T == 'float' else lib.lastd
                elif path == 'callback':
                    cb = ffi.callback(T + '(void)', lambda: x)
                    got = getattr(lib, 'call' + sfx)(cb)
                    crec = lib.lastf if T == 'float' else lib.lastd
                elif path == 'externpy':
                    cur['x'] = x
                    got = getattr(lib, 'callep' + sfx)()
                    crec = lib.lastf if T == 'float' else lib.lastd
            except Exception as e:
                rep.bad('raised:' + path, '%s via %s of %r raised %s: %s' %
                        (T, path, x, type(e).__name__, e), hx)
                continue
            rep.case((T, path, hx), nontrivial=x not in (0.0, 1.0, -1.0),
                     sample={'T': T, 'path': path, 'x': hx, 'read': repr(got)})
            rep.stat('%s_%s' % (T, path))
            if exp != exp:
                rep.stat('nan_sources')
            elif abs(exp) == math.inf and abs(x) != math.inf:
                rep.stat('overflow_to_inf')
            elif T == 'float' and exp != x:
                rep.stat('rounded')
            if not isinstance(got, float) or not same(got, exp):
                rep.bad('value:' + path, '%s via %s: stored %s (%r), read %r, C conversion gives %r'
                        % (T, path, hx, x, got, exp), hx)
            if crec is not None and exp == exp:
                eb = fbits(exp) if T == 'float' else dbits(exp)
                if crec != eb:
                    rep.bad('c-received:' + path, '%s via %s: passed %r, C received bits %#x, '
                            'expected %#x' % (T, path, x, crec, eb), hx)
    elif T.endswith('_Complex'):
        base = 'float' if T.startswith('float') else 'double'
        conv = c_float if base == 'float' else (lambda x: x)
        S = 'sfc' if base == 'float' else 'sdc'
        p2 = 'f' if base == 'float' else 'd'
        for ha, hb in case['vals']:
            a, b = float.fromhex(ha), float.fromhex(hb)
            z = complex(a, b)
            try:
                if path == 'new':
                    got = ffi.new(T + '*', z)[0]
                elif path == 'item':
                    arr = ffi.new(T + '[3]')
                    arr[1] = z
                    got = arr[1]
                    if arr[0] != 0 or arr[2] != 0:
                        rep.bad('neighbour-changed', '%s item store' % T, [ha, hb])
                elif path == 'field':
                    s = ffi.new('struct %s *' % S)
                    s.f = z
                    got = s.f
                    if s.c != b'\0' or s.d != b'\0':
                        rep.bad('neighbour-changed', '%s field store' % T, [ha, hb])
                elif path == 'cast':
                    got = complex(ffi.cast(T, z))
                elif path == 'apiarg':
                    got = getattr(lib, 'id%sc' % p2)(z)
                    re_ = getattr(lib, p2 + 'cre')(z)
                    im_ = getattr(lib, p2 + 'cim')(z)
                    if not (same(re_, conv(a)) and same(im_, conv(b))):
                        rep.bad('c-received:complex', '%s passed %r: C sees (%r, %r)' %
                                (T, z, re_, im_), [ha, hb])
            except Exception as e:
                rep.bad('raised:' + path, '%s via %s of %r raised %s: %s' %
                        (T, path, z, type(e).__name__, e), [ha, hb])
                continue
            rep.case((T, path, ha, hb), sample={'T': T, 'path': path, 'z': [ha, hb]})
            rep.stat('%s_%s' % (T, path))
            if not isinstance(got, complex) or not same(got.real, conv(a)) or \
                    not same(got.imag, conv(b)):
                rep.bad('value:complex:' + path, '%s via %s: stored %r, read %r, expected (%r, %r)'
                        % (T, path, z, got, conv(a), conv(b)), [ha, hb])
    else:
        for hx in case['vals']:
            raw = bytes.fromhex(hx)
            src = ffi.new('long double *')
            ffi.buffer(src)[0:10] = raw
            ld = src[0]
            try:
                if path == 'new':
                    q = ffi.new('long double *', ld)
                    out = bytes(ffi.buffer(q)[0:10])
                elif path == 'item':
                    q = ffi.new('long double[3]')
                    q[1] = ld
                    out = bytes(ffi.buffer(q)[16:26])
                    if bytes(ffi.buffer(q)[0:16]) != b'\0' * 16 or \
                            bytes(ffi.buffer(q)[32:48]) != b'\0' * 16:
                        rep.bad('neighbour-changed', 'long double item store', hx)
                elif path == 'field':
                    q = ffi.new('struct sl *')
                    q.f = ld
                    out = bytes(ffi.buffer(ffi.addressof(q, 'f'))[0:10])
                elif path == 'cast':
                    c = ffi.cast('long double', ld)
                    q = ffi.new('long double *', c)
                    out = bytes(ffi.buffer(q)[0:10])
                elif path in ('apiarg', 'ffiarg'):
                    f = lib.idl if path == 'apiarg' else ffi.addressof(lib, 'idl')
                    r = f(ld)
                    if bytes(ffi.buffer(lib.lastl)[0:10]) != raw:
                        rep.bad('c-received:longdouble', 'passed %s, C received %s' %
                                (hx, bytes(ffi.buffer(lib.lastl)[0:10]).hex()), hx)
                    q = ffi.new('long double *', r)
                    out = bytes(ffi.buffer(q)[0:10])
                elif path == 'callback':
                    cb = ffi.callback('long double(void)', lambda: ld)
                    r = lib.calll(cb)
                    if bytes(ffi.buffer(lib.lastl)[0:10]) != raw:
                        rep.bad('c-received:longdouble-callback', 'returned %s, C received %s' %
                                (hx, bytes(ffi.buffer(lib.lastl)[0:10]).hex()), hx)
                    q = ffi.new('long double *', r)
                    out = bytes(ffi.buffer(q)[0:10])
                elif path == 'fromc':
                    v = int.from_bytes(raw, 'little')
                    a = float.fromhex(gen.f64(v & ((1 << 64) - 1) & ~(0x7ff << 52) | (1023 << 52)).hex())
                    b = float((v >> 3) & 0xfffff)
                    e = ((v >> 64) & 0x7fff) - 16383
                    r = lib.mkld(a, b, e)
                    q = ffi.new('long double *', r)
                    raw = bytes(ffi.buffer(q)[0:10])
                    q2 = ffi.new('long double[1]', [q[0]])
                    out = bytes(ffi.buffer(q2)[0:10])
                    r2 = lib.idl(q[0])
                    if bytes(ffi.buffer(lib.lastl)[0:10]) != raw:
                        rep.bad('c-received:longdouble', 'C value %s passed back, C received %s' %
                                (raw.hex(), bytes(ffi.buffer(lib.lastl)[0:10]).hex()), hx)
            except Exception as e:
                rep.bad('raised:' + path, 'long double via %s of %s raised %s: %s' %
                        (path, hx, type(e).__name__, e), hx)
                continue
            rep.case(('ld', path, raw.hex()), sample={'T': T, 'path': path, 'x87': raw.hex()})
            rep.stat('longdouble_' + path)
            m = int.from_bytes(raw[:8], 'little')
            if m & 0x7ff:
                rep.stat('longdouble_mantissa_beyond_double')
            if out != raw:
                rep.bad('longdouble-copy:' + path, 'long double %s copied via %s became %s' %
                        (raw.hex(), path, out.hex()), hx)
    return rep.result()


# A complex value passed as the *first call* into a freshly imported API module, to each of
# four functions whose complex parameter sits at a different position of the module's type
# table (the wrapper's type slot for it must be usable whichever function is built first).
CX_CDEF = ("float cxa(int a, float _Complex x); float cxb(float _Complex x, int b); "
           "double cxc(int a, double _Complex x); double cxd(double _Complex x, double _Complex y);")
CX_SRC = ("#include <complex.h>\n"
          "float cxa(int a, float _Complex x) { return crealf(x) * 4 + cimagf(x) + a; }\n"
          "float cxb(float _Complex x, int b) { return crealf(x) * 4 + cimagf(x) + b; }\n"
          "double cxc(int a, double _Complex x) { return creal(x) * 4 + cimag(x) + a; }\n"
          "double cxd(double _Complex x, double _Complex y) { return creal(x) * 4 + cimag(y); }\n")
CX_CALLS = [('cxa', '(16, 2+3j)', 27.0), ('cxb', '(2+3j, 16)', 27.0), ('cxc', '(16, 2+3j)', 27.0),
            ('cxd', '(2+3j, 5+7j)', 15.0)]


def finalize(ctx, setup):
    import subprocess
    from vlib import build
    d = os.path.join(ctx.tmp, 'cxmod')
    res = modbuild.build_modules(ctx, [{'name': '_c05cx', 'kind': 'api', 'cdef': CX_CDEF,
                                        'source': CX_SRC, 'dir': d}])['_c05cx']
    if not res['ok']:
        ctx.inconclusive('complex first-call module does not build: ' + res['error'][-300:])
        return
    env = build.child_env('plain')
    env['PYTHONPATH'] = d + os.pathsep + env['PYTHONPATH']
    for name, args, want in CX_CALLS:
        code = 'import _c05cx; print(repr(_c05cx.lib.%s%s))' % (name, args)
        try:
            p = subprocess.run(build.python_cmd('plain') + ['-c', code], env=env, cwd=d,
                               stdout=subprocess.PIPE, stderr=subprocess.PIPE, timeout=300)
        except subprocess.TimeoutExpired:
            ctx.inconclusive('complex first-call probe timed out (watchdog)')
            continue
        case = {'complex_first_call': name}
        ctx.case(('complex-first-call', name), sample={'first_call': name + args})
        ctx.count('complex_argument_as_first_call')
        out = p.stdout.decode(errors='replace').strip()
        if p.returncode != 0:
            ctx.violation('complex-argument-first-call:crash', 'lib.%s%s as the first call into a '
                          'fresh API module: rc=%s %s' % (name, args, p.returncode,
                                                          p.stderr.decode(errors='replace')[-300:]),
                          case)
        elif out != repr(want):
            ctx.violation('complex-argument-first-call:value', 'lib.%s%s as the first call gave %s, '
                          'C computes %r' % (name, args, out, want), case)


def judge(ctx, setup, case, obs):
    def rp(detail):
        c = dict(case)
        c['vals'] = [detail]
        return c
    core.absorb(ctx, case, obs, rp)


def replay_setup(ctx, case):
    d = os.path.join(ctx.tmp, 'mod')
    res = modbuild.build_modules(ctx, [spec(d)])['_c05mod']
    if not res['ok']:
        raise core.Inconclusive('helper module build failed: ' + res['error'])
    return {'dir': d}
