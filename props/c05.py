"""C05 -- floating-point and complex stores round-trip with C conversion
semantics; long double copies are bit-exact.

Oracle: the IEEE value C obtains (ctypes.c_float / struct 'd' -- both compiled
C conversions independent of cffi) and C-side bit recorders in a compiled
helper module; long double: 10 value bytes of valid x87 encodings.
"""
import os, sys, struct, math
from vlib import gen, core, modbuild

RULE = ("case = (target type, store path, source value); float/double: doubles from random 64-bit "
        "patterns, edge values, float32 rounding boundaries (+-1ulp of the halfway points), objects "
        "with __float__, 1-char bytes/str for cast; complex: pairs of such doubles; long double: "
        "random valid x87 80-bit encodings (normals with 64-bit mantissas, denormals, zeros, inf, "
        "quiet NaN) and values produced by C; paths: new, item, field, cast, API arg, libffi arg, "
        "callback result, extern-Python result; distinct = (type,path,bits); non-trivial = value "
        "not in {0,1,-1}")
ASSUMPTIONS = ["ctypes.c_float and struct.pack('f') perform the platform C double->float conversion",
               "invalid x87 encodings (pseudo-denormals, unnormals) are not generated: the hardware rewrites them",
               "long double padding bytes 10..15 are not compared; NaN payloads are not compared for float/double (NaN stays NaN)"]

SRC = r'''
#include <string.h>
#include <complex.h>
unsigned int lastf; unsigned long long lastd; unsigned char lastl[16];
float idf(float x) { memcpy(&lastf, &x, 4); return x; }
double idd(double x) { memcpy(&lastd, &x, 8); return x; }
long double idl(long double x) { memset(lastl, 0, 16); memcpy(lastl, &x, 10); return x; }
float callf(float (*cb)(void)) { float x = cb(); memcpy(&lastf, &x, 4); return x; }
double calld(double (*cb)(void)) { double x = cb(); memcpy(&lastd, &x, 8); return x; }
long double calll(long double (*cb)(void)) { long double x = cb(); memset(lastl, 0, 16); memcpy(lastl, &x, 10); return x; }
static float epf(void); static double epd(void);
float callepf(void) { float x = epf(); memcpy(&lastf, &x, 4); return x; }
double callepd(void) { double x = epd(); memcpy(&lastd, &x, 8); return x; }
float _Complex idfc(float _Complex x) { return x; }
double _Complex iddc(double _Complex x) { return x; }
float fcre(float _Complex x) { return crealf(x); }
float fcim(float _Complex x) { return cimagf(x); }
double dcre(double _Complex x) { return creal(x); }
double dcim(double _Complex x) { return cimag(x); }
long double mkld(double a, double b, int e) { return ldexpl((long double)a + (long double)b * 0x1p-60L, e); }
struct sf { char c; float f; char d; };
struct sd { char c; double f; char d; };
struct sl { char c; long double f; char d; };
struct sfc { char c; float _Complex f; char d; };
struct sdc { char c; double _Complex f; char d; };
'''
CDEF = r'''
unsigned int lastf; unsigned long long lastd; unsigned char lastl[16];
float idf(float x); double idd(double x); long double idl(long double x);
float callf(float (*cb)(void)); double calld(double (*cb)(void)); long double calll(long double (*cb)(void));
extern "Python" float epf(void); extern "Python" double epd(void);
float callepf(void); double callepd(void);
float _Complex idfc(float _Complex x); double _Complex iddc(double _Complex x);
float fcre(float _Complex x); float fcim(float _Complex x); double dcre(double _Complex x); double dcim(double _Complex x);
long double mkld(double a, double b, int e);
struct sf { char c; float f; char d; };
struct sd { char c; double f; char d; };
struct sl { char c; long double f; char d; };
struct sfc { char c; float _Complex f; char d; };
struct sdc { char c; double _Complex f; char d; };
'''

FPATHS = ['new', 'item', 'field', 'cast', 'apiarg', 'ffiarg', 'callback', 'externpy',
          'dunder_float', 'cast_char']
CPATHS = ['new', 'item', 'field', 'cast', 'apiarg']
LPATHS = ['new', 'item', 'field', 'cast', 'apiarg', 'ffiarg', 'callback', 'fromc']


def spec(d):
    return {'name': '_c05mod', 'kind': 'api', 'cdef': CDEF, 'source': '#include <math.h>\n' + SRC,
            'dir': d, 'kwds': {'libraries': ['m']}}


def rand_x87(rng):
    r = rng.random()
    sign = rng.getrandbits(1)
    if r < 0.6:
        exp = rng.choice([rng.randrange(1, 32767), 16383, 16384, 16382, 1, 32766,
                          16383 + rng.randrange(-80, 80)])
        mant = (1 << 63) | rng.getrandbits(63)
        if rng.random() < 0.2:
            mant = (1 << 63) | rng.choice([0, 1, (1 << 63) - 1, 1 << 10, (1 << 11) - 1, 1 << 62])
    elif r < 0.7:
        exp, mant = 0, rng.getrandbits(63)          # denormal / zero
        if rng.random() < 0.3:
            mant = 0
    elif r < 0.8:
        exp, mant = 32767, 1 << 63                  # inf
    elif r < 0.9:
        exp, mant = 32767, (3 << 62) | rng.getrandbits(62)   # quiet NaN
    else:
        exp = 16383 + rng.randrange(-1100, 1100)    # in and around double's range
        mant = (1 << 63) | (rng.getrandbits(63) & ~((1 << rng.choice([0, 11, 40])) - 1))
    v = (sign << 79) | (exp << 64) | mant
    return v.to_bytes(10, 'little').hex()


def generate(ctx):
    rng = ctx.rng('gen')
    d = os.path.join(ctx.tmp, 'mod')
    res = modbuild.build_modules(ctx, [spec(d)])['_c05mod']
    if not res['ok']:
        raise core.Inconclusive('helper module build failed: ' + res['error'] + res.get('log', ''))
    n = ctx.scale(6000, 150000)
    cases = []

    def doubles(k):
        out = [x.hex() for x in gen.FLOAT_EDGES]
        while len(out) < k:
            out.append(gen.rand_double(rng).hex())
        return out
    for T in ('float', 'double'):
        for path in FPATHS:
            m = n if path not in ('callback', 'externpy') else max(60, n // 6)
            cases.append({'T': T, 'path': path, 'vals': doubles(m)})
    for T in ('float _Complex', 'double _Complex'):
        for path in CPATHS:
            cases.append({'T': T, 'path': path,
                          'vals': [[a, b] for a, b in zip(doubles(n // 2), reversed(doubles(n // 2)))]})
    for path in LPATHS:
        m = n if path != 'callback' else max(60, n // 6)
        cases.append({'T': 'long double', 'path': path, 'vals': [rand_x87(rng) for _ in range(m)]})
    return {'dir': d}, cases


def child_setup(setup, wd):
    sys.path.insert(0, setup['dir'])
    import _c05mod
    sys.stderr = open(os.devnull, 'w')
    sys.unraisablehook = lambda *a: None
    return {'ffi': _c05mod.ffi, 'lib': _c05mod.lib}


def fbits(x):
    return struct.unpack('<I', struct.pack('<f', x))[0]


def dbits(x):
    return struct.unpack('<Q', struct.pack('<d', x))[0]


def c_float(x):
    import ctypes
    return ctypes.c_float(x).value


def same(a, b):
    """a, b Python floats: same IEEE value (NaN == NaN, -0.0 != 0.0)."""
    if a != a or b != b:
        return a != a and b != b
    return dbits(a) == dbits(b)


class WithFloat(object):
    def __init__(self, x):
        self.x = x

    def __float__(self):
        return self.x


def child_case(st, case):
    ffi, lib = st['ffi'], st['lib']
    T, path = case['T'], case['path']
    rep = core.ChildRep()
    if T in ('float', 'double'):
        conv = c_float if T == 'float' else (lambda x: x)
        S = 'sf' if T == 'float' else 'sd'
        sfx = 'f' if T == 'float' else 'd'
        cur = {}
        if path == 'externpy':
            ffi.def_extern(name='ep' + sfx)(lambda: cur['x'])
        for hx in case['vals']:
            x = float.fromhex(hx)
            exp = conv(x)
            crec = None
            try:
                if path == 'new':
                    got = ffi.new(T + '*', x)[0]
                elif path == 'item':
                    a = ffi.new(T + '[3]')
                    a[1] = x
                    got = a[1]
                    if a[0] != 0 or a[2] != 0:
                        rep.bad('neighbour-changed', '%s item store of %r' % (T, x), hx)
                elif path == 'field':
                    s = ffi.new('struct %s *' % S)
                    s.f = x
                    got = s.f
                    if s.c != b'\0' or s.d != b'\0':
                        rep.bad('neighbour-changed', '%s field store of %r' % (T, x), hx)
                elif path == 'cast':
                    got = float(ffi.cast(T, x))
                elif path == 'dunder_float':
                    got = ffi.new(T + '*', WithFloat(x))[0]
                    g2 = float(ffi.cast(T, WithFloat(x)))
                    if not same(got, g2):
                        rep.bad('cast-vs-new', '%s __float__ %r: new %r cast %r' % (T, x, got, g2), hx)
                elif path == 'cast_char':
                    c = int(abs(x)) % 256 if x == x and abs(x) != math.inf else 7
                    got = float(ffi.cast(T, bytes([c])))
                    exp = float(c)
                    g2 = float(ffi.cast(T, chr(c * 257 % 0x10FFFF if c else 1)))
                    e2 = float(c * 257 % 0x10FFFF if c else 1)
                    if not same(conv(e2), g2):
                        rep.bad('cast-str', 'cast(%s, chr(%d)) = %r' % (T, int(e2), g2), hx)
                elif path in ('apiarg', 'ffiarg'):
                    f = getattr(lib, 'id' + sfx)
                    if path == 'ffiarg':
                        f = ffi.addressof(lib, 'id' + sfx)
                    got = f(x)
                    crec = lib.lastf if T == 'float' else lib.lastd
                elif path == 'callback':
                    cb = ffi.callback(T + '(void)', lambda: x)
                    got = getattr(lib, 'call' + sfx)(cb)
                    crec = lib.lastf if T == 'float' else lib.lastd
                elif path == 'externpy':
                    cur['x'] = x
                    got = getattr(lib, 'callep' + sfx)()
                    crec = lib.lastf if T == 'float' else lib.lastd
            except Exception as e:
                rep.bad('raised:' + path, '%s via %s of %r raised %s: %s' %
                        (T, path, x, type(e).__name__, e), hx)
                continue
            rep.case((T, path, hx), nontrivial=x not in (0.0, 1.0, -1.0),
                     sample={'T': T, 'path': path, 'x': hx, 'read': repr(got)})
            rep.stat('%s_%s' % (T, path))
            if exp != exp:
                rep.stat('nan_sources')
            elif abs(exp) == math.inf and abs(x) != math.inf:
                rep.stat('overflow_to_inf')
            elif T == 'float' and exp != x:
                rep.stat('rounded')
            if not isinstance(got, float) or not same(got, exp):
                rep.bad('value:' + path, '%s via %s: stored %s (%r), read %r, C conversion gives %r'
                        % (T, path, hx, x, got, exp), hx)
            if crec is not None and exp == exp:
                eb = fbits(exp) if T == 'float' else dbits(exp)
                if crec != eb:
                    rep.bad('c-received:' + path, '%s via %s: passed %r, C received bits %#x, '
                            'expected %#x' % (T, path, x, crec, eb), hx)
    elif T.endswith('_Complex'):
        base = 'float' if T.startswith('float') else 'double'
        conv = c_float if base == 'float' else (lambda x: x)
        S = 'sfc' if base == 'float' else 'sdc'
        p2 = 'f' if base == 'float' else 'd'
        for ha, hb in case['vals']:
            a, b = float.fromhex(ha), float.fromhex(hb)
            z = complex(a, b)
            try:
                if path == 'new':
                    got = ffi.new(T + '*', z)[0]
                elif path == 'item':
                    arr = ffi.new(T + '[3]')
                    arr[1] = z
                    got = arr[1]
                    if arr[0] != 0 or arr[2] != 0:
                        rep.bad('neighbour-changed', '%s item store' % T, [ha, hb])
                elif path == 'field':
                    s = ffi.new('struct %s *' % S)
                    s.f = z
                    got = s.f
                    if s.c != b'\0' or s.d != b'\0':
                        rep.bad('neighbour-changed', '%s field store' % T, [ha, hb])
                elif path == 'cast':
                    got = complex(ffi.cast(T, z))
                elif path == 'apiarg':
                    got = getattr(lib, 'id%sc' % p2)(z)
                    re_ = getattr(lib, p2 + 'cre')(z)
                    im_ = getattr(lib, p2 + 'cim')(z)
                    if not (same(re_, conv(a)) and same(im_, conv(b))):
                        rep.bad('c-received:complex', '%s passed %r: C sees (%r, %r)' %
                                (T, z, re_, im_), [ha, hb])
            except Exception as e:
                rep.bad('raised:' + path, '%s via %s of %r raised %s: %s' %
                        (T, path, z, type(e).__name__, e), [ha, hb])
                continue
            rep.case((T, path, ha, hb), sample={'T': T, 'path': path, 'z': [ha, hb]})
            rep.stat('%s_%s' % (T, path))
            if not isinstance(got, complex) or not same(got.real, conv(a)) or \
                    not same(got.imag, conv(b)):
                rep.bad('value:complex:' + path, '%s via %s: stored %r, read %r, expected (%r, %r)'
                        % (T, path, z, got, conv(a), conv(b)), [ha, hb])
    else:
        for hx in case['vals']:
            raw = bytes.fromhex(hx)
            src = ffi.new('long double *')
            ffi.buffer(src)[0:10] = raw
            ld = src[0]
            try:
                if path == 'new':
                    q = ffi.new('long double *', ld)
                    out = bytes(ffi.buffer(q)[0:10])
                elif path == 'item':
                    q = ffi.new('long double[3]')
                    q[1] = ld
                    out = bytes(ffi.buffer(q)[16:26])
                    if bytes(ffi.buffer(q)[0:16]) != b'\0' * 16 or \
                            bytes(ffi.buffer(q)[32:48]) != b'\0' * 16:
                        rep.bad('neighbour-changed', 'long double item store', hx)
                elif path == 'field':
                    q = ffi.new('struct sl *')
                    q.f = ld
                    out = bytes(ffi.buffer(ffi.addressof(q, 'f'))[0:10])
                elif path == 'cast':
                    c = ffi.cast('long double', ld)
                    q = ffi.new('long double *', c)
                    out = bytes(ffi.buffer(q)[0:10])
                elif path in ('apiarg', 'ffiarg'):
                    f = lib.idl if path == 'apiarg' else ffi.addressof(lib, 'idl')
                    r = f(ld)
                    if bytes(ffi.buffer(lib.lastl)[0:10]) != raw:
                        rep.bad('c-received:longdouble', 'passed %s, C received %s' %
                                (hx, bytes(ffi.buffer(lib.lastl)[0:10]).hex()), hx)
                    q = ffi.new('long double *', r)
                    out = bytes(ffi.buffer(q)[0:10])
                elif path == 'callback':
                    cb = ffi.callback('long double(void)', lambda: ld)
                    r = lib.calll(cb)
                    if bytes(ffi.buffer(lib.lastl)[0:10]) != raw:
                        rep.bad('c-received:longdouble-callback', 'returned %s, C received %s' %
                                (hx, bytes(ffi.buffer(lib.lastl)[0:10]).hex()), hx)
                    q = ffi.new('long double *', r)
                    out = bytes(ffi.buffer(q)[0:10])
                elif path == 'fromc':
                    v = int.from_bytes(raw, 'little')
                    a = float.fromhex(gen.f64(v & ((1 << 64) - 1) & ~(0x7ff << 52) | (1023 << 52)).hex())
                    b = float((v >> 3) & 0xfffff)
                    e = ((v >> 64) & 0x7fff) - 16383
                    r = lib.mkld(a, b, e)
                    q = ffi.new('long double *', r)
                    raw = bytes(ffi.buffer(q)[0:10])
                    q2 = ffi.new('long double[1]', [q[0]])
                    out = bytes(ffi.buffer(q2)[0:10])
                    r2 = lib.idl(q[0])
                    if bytes(ffi.buffer(lib.lastl)[0:10]) != raw:
                        rep.bad('c-received:longdouble', 'C value %s passed back, C received %s' %
                                (raw.hex(), bytes(ffi.buffer(lib.lastl)[0:10]).hex()), hx)
            except Exception as e:
                rep.bad('raised:' + path, 'long double via %s of %s raised %s: %s' %
                        (path, hx, type(e).__name__, e), hx)
                continue
            rep.case(('ld', path, raw.hex()), sample={'T': T, 'path': path, 'x87': raw.hex()})
            rep.stat('longdouble_' + path)
            m = int.from_bytes(raw[:8], 'little')
            if m & 0x7ff:
                rep.stat('longdouble_mantissa_beyond_double')
            if out != raw:
                rep.bad('longdouble-copy:' + path, 'long double %s copied via %s became %s' %
                        (raw.hex(), path, out.hex()), hx)
    return rep.result()


def judge(ctx, setup, case, obs):
    def rp(detail):
        c = dict(case)
        c['vals'] = [detail]
        return c
    core.absorb(ctx, case, obs, rp)


def replay_setup(ctx, case):
    d = os.path.join(ctx.tmp, 'mod')
    res = modbuild.build_modules(ctx, [spec(d)])['_c05mod']
    if not res['ok']:
        raise core.Inconclusive('helper module build failed: ' + res['error'])
    return {'dir': d}
