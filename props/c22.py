"""C22 -- errno is passed to and from C calls and is thread-local.

Single-thread part: random values through every path (API call, libffi call,
in-line ABI call, callback, extern "Python", global-variable fetch), with
Python activity that changes the real errno in between.
Schedule part: Python threads (and pthreads not created by Python) each write
errno values tagged with their identity; every observation is logged and a
thread may only ever observe its own most recent value.  Repeated on the TSan
build, deciding only at the errno save slot.
"""
import os, sys, time, threading, random
from vlib import core, modbuild, thrmod

RULE = ("case = (a) single-thread transfer: (path, value) over 0, +-1, INT_MIN/MAX, random ints, "
        "with interleaved Python activity that sets the real errno; (b) one multi-thread run: 2-4 "
        "Python threads + 0-3 foreign pthreads, 200 set/call/get rounds each with values tagged "
        "(thread id << 20 | counter), 1 us switch interval and random yields between set, call "
        "and get; distinct = (path, value) resp. interleaving signature of a run; non-trivial = "
        "value != 0")
ASSUMPTIONS = ["the C helper functions compiled by gcc read and write the real errno of the calling thread"]

PATHS = ['api', 'ffi', 'abi', 'callback', 'externpy', 'globalfetch', 'api_then_python_noise']
INT_MAX = 2 ** 31 - 1


def build(ctx):
    d = os.path.join(ctx.tmp, 'mod')
    res = modbuild.build_modules(ctx, [thrmod.spec(d)])['_thrmod']
    if not res['ok']:
        raise core.Inconclusive('helper module build failed: ' + res['error'] + res.get('log', ''))
    return {'dir': d}


def run(ctx):
    setup = build(ctx)
    rng = ctx.rng('gen')
    nv = ctx.scale(600, 20000)
    cases = []
    for p in PATHS:
        vals = [0, 1, -1, 2, INT_MAX, -INT_MAX - 1, 77, 11] + \
            [rng.randint(-INT_MAX - 1, INT_MAX) for _ in range(nv)]
        cases.append({'kind': 'single', 'path': p, 'vals': vals})
    nruns = ctx.scale(40, 2000)
    for i in range(0, nruns, 5):
        cases.append({'kind': 'threads', 'seeds': [rng.getrandbits(40) for _ in range(5)],
                      'rounds': 200})
    obs = core.run_cases(ctx, 'c22', setup, cases, variant='asan', nproc=2, timeout=900)
    for c, o in zip(cases, obs):
        if core.std_obs_check(ctx, c, o, True, True):
            judge(ctx, setup, c, o)
    # TSan: deciding only at the errno slot
    tcases = [{'kind': 'threads', 'seeds': [rng.getrandbits(40) for _ in range(3)], 'rounds': 120}
              for _ in range(ctx.scale(4, 60))]
    tobs = core.run_cases(ctx, 'c22', setup, tcases, variant='tsan', nproc=2, timeout=900)
    slot = ('save_errno', 'restore_errno', 'b_get_errno', 'b_set_errno', 'cffi_saved_errno')
    for c, o in zip(tcases, tobs):
        if core.std_obs_check(ctx, c, o, True, False):
            judge(ctx, setup, c, o)
            ctx.count('tsan_runs', len(c['seeds']))
            if isinstance(o, dict) and o.get('_san'):
                for kind, frame, block in core.split_reports(o['_san']):
                    key = '%s@%s' % (kind, frame)
                    ctx.san_reports[key] = ctx.san_reports.get(key, 0) + 1
                    if 'data race' in kind and any(s in block for s in slot):
                        ctx.violation('tsan-race-on-errno-slot', block[:1500], c)


def child_setup(setup, wd):
    sys.path.insert(0, setup['dir'])
    import warnings
    warnings.simplefilter('ignore')
    import _thrmod
    from cffi import FFI
    affi = FFI()
    affi.cdef("int get_errno(void); void set_errno(int v); int add_touch(int a);")
    alib = affi.dlopen(_thrmod.__file__)
    sys.setswitchinterval(1e-6)
    return {'ffi': _thrmod.ffi, 'lib': _thrmod.lib, 'affi': affi, 'alib': alib}


def noise():
    """Python activity that changes the real errno"""
    try:
        open('/nonexistent/c22/%d' % random.randrange(10 ** 6))
    except OSError:
        pass
    try:
        os.stat('/nonexistent2')
    except OSError:
        pass
    [bytearray(1000) for _ in range(3)]


def single(st, case, rep):
    ffi, lib, affi, alib = st['ffi'], st['lib'], st['affi'], st['alib']
    path = case['path']
    cur = {}

    @ffi.def_extern(name='ep_errno')
    def _ep(x):
        ffi.errno = cur['v']
        return 0
    for v in case['vals']:
        rep.case((path, v), nontrivial=v != 0, sample={'path': path, 'value': v})
        w = (v * 7 + 3) % INT_MAX
        if path in ('api', 'ffi', 'abi', 'api_then_python_noise'):
            f_get = {'api': lib.get_errno, 'ffi': ffi.addressof(lib, 'get_errno'),
                     'abi': alib.get_errno, 'api_then_python_noise': lib.get_errno}[path]
            f_set = {'api': lib.set_errno, 'ffi': ffi.addressof(lib, 'set_errno'),
                     'abi': alib.set_errno, 'api_then_python_noise': lib.set_errno}[path]
            e = affi if path == 'abi' else ffi
            e.errno = v
            if path == 'api_then_python_noise':
                noise()
            got = f_get()
            if got != v:
                rep.bad('errno-not-passed-to-c:' + path, 'ffi.errno = %d, the C function saw %d'
                        % (v, got), [path, v])
            f_set(w)
            if path == 'api_then_python_noise':
                noise()
            if e.errno != w:
                rep.bad('errno-not-returned-from-c:' + path, 'C left errno = %d, ffi.errno is %d'
                        % (w, e.errno), [path, v])
            if path != 'abi' and affi.errno != ffi.errno:
                rep.bad('errno-views-differ', 'in-line ffi.errno %d != module ffi.errno %d' %
                        (affi.errno, ffi.errno), [path, v])
        elif path == 'callback':
            cb = ffi.callback('int(int)', lambda x: setattr(ffi, 'errno', v) or 0)
            ffi.errno = 5
            got = lib.call_cb_then_errno(cb, 1)
            if got != v:
                rep.bad('errno-set-in-callback-lost', 'ffi.errno = %d inside the callback, the C '
                        'caller read %d' % (v, got), [path, v])
            if ffi.errno != v:
                rep.bad('errno-not-returned-from-c:callback', 'after the call ffi.errno is %d, C '
                        'left %d' % (ffi.errno, v), [path, v])
        elif path == 'externpy':
            cur['v'] = v
            got = lib.call_ep_then_errno(1)
            if got != v:
                rep.bad('errno-set-in-extern-python-lost', 'ffi.errno = %d inside the extern '
                        '"Python" function, the C caller read %d' % (v, got), [path, v])
        elif path == 'globalfetch':
            ffi.errno = v
            x = lib.gvar
            if x != 1234:
                rep.bad('harness-global', 'gvar reads %r' % (x,), [path, v])
            # the address fetch runs C code that leaves errno == 77
            if ffi.errno != 77:
                rep.bad('errno-after-global-fetch', 'ffi.errno = %d before reading lib.gvar, %d '
                        'after (the fetch leaves 77)' % (v, ffi.errno), [path, v])
            rep.stat('globalfetch_saw_77' if ffi.errno == 77 else 'globalfetch_kept_value')
            r = lib.add_touch(v)
            if ffi.errno != v:
                rep.bad('errno-not-returned-from-c:api', 'add_touch(%d) left errno %d, ffi.errno '
                        'is %d' % (v, v, ffi.errno), [path, v])
        rep.stat('single_' + path)


def threads_run(st, seed, rounds, rep):
    ffi, lib = st['ffi'], st['lib']
    rnd = random.Random(seed)
    npy = rnd.choice([2, 3, 4])
    nforeign = rnd.choice([0, 1, 2, 3])
    log = []
    lock = threading.Lock()

    def ev(*a):
        with lock:
            log.append(a)
    bad = []

    def worker(t):
        r = random.Random(seed * 31 + t)
        use_ffi = r.random() < 0.5
        get = ffi.addressof(lib, 'get_errno') if use_ffi else lib.get_errno
        setf = ffi.addressof(lib, 'set_errno') if use_ffi else lib.set_errno
        for i in range(rounds):
            v = ((t + 1) << 20) | i
            ffi.errno = v
            ev(t, 'set', v)
            if r.random() < 0.5:
                time.sleep(0)
            got = get()
            ev(t, 'cget', got)
            if got != v:
                bad.append((t, 'c-saw', v, got))
            w = ((t + 1) << 20) | (i + 500000)
            setf(w)
            if r.random() < 0.5:
                time.sleep(0)
            if r.random() < 0.1:
                noise()
            got = ffi.errno
            ev(t, 'pyget', got)
            if got != w:
                bad.append((t, 'py-saw', w, got))

    @ffi.callback('int(int, int, int)')
    def thr_cb(wave, tid, idx):
        v = ((wave + 10) << 20) | (tid << 12) | idx
        ffi.errno = v
        ev(('f', wave, tid), 'set', v)
        time.sleep(0)
        if ffi.errno != v:
            bad.append((('f', wave, tid), 'py-saw-in-callback', v, ffi.errno))
        return v
    ths = [threading.Thread(target=worker, args=(t,)) for t in range(npy)]
    for th in ths:
        th.start()
    mism = 0
    if nforeign:
        nc = ffi.new('int[]', [rounds // 4] * nforeign)
        sl = ffi.new('int[]', [rnd.choice([0, 0, 10]) for _ in range(nforeign)])
        ex = ffi.new('int[]', [0] * nforeign)
        mism = lib.run_wave(1, nforeign, nc, sl, ex, thr_cb, 0)
    for th in ths:
        th.join(120)
    alive = [th for th in ths if th.is_alive()]
    sig = tuple((str(e[0]), e[1]) for e in log[:400])
    return npy, nforeign, log, bad, mism, alive, sig


def child_case(st, case):
    rep = core.ChildRep()
    if case['kind'] == 'single':
        single(st, case, rep)
        return rep.result()
    for seed in case['seeds']:
        npy, nf, log, bad, mism, alive, sig = threads_run(st, seed, case['rounds'], rep)
        # contended = events of different threads alternate
        switches = sum(1 for a, b in zip(log, log[1:]) if a[0] != b[0])
        rep.case(sig, nontrivial=switches > 10,
                 sample={'python_threads': npy, 'foreign_threads': nf, 'events': len(log),
                         'thread_switches_in_log': switches})
        rep.stat('thread_runs')
        rep.stat('events', len(log))
        rep.stat('thread_switches_in_log', switches)
        rep.stat('foreign_threads', nf)
        if alive:
            rep.bad('harness-watchdog', 'threads did not finish (inconclusive)', seed)
        for t, what, exp, got in bad[:5]:
            owner = got >> 20
            rep.bad('errno-of-another-thread-observed' if got >> 20 not in (0,) and
                    (got >> 20) != (exp >> 20) else 'errno-lost-in-thread',
                    'thread %r %s %d (expected its own %d; value belongs to id %d) | seed %d' %
                    (t, what, got, exp, owner, seed), seed)
        if mism:
            rep.bad('errno-set-in-callback-lost:foreign-thread', '%d foreign-thread callbacks: C '
                    'did not read the errno assigned inside the callback | seed %d' % (mism, seed),
                    seed)
    return rep.result()


def judge(ctx, setup, case, obs):
    def rp(detail):
        if case['kind'] == 'single':
            return {'kind': 'single', 'path': detail[0], 'vals': [detail[1]]}
        return {'kind': 'threads', 'seeds': [detail], 'rounds': case['rounds']}
    core.absorb(ctx, case, obs, rp)


def replay(ctx, data):
    setup = build(ctx)
    case = data['case']
    obs = core.run_cases(ctx, 'c22', setup, [case], variant='asan', nproc=1)
    print('observation:', str(obs[0])[:2000])
    if core.std_obs_check(ctx, case, obs[0], True, True):
        judge(ctx, setup, case, obs[0])
