"""C22 -- errno is passed to and from C calls and is thread-local.

Single-thread part: random values through every path (API call, libffi call,
in-line ABI call, callback, extern "Python", global-variable fetch), with
Python activity that changes the real errno in between.
Sequence part: random operation histories against a one-variable reference
model of the thread's errno (see RULE).
Schedule part: Python threads (and pthreads not created by Python) each write
errno values tagged with their identity; every observation is logged and a
thread may only ever observe its own most recent value.  Repeated on the TSan
build, deciding only at the errno save slot.
"""
import os, sys, time, threading, random, subprocess
from vlib import core, modbuild, thrmod, build as vbuild

RULE = ("case = (a) single-thread transfer: (path, value) over 0, +-1, INT_MIN/MAX, random ints "
        "in both directions (the value a C function leaves is 0 / negative / positive in turn), "
        "with interleaved Python activity that sets the real errno; (a') random operation "
        "histories judged against a one-variable model of the thread's errno: assignment through "
        "ffi.errno of a compiled FFI / of cffi.FFI() / _cffi_backend.set_errno, out-of-range "
        "assignments, repeated reads, C functions that read / write / read-modify-write errno "
        "called through two API modules, libffi (addressof), a variadic function, dlopen() and "
        "ffi.verify(), calls that fail in argument conversion, arguments whose conversion runs "
        "Python code that clobbers the real errno, global variables whose address fetch reads and "
        "modifies errno (read / write / addressof), ffi.callback and extern \"Python\" functions "
        "called from C with a C-side errno that differs from the saved one (or directly from "
        "Python), running nested operations (nesting <= 3) and optionally raising; values over "
        "0, real errno codes, INT_MIN/MAX, random ints; (b) one multi-thread run: 2-4 "
        "Python threads + 0-3 foreign pthreads, 200 rounds each of set/call/get, "
        "read-modify-write calls (API, libffi, dlopen), callbacks entered with a C-side errno, "
        "or global fetches, with values tagged "
        "(thread id << 20 | counter), 1 us switch interval and random yields between set, call "
        "and get; distinct = (path, value) resp. (operation, path, value) resp. interleaving "
        "signature of a run; non-trivial = value != 0")
ASSUMPTIONS = ["the C helper functions compiled by gcc read and write the real errno of the calling thread"]

PATHS = ['api', 'ffi', 'abi', 'callback', 'externpy', 'globalfetch', 'api_then_python_noise']
INT_MAX = 2 ** 31 - 1

# second helper module: read-modify-write functions, probes that enter a
# callback with a C-side errno of their own, a global whose address fetch is a
# function of the errno it finds, and a pthread driver doing the same
X_CDEF = r'''
int c22_get(void);
void c22_set(int v);
int c22_add(int k);
int c22_rmw(int k);
int c22_vrmw(int k, ...);
int c22_cb_probe(int (*cb)(int), int pre, int x, int post, int *after);
extern "Python" int c22_ep(int);
int c22_ep_probe(int pre, int x, int post, int *after);
int c22_gv;
int c22_plain;
int c22_wave(int n, int ncalls, int base, int (*cb)(int), int use_ep, int sleep_us);
'''
X_SOURCE = r'''
#include <errno.h>
#include <pthread.h>
#include <stdlib.h>
#include <unistd.h>
#include <stdarg.h>

int c22_get(void) { return errno; }
void c22_set(int v) { errno = v; }
/* return the errno found, leave a function of it */
int c22_add(int k) { int old = errno; errno = (int)((unsigned)old + (unsigned)k); return old; }
int c22_rmw(int k) { int old = errno; errno = (int)((unsigned)old * 3u + (unsigned)k); return old; }
int c22_vrmw(int k, ...) { int old = errno; errno = (int)((unsigned)old * 3u + (unsigned)k); return old; }
static int c22_ep(int);
/* enter the callback with errno == pre, report the errno it leaves, leave post */
int c22_cb_probe(int (*cb)(int), int pre, int x, int post, int *after)
{ int r; errno = pre; r = cb(x); *after = errno; errno = post; return r; }
int c22_ep_probe(int pre, int x, int post, int *after)
{ int r; errno = pre; r = c22_ep(x); *after = errno; errno = post; return r; }
static int c22_real_gv = 4321;
/* fetching the address of 'c22_gv' adds 7 to the errno it finds */
#define c22_gv (*(errno = (int)((unsigned)errno + 7u), &c22_real_gv))
int c22_plain = 99;

struct c22_thr { pthread_t th; int id, ncalls, base, use_ep, sleep_us, mism; int (*cb)(int); };
static void *c22_thr_main(void *a)
{
    struct c22_thr *t = (struct c22_thr *)a;
    int k;
    for (k = 0; k < t->ncalls; k++) {
        int pre = t->base | (t->id << 12) | k, r;
        errno = pre;                 /* the callback must find this in ffi.errno */
        r = t->use_ep ? c22_ep(pre) : t->cb(pre);
        if (errno != r)              /* ... and does 'ffi.errno = r' */
            t->mism++;
        if (t->sleep_us)
            usleep(t->sleep_us);
    }
    return NULL;
}
int c22_wave(int n, int ncalls, int base, int (*cb)(int), int use_ep, int sleep_us)
{
    struct c22_thr *ts = calloc(n, sizeof(struct c22_thr));
    int i, bad = 0;
    for (i = 0; i < n; i++) {
        ts[i].id = i; ts[i].ncalls = ncalls; ts[i].base = base; ts[i].cb = cb;
        ts[i].use_ep = use_ep; ts[i].sleep_us = sleep_us;
        if (pthread_create(&ts[i].th, NULL, c22_thr_main, &ts[i]) != 0) {
            bad += 100000; ts[i].ncalls = -1;
        }
    }
    for (i = 0; i < n; i++) {
        if (ts[i].ncalls >= 0)
            pthread_join(ts[i].th, NULL);
        bad += ts[i].mism;
    }
    free(ts);
    return bad;
}
'''

# the same kind of functions through ffi.verify() (its own code generator)
V_CDEF = "int v22_get(void); void v22_set(int v); int v22_add(int k);"
V_SOURCE = r'''
#include <errno.h>
int v22_get(void) { return errno; }
void v22_set(int v) { errno = v; }
int v22_add(int k) { int old = errno; errno = (int)((unsigned)old + (unsigned)k); return old; }
'''
V_NAME = '_c22_verify'
V_SCRIPT = r'''
import sys, warnings
warnings.simplefilter('ignore')
from cffi import FFI
from props import c22
ffi = FFI()
ffi.cdef(c22.V_CDEF)
lib = ffi.verify(c22.V_SOURCE, tmpdir=sys.argv[1], modulename=c22.V_NAME)
assert lib.v22_add(0) is not None
'''


def wrap32(x):
    return ((x + 2 ** 31) % 2 ** 32) - 2 ** 31


def build(ctx):
    d = os.path.join(ctx.tmp, 'mod')
    xspec = {'name': '_c22mod', 'kind': 'api', 'cdef': X_CDEF, 'source': X_SOURCE, 'dir': d,
             'kwds': {'libraries': ['pthread']}}
    res = modbuild.build_modules(ctx, [thrmod.spec(d), xspec])
    for name in ('_thrmod', '_c22mod'):
        if not res[name]['ok']:
            raise core.Inconclusive('helper module build failed: ' + res[name]['error'] +
                                    res[name].get('log', ''))
    vd = os.path.join(ctx.tmp, 'vmod')
    os.makedirs(vd, exist_ok=True)
    try:
        r = subprocess.run(vbuild.python_cmd('plain') + ['-c', V_SCRIPT, vd],
                           env=vbuild.child_env('plain'), cwd=vd, stdout=subprocess.PIPE,
                           stderr=subprocess.STDOUT, timeout=600)
    except subprocess.TimeoutExpired:
        raise core.Inconclusive('ffi.verify() helper build timed out')
    if r.returncode != 0:
        raise core.Inconclusive('ffi.verify() helper build failed: ' +
                                r.stdout.decode(errors='replace')[-2000:])
    return {'dir': d, 'vdir': vd}


def run(ctx):
    setup = build(ctx)
    rng = ctx.rng('gen')
    nv = ctx.scale(400, 20000)
    cases = []
    singles = []
    for p in PATHS:
        vals = [0, 1, -1, 2, INT_MAX, -INT_MAX - 1, 77, 11] + \
            [rng.randint(-INT_MAX - 1, INT_MAX) for _ in range(nv)]
        singles.append({'kind': 'single', 'path': p, 'vals': vals})
    nseq = ctx.scale(120, 6000)
    seqs = [{'kind': 'seq', 'seeds': [rng.getrandbits(40) for _ in range(20)], 'nops': 40}
            for i in range(0, nseq, 20)]
    nruns = ctx.scale(30, 1000)
    thr = [{'kind': 'threads', 'seeds': [rng.getrandbits(40) for _ in range(5)], 'rounds': 200}
           for i in range(0, nruns, 5)]
    # interleave so that the two children get a similar amount of work
    # (run_cases gives each of the two children one contiguous half)
    groups = [thr, singles, seqs]
    mixed = []
    while any(groups):
        for g in groups:
            if g:
                mixed.append(g.pop(0))
    cases = mixed[0::2] + mixed[1::2]
    obs = core.run_cases(ctx, 'c22', setup, cases, variant='asan', nproc=2, timeout=900)
    for c, o in zip(cases, obs):
        if core.std_obs_check(ctx, c, o, True, True):
            judge(ctx, setup, c, o)
    # TSan: deciding only at the errno slot
    tcases = [{'kind': 'threads', 'seeds': [rng.getrandbits(40) for _ in range(3)], 'rounds': 120}
              for _ in range(ctx.scale(4, 40))]
    tobs = core.run_cases(ctx, 'c22', setup, tcases, variant='tsan', nproc=2, timeout=900)
    slot = ('save_errno', 'restore_errno', 'b_get_errno', 'b_set_errno', 'cffi_saved_errno')
    for c, o in zip(tcases, tobs):
        if core.std_obs_check(ctx, c, o, True, False):
            judge(ctx, setup, c, o)
            ctx.count('tsan_runs', len(c['seeds']))
            if isinstance(o, dict) and o.get('_san'):
                for kind, frame, block in core.split_reports(o['_san']):
                    key = '%s@%s' % (kind, frame)
                    ctx.san_reports[key] = ctx.san_reports.get(key, 0) + 1
                    if 'data race' in kind and any(s in block for s in slot):
                        ctx.violation('tsan-race-on-errno-slot', block[:1500], c)


def child_setup(setup, wd):
    sys.path.insert(0, setup['dir'])
    import warnings
    warnings.simplefilter('ignore')
    import _thrmod, _c22mod, _cffi_backend
    from cffi import FFI
    affi = FFI()
    affi.cdef("int get_errno(void); void set_errno(int v); int add_touch(int a);")
    alib = affi.dlopen(_thrmod.__file__)
    affi.cdef("int c22_get(void); void c22_set(int v); int c22_add(int k); int c22_rmw(int k);"
              "int c22_vrmw(int k, ...);"
              "int c22_cb_probe(int (*cb)(int), int pre, int x, int post, int *after);")
    alibx = affi.dlopen(_c22mod.__file__)
    vffi = FFI()
    vffi.cdef(V_CDEF)
    vlib = vffi.verify(V_SOURCE, tmpdir=setup['vdir'], modulename=V_NAME)
    sys.setswitchinterval(1e-6)
    # extern "Python" c22_ep is attached once; what it runs is switched per history / run
    ep = {'f': None, 'onerror': None}

    def ep_onerror(exc, val, tb):
        if ep['onerror'] is not None:
            ep['onerror'](exc, val, tb)
    _c22mod.ffi.def_extern(name='c22_ep', error=-7, onerror=ep_onerror)(lambda x: ep['f'](x))
    return {'ep': ep, 'ffi': _thrmod.ffi, 'lib': _thrmod.lib, 'affi': affi, 'alib': alib,
            'xffi': _c22mod.ffi, 'xlib': _c22mod.lib, 'alibx': alibx, 'vffi': vffi, 'vlib': vlib,
            'backend': _cffi_backend}


def noise():
    """Python activity that changes the real errno"""
    try:
        open('/nonexistent/c22/%d' % random.randrange(10 ** 6))
    except OSError:
        pass
    try:
        os.stat('/nonexistent2')
    except OSError:
        pass
    [bytearray(1000) for _ in range(3)]


def single(st, case, rep):
    ffi, lib, affi, alib = st['ffi'], st['lib'], st['affi'], st['alib']
    path = case['path']
    cur = {}

    @ffi.def_extern(name='ep_errno')
    def _ep(x):
        ffi.errno = cur['v']
        return 0
    for v in case['vals']:
        rep.case((path, v), nontrivial=v != 0, sample={'path': path, 'value': v})
        # what the C function leaves: zero, negative and positive values in turn
        w = [(v * 7 + 3) % INT_MAX, 0, -((v * 5 + 1) % INT_MAX) - 1][v % 3]
        if w == v:
            w = 3 if v != 3 else 4
        rep.stat('c_leaves_' + ('zero' if w == 0 else 'negative' if w < 0 else 'positive'))
        if path in ('api', 'ffi', 'abi', 'api_then_python_noise'):
            f_get = {'api': lib.get_errno, 'ffi': ffi.addressof(lib, 'get_errno'),
                     'abi': alib.get_errno, 'api_then_python_noise': lib.get_errno}[path]
            f_set = {'api': lib.set_errno, 'ffi': ffi.addressof(lib, 'set_errno'),
                     'abi': alib.set_errno, 'api_then_python_noise': lib.set_errno}[path]
            e = affi if path == 'abi' else ffi
            e.errno = v
            if path == 'api_then_python_noise':
                noise()
            got = f_get()
            if got != v:
                rep.bad('errno-not-passed-to-c:' + path, 'ffi.errno = %d, the C function saw %d'
                        % (v, got), [path, v])
            f_set(w)
            if path == 'api_then_python_noise':
                noise()
            if e.errno != w:
                rep.bad('errno-not-returned-from-c:' + path, 'C left errno = %d, ffi.errno is %d'
                        % (w, e.errno), [path, v])
            if path != 'abi' and affi.errno != ffi.errno:
                rep.bad('errno-views-differ', 'in-line ffi.errno %d != module ffi.errno %d' %
                        (affi.errno, ffi.errno), [path, v])
        elif path == 'callback':
            cb = ffi.callback('int(int)', lambda x: setattr(ffi, 'errno', v) or 0)
            ffi.errno = 5
            got = lib.call_cb_then_errno(cb, 1)
            if got != v:
                rep.bad('errno-set-in-callback-lost', 'ffi.errno = %d inside the callback, the C '
                        'caller read %d' % (v, got), [path, v])
            if ffi.errno != v:
                rep.bad('errno-not-returned-from-c:callback', 'after the call ffi.errno is %d, C '
                        'left %d' % (ffi.errno, v), [path, v])
        elif path == 'externpy':
            cur['v'] = v
            got = lib.call_ep_then_errno(1)
            if got != v:
                rep.bad('errno-set-in-extern-python-lost', 'ffi.errno = %d inside the extern '
                        '"Python" function, the C caller read %d' % (v, got), [path, v])
        elif path == 'globalfetch':
            ffi.errno = v
            x = lib.gvar
            if x != 1234:
                rep.bad('harness-global', 'gvar reads %r' % (x,), [path, v])
            # the address fetch runs C code that leaves errno == 77
            if ffi.errno != 77:
                rep.bad('errno-after-global-fetch', 'ffi.errno = %d before reading lib.gvar, %d '
                        'after (the fetch leaves 77)' % (v, ffi.errno), [path, v])
            rep.stat('globalfetch_saw_77' if ffi.errno == 77 else 'globalfetch_kept_value')
            r = lib.add_touch(v)
            if ffi.errno != v:
                rep.bad('errno-not-returned-from-c:api', 'add_touch(%d) left errno %d, ffi.errno '
                        'is %d' % (v, v, ffi.errno), [path, v])
        rep.stat('single_' + path)


# ---------------------------------------------------------------------------
# random operation histories against a model of the thread's errno

class _Harness(Exception):
    pass


class NoisyInt(object):
    """an argument whose conversion to a C int runs Python code that clobbers
    the real errno"""
    def __init__(self, v):
        self.v = v

    def __int__(self):
        noise()
        return self.v
    __index__ = __int__


class _CbError(Exception):
    pass


class Seq(object):
    """Model: self.m is the errno of this thread as cffi keeps it: what
    ffi.errno reads and what the next C function finds; a C function leaves
    its errno there; inside a callback it is the errno of the C caller."""
    MAXDEPTH = 3

    def __init__(self, st, seed, rep):
        self.st, self.seed, self.rep = st, seed, rep
        self.r = random.Random(seed)
        self.m = None
        self.trace = []
        self.pending = []
        ffi, xffi = st['ffi'], st['xffi']
        lib, xlib, alib, alibx, vlib = st['lib'], st['xlib'], st['alib'], st['alibx'], st['vlib']
        self.setters = {
            'compiled-ffi': lambda v: setattr(xffi, 'errno', v),
            'compiled-ffi-2': lambda v: setattr(ffi, 'errno', v),
            'cffi.FFI()': lambda v: setattr(st['affi'], 'errno', v),
            'verify-ffi': lambda v: setattr(st['vffi'], 'errno', v),
            'backend': st['backend'].set_errno,
        }
        self.getters = {
            'compiled-ffi': lambda: xffi.errno,
            'compiled-ffi-2': lambda: ffi.errno,
            'cffi.FFI()': lambda: st['affi'].errno,
            'verify-ffi': lambda: st['vffi'].errno,
            'backend': st['backend'].get_errno,
        }
        # path -> function.  get: returns errno; set(v): leaves v;
        # add(k): returns errno, leaves errno + k; rmw(k): returns errno, leaves 3 * errno + k
        self.cget = {'api': xlib.c22_get, 'api2': lib.get_errno,
                     'ffi': xffi.addressof(xlib, 'c22_get'), 'abi': alibx.c22_get,
                     'abi2': alib.get_errno, 'verify': vlib.v22_get}
        self.cset = {'api': xlib.c22_set, 'api2': lib.set_errno,
                     'ffi': xffi.addressof(xlib, 'c22_set'), 'abi': alibx.c22_set,
                     'abi2': alib.set_errno, 'verify': vlib.v22_set}
        self.cadd = {'api': xlib.c22_add, 'ffi': xffi.addressof(xlib, 'c22_add'),
                     'abi': alibx.c22_add, 'verify': vlib.v22_add}
        self.crmw = {'api': xlib.c22_rmw, 'ffi': xffi.addressof(xlib, 'c22_rmw'),
                     'abi': alibx.c22_rmw,
                     'variadic': lambda k: xlib.c22_vrmw(k, xffi.cast('int', 1)),
                     'variadic-abi': lambda k: alibx.c22_vrmw(k, xffi.cast('int', 1), xffi.NULL)}
        self.cb = xffi.callback('int(int)', self._cb_body, error=-7, onerror=self._onerror)
        st['ep']['f'], st['ep']['onerror'] = self._cb_body, self._onerror
        self.probes = {
            'callback:api': lambda pre, x, post, after: xlib.c22_cb_probe(self.cb, pre, x, post, after),
            'callback:ffi': lambda pre, x, post, after:
                xffi.addressof(xlib, 'c22_cb_probe')(self.cb, pre, x, post, after),
            'callback:abi': lambda pre, x, post, after: alibx.c22_cb_probe(self.cb, pre, x, post, after),
            'externpy:api': xlib.c22_ep_probe,
            'externpy:ffi': xffi.addressof(xlib, 'c22_ep_probe'),
        }
        # the same C probe entered through ctypes.PyDLL: the C code, and so the callback, runs
        # with the GIL held and this thread's state current
        if st.get('pydll_probe') is None:
            import ctypes
            fn = ctypes.PyDLL(sys.modules['_c22mod'].__file__).c22_cb_probe
            fn.argtypes = [ctypes.c_void_p, ctypes.c_int, ctypes.c_int, ctypes.c_int, ctypes.c_void_p]
            fn.restype = ctypes.c_int
            st['pydll_probe'] = fn
        pyfn = st['pydll_probe']
        self.probes['callback:pydll-gil-held'] = lambda pre, x, post, after: pyfn(
            int(xffi.cast('intptr_t', self.cb)), pre, x, post, int(xffi.cast('intptr_t', after)))
        self.directs = {'callback': self.cb, 'externpy': xlib.c22_ep,
                        'externpy-addressof': xffi.addressof(xlib, 'c22_ep')}

    # -- helpers
    def val(self):
        r = self.r
        c = r.random()
        if c < 0.15:
            return 0
        if c < 0.27:
            return r.choice([1, -1, 2, INT_MAX, -INT_MAX - 1, INT_MAX - 1, -INT_MAX])
        if c < 0.55:
            return r.randint(1, 133)
        return r.randint(-INT_MAX - 1, INT_MAX)

    def note(self, op, path, value=None):
        self.trace.append('%s[%s]%s' % (op, path, '' if value is None else '=%d' % value))
        self.rep.case((op, path, value, self.m), nontrivial=bool(value or self.m),
                      sample={'op': op, 'path': path, 'value': value})
        self.rep.stat('seq_' + op + ':' + path)

    def bad(self, mech, msg):
        self.rep.bad(mech, '%s | history: %s | seed %d' % (msg, ' '.join(self.trace[-12:]),
                                                           self.seed), self.seed)

    def _onerror(self, exc, val, tb):
        if exc is not _CbError:
            self.rep.bad('harness-callback-exception', 'callback raised %r %r' % (exc, val), self.seed)

    def verify(self, mech, path):
        """read ffi.errno through a random entry point and compare with the model"""
        name = self.r.choice(sorted(self.getters))
        got = self.getters[name]()
        if got != self.m:
            self.bad(mech + ':' + path, 'expected errno %d, %s reads %d' % (self.m, name, got))
            self.m = got

    def maybe_verify(self, mech, path):
        if self.r.random() < 0.7:
            self.verify(mech, path)

    def saw(self, path, got):
        """a C function reported the errno it found"""
        if got != self.m:
            self.bad('errno-not-passed-to-c:' + path, 'errno is %d, the C function saw %d'
                     % (self.m, got))
            self.m = got

    # -- operations
    def op_set(self):
        name = self.r.choice(sorted(self.setters))
        v = self.val()
        self.note('set', name, v)
        self.setters[name](v)
        self.m = v

    def op_set_out_of_range(self):
        name = self.r.choice(sorted(self.setters))
        x = self.r.choice([2 ** 31, -2 ** 31 - 1, 2 ** 32 + self.r.randint(0, 200),
                           2 ** 32 * self.r.randint(1, 1000) + self.r.randint(-200, 200),
                           -2 ** 32 + self.r.randint(0, 200), 2 ** 63, -2 ** 63 - 1,
                           2 ** 64 + self.r.randint(0, 200)])
        self.note('set_out_of_range', name)
        try:
            self.setters[name](x)
        except Exception:
            return                      # nothing was assigned: the model is unchanged
        # accepted: then this must be the errno a C function sees, which no int can be
        got = self.cget['api']()
        if got != x:
            self.bad('errno-out-of-range-value-accepted', 'ffi.errno = %d was accepted, the C '
                     'function then saw %d' % (x, got))
            self.m = got

    def op_get(self):
        for _ in range(self.r.choice([1, 2, 3])):
            name = self.r.choice(sorted(self.getters))
            self.note('get', name)
            got = self.getters[name]()
            if got != self.m:
                self.bad('errno-read-differs', 'expected errno %d, %s reads %d' % (self.m, name, got))
                self.m = got

    def op_cget(self):
        path = self.r.choice(sorted(self.cget))
        self.note('cget', path)
        self.saw(path, self.cget[path]())
        self.maybe_verify('errno-not-returned-from-c', path)

    def op_cset(self):
        path = self.r.choice(sorted(self.cset))
        w = self.val()
        self.note('cset', path, w)
        self.cset[path](w)
        self.m = w
        self.maybe_verify('errno-not-returned-from-c', path)

    def op_cadd(self, table=None, opname='cadd', f=lambda m, k: m + k):
        table = table or self.cadd
        path = self.r.choice(sorted(table))
        k = self.r.choice([0, 1, -1, self.r.randint(-1000, 1000)])
        self.note(opname, path, k)
        self.saw(path, table[path](k))
        self.m = wrap32(f(self.m, k))
        self.maybe_verify('errno-not-returned-from-c', path)

    def op_crmw(self):
        self.op_cadd(self.crmw, 'crmw', lambda m, k: m * 3 + k)

    def op_noise(self):
        self.note('noise', 'python')
        noise()

    def op_failcall(self):
        path = self.r.choice(['api', 'ffi', 'abi', 'verify'])
        arg = self.r.choice([('x',), (), (2 ** 40,), (1.5,), (None,), (1, 2)])
        self.note('failcall', path)
        try:
            self.cadd[path](*arg)
        except (TypeError, OverflowError):
            pass
        else:
            raise _Harness('call with arguments %r did not fail' % (arg,))
        self.maybe_verify('errno-changed-by-failed-call', path)

    def op_argnoise(self):
        path = self.r.choice(['api', 'ffi', 'abi', 'verify'])
        k = self.r.randint(-1000, 1000)
        self.note('argnoise', path, k)
        self.saw(path + ':converting-arguments-runs-python', self.cadd[path](NoisyInt(k)))
        self.m = wrap32(self.m + k)
        self.maybe_verify('errno-not-returned-from-c', path)

    def op_gfetch(self):
        st = self.st
        var = self.r.choice(['gvar', 'c22_gv', 'c22_plain'])
        mode = self.r.choice(['read', 'write', 'addressof'])
        f, l, real = {'gvar': (st['ffi'], st['lib'], 1234), 'c22_gv': (st['xffi'], st['xlib'], 4321),
                      'c22_plain': (st['xffi'], st['xlib'], 99)}[var]
        self.note('gfetch', var + ':' + mode)
        if mode == 'read':
            x = getattr(l, var)
        elif mode == 'write':
            setattr(l, var, real)
            x = real
        else:
            x = f.addressof(l, var)[0]
        if x != real:
            raise _Harness('%s reads %r' % (var, x))
        # what the accessor leaves: 77 / the errno it found + 7 / the errno it found
        self.m = {'gvar': 77, 'c22_gv': wrap32(self.m + 7), 'c22_plain': self.m}[var]
        self.verify('errno-after-global-fetch', var)

    def _cb_body(self, x):
        # x: index into self.pending
        try:
            ent = self.pending[x]
            depth, pre, raises, kind = ent['depth'], ent['pre'], ent['raises'], ent['kind']
            if pre is not None:
                self.m = pre            # the errno the C caller had
            self.verify('errno-of-c-caller-not-seen-in-callback', kind)
            for _ in range(ent['ninner']):
                self.step(depth + 1)
            ent['left'] = self.m
        except _Harness as e:
            self.rep.bad('harness-seq', 'in callback: %s' % (e,), self.seed)
            return 0
        if raises:
            raise _CbError
        return x + 1000

    def op_callback(self, depth):
        if depth >= self.MAXDEPTH:
            return self.op_cget()
        st = self.st
        direct = self.r.random() < 0.3
        raises = self.r.random() < 0.2
        ninner = self.r.choice([0, 1, 1, 2, 3, 5])
        x = len(self.pending)
        if direct:
            kind = self.r.choice(sorted(self.directs))
            self.note('callback-direct', kind)
            self.pending.append({'depth': depth, 'pre': None, 'raises': raises, 'ninner': ninner,
                                 'kind': kind})
            res = self.directs[kind](x)
            left = self.pending[x].get('left')
            if left is None:
                raise _Harness('callback not run')
            self.m = left               # nothing in C touched errno after the callback
            path = kind
        else:
            kind = self.r.choice(sorted(self.probes))
            pre, post = self.val(), self.val()
            self.note('callback-probe', kind, pre)
            self.pending.append({'depth': depth, 'pre': pre, 'raises': raises, 'ninner': ninner,
                                 'kind': kind})
            after = st['xffi'].new('int *', 123456789)
            res = self.probes[kind](pre, x, post, after)
            left = self.pending[x].get('left')
            if left is None:
                raise _Harness('callback not run')
            if after[0] != left:
                self.bad('errno-set-in-callback-lost:' + kind.split(':')[0],
                         'errno was %d at the end of the callback, the C caller read %d'
                         % (left, after[0]))
            # (a call made by ctypes does not go through cffi's errno save: what cffi keeps is
            # what the callback's own bracket left)
            self.m = left if kind == 'callback:pydll-gil-held' else post
            path = kind
        if res != (-7 if raises else x + 1000):
            raise _Harness('callback result %r' % (res,))
        self.rep.stat('seq_callback_depth_%d' % (depth + 1))
        if raises:
            self.rep.stat('seq_callback_raises')
        self.maybe_verify('errno-not-returned-from-c', path)

    OPS = [('set', 14), ('set_out_of_range', 3), ('get', 10), ('cget', 12), ('cset', 12),
           ('cadd', 8), ('crmw', 8), ('noise', 6), ('failcall', 4), ('argnoise', 4),
           ('gfetch', 9), ('callback', 10)]

    def step(self, depth):
        if self.m is None:
            return self.op_set()
        tot = sum(w for _, w in self.OPS)
        c = self.r.random() * tot
        for name, w in self.OPS:
            c -= w
            if c < 0:
                break
        if name == 'callback':
            return self.op_callback(depth)
        return getattr(self, 'op_' + name)()

    def run(self, nops):
        try:
            for _ in range(nops):
                self.step(0)
            self.verify('errno-read-differs', 'end')
        except _Harness as e:
            self.rep.bad('harness-seq', '%s | history: %s | seed %d' %
                         (e, ' '.join(self.trace[-12:]), self.seed), self.seed)


# ---------------------------------------------------------------------------

def threads_run(st, seed, rounds, rep):
    ffi, lib = st['ffi'], st['lib']
    xffi, xlib, alibx = st['xffi'], st['xlib'], st['alibx']
    rnd = random.Random(seed)
    npy = rnd.choice([2, 3, 4])
    nforeign = rnd.choice([0, 1, 2, 3])
    log = []
    lock = threading.Lock()
    kinds = {}
    kinds_of = {}

    def ev(*a):
        with lock:
            log.append(a)
    bad = []
    MAIN = 8 << 20
    ffi.errno = MAIN | 1

    # entered from C with errno == x (tagged by the calling thread); leaves x ^ 0x80000
    def probe_body(x):
        try:
            who = ('cb', (x >> 20) - 1)
            got = xffi.errno
            ev(who, 'pyget-in-callback', got)
            if got != x:
                bad.append((who, 'py-saw-in-callback', x, got))
            if x & 1:
                time.sleep(0)
            got = xlib.c22_add(1)          # nested C call inside the callback
            if got != x:
                bad.append((who, 'c-saw-in-callback', x, got))
            got = xffi.errno
            if got != x + 1:
                bad.append((who, 'py-saw-in-callback', x + 1, got))
            xffi.errno = x ^ 0x80000
            ev(who, 'set', x ^ 0x80000)
            if x & 2:
                time.sleep(0)
        except Exception as e:
            bad.append((('cb', 0), 'harness', 0, repr(e)))
        return x ^ 0x80000
    probe_cb = xffi.callback('int(int)', probe_body)
    st['ep']['f'], st['ep']['onerror'] = probe_body, None

    def worker(t):
        r = random.Random(seed * 31 + t)
        mykinds = kinds_of[t] = {}
        first = ffi.errno
        ev(t, 'first-pyget', first)
        if first >> 20:
            bad.append((t, 'py-saw-in-fresh-thread', 0, first))
        use_ffi = r.random() < 0.5
        get = ffi.addressof(lib, 'get_errno') if use_ffi else lib.get_errno
        setf = ffi.addressof(lib, 'set_errno') if use_ffi else lib.set_errno
        adders = [xlib.c22_add, xffi.addressof(xlib, 'c22_add'), alibx.c22_add]
        after = xffi.new('int *')
        for i in range(rounds):
            v = ((t + 1) << 20) | i
            w = ((t + 1) << 20) | (i + 500000)
            kind = r.choice(['getset', 'getset', 'add', 'probe', 'gfetch'])
            mykinds[kind] = mykinds.get(kind, 0) + 1
            ffi.errno = v
            ev(t, 'set', v)
            if r.random() < 0.5:
                time.sleep(0)
            if kind == 'getset':
                got = get()
                ev(t, 'cget', got)
                if got != v:
                    bad.append((t, 'c-saw', v, got))
                setf(w)
            elif kind == 'add':
                got = r.choice(adders)(500000)
                ev(t, 'cget', got)
                if got != v:
                    bad.append((t, 'c-saw', v, got))
            elif kind == 'probe':
                # the callback is entered with errno == v + 1000 and must leave (v + 1000) ^ 0x80000
                pre = v + 1000
                after[0] = 0
                if r.random() < 0.5:
                    xlib.c22_cb_probe(probe_cb, pre, pre, w, after)
                else:
                    xlib.c22_ep_probe(pre, pre, w, after)
                ev(t, 'cget-after-callback', after[0])
                if after[0] != pre ^ 0x80000:
                    bad.append((t, 'c-saw-after-callback', pre ^ 0x80000, after[0]))
            else:
                # the address fetch adds 7 to the errno it finds
                x = xlib.c22_gv
                got = ffi.errno
                ev(t, 'pyget', got)
                if got != v + 7:
                    bad.append((t, 'py-saw-after-global-fetch', v + 7, got))
                setf(w)
            if r.random() < 0.5:
                time.sleep(0)
            if r.random() < 0.1:
                noise()
            got = ffi.errno
            ev(t, 'pyget', got)
            if got != w:
                bad.append((t, 'py-saw', w, got))

    @ffi.callback('int(int, int, int)')
    def thr_cb(wave, tid, idx):
        v = ((wave + 10) << 20) | (tid << 12) | idx
        ffi.errno = v
        ev(('f', wave, tid), 'set', v)
        time.sleep(0)
        if ffi.errno != v:
            bad.append((('f', wave, tid), 'py-saw-in-callback', v, ffi.errno))
        return v
    ths = [threading.Thread(target=worker, args=(t,)) for t in range(npy)]
    for th in ths:
        th.start()
    mism = mismx = 0
    if nforeign:
        if rnd.random() < 0.5:
            nc = ffi.new('int[]', [rounds // 4] * nforeign)
            sl = ffi.new('int[]', [rnd.choice([0, 0, 10]) for _ in range(nforeign)])
            ex = ffi.new('int[]', [0] * nforeign)
            mism = lib.run_wave(1, nforeign, nc, sl, ex, thr_cb, 0)
            kinds['foreign_wave_set_in_callback'] = kinds.get('foreign_wave_set_in_callback', 0) + 1
        else:
            # foreign threads enter the callback with an errno of their own
            mismx = xlib.c22_wave(nforeign, rounds // 4, 13 << 20, probe_cb, rnd.choice([0, 1]),
                                  rnd.choice([0, 0, 10]))
            kinds['foreign_wave_errno_into_callback'] = \
                kinds.get('foreign_wave_errno_into_callback', 0) + 1
    for th in ths:
        th.join(120)
    alive = [th for th in ths if th.is_alive()]
    for d in list(kinds_of.values()):
        for k, n in d.items():
            kinds[k] = kinds.get(k, 0) + n
    got = ffi.errno
    if got != MAIN | 1 and not nforeign:
        bad.append(('main', 'py-saw', MAIN | 1, got))
    sig = tuple((str(e[0]), e[1]) for e in log[:400])
    return npy, nforeign, log, bad, (mism, mismx), alive, sig, kinds


def child_case(st, case):
    rep = core.ChildRep()
    if case['kind'] == 'single':
        single(st, case, rep)
        return rep.result()
    if case['kind'] == 'seq':
        for seed in case['seeds']:
            Seq(st, seed, rep).run(case['nops'])
            rep.stat('seq_histories')
        return rep.result()
    for seed in case['seeds']:
        npy, nf, log, bad, (mism, mismx), alive, sig, kinds = \
            threads_run(st, seed, case['rounds'], rep)
        # contended = events of different threads alternate
        switches = sum(1 for a, b in zip(log, log[1:]) if a[0] != b[0])
        rep.case(sig, nontrivial=switches > 10,
                 sample={'python_threads': npy, 'foreign_threads': nf, 'events': len(log),
                         'thread_switches_in_log': switches})
        rep.stat('thread_runs')
        rep.stat('events', len(log))
        rep.stat('thread_switches_in_log', switches)
        rep.stat('foreign_threads', nf)
        for k, n in kinds.items():
            rep.stat('thread_rounds_' + k, n)
        if alive:
            rep.bad('harness-watchdog', 'threads did not finish (inconclusive)', seed)
        for t, what, exp, got in bad[:5]:
            if what == 'harness':
                rep.bad('harness-thread-callback', 'exception in callback: %s' % (got,), seed)
                continue
            owner = got >> 20
            rep.bad('errno-of-another-thread-observed' if got >> 20 not in (0,) and
                    (got >> 20) != (exp >> 20) else 'errno-lost-in-thread',
                    'thread %r %s %d (expected its own %d; value belongs to id %d) | seed %d' %
                    (t, what, got, exp, owner, seed), seed)
        if mism:
            rep.bad('errno-set-in-callback-lost:foreign-thread', '%d foreign-thread callbacks: C '
                    'did not read the errno assigned inside the callback | seed %d' % (mism, seed),
                    seed)
        if mismx:
            rep.bad('errno-set-in-callback-lost:foreign-thread', '%d foreign-thread callbacks '
                    'entered with an errno of the C caller: C did not read the errno assigned '
                    'inside the callback | seed %d' % (mismx, seed), seed)
    return rep.result()


def judge(ctx, setup, case, obs):
    def rp(detail):
        if case['kind'] == 'single':
            return {'kind': 'single', 'path': detail[0], 'vals': [detail[1]]}
        if case['kind'] == 'seq':
            return {'kind': 'seq', 'seeds': [detail], 'nops': case['nops']}
        return {'kind': 'threads', 'seeds': [detail], 'rounds': case['rounds']}
    core.absorb(ctx, case, obs, rp)


def replay(ctx, data):
    setup = build(ctx)
    case = data['case']
    obs = core.run_cases(ctx, 'c22', setup, [case], variant='asan', nproc=1)
    print('observation:', str(obs[0])[:2000])
    if core.std_obs_check(ctx, case, obs[0], True, True):
        judge(ctx, setup, case, obs[0])
