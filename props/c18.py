"""C18 -- ffi.unpack equals element-wise reading.

Differential: ffi.unpack(p, n) against [p[i] for i in range(n)] (joined for
character types) on random and boundary memory contents, misalignment 0..15,
n up to the end of the allocation (so ASan decides over-reads), over pointer
and array cdata obtained in every way cffi offers (cast, cast to array window,
owning ffi.new arrays / pointers, pointer arithmetic, from_buffer arrays /
pointers, array fields of packed and natural structs, addressof), with
n < len(array) as well as n == len(array), through every unpack entry point.
"""
import sys, os, struct
from vlib import gen, core

MEMCHECK_SAMPLE = 6
RULE = ("case = (item type, memory contents (random bytes mixed with boundary patterns), creation "
        "mode of the pointer/array cdata, misalignment 0..15, n); item types: every integer type "
        "(all unpack fast paths), _Bool (bytes >= 2 included), char, wchar_t, char16_t, char32_t, "
        "float, double, long double, complex, pointers (data, function, pointer-to-pointer), "
        "enums (32 and 64 bit), structs (incl. nested), unions, arrays, zero-size items; creation "
        "modes: cast pointer, cast array window, owning new T[] / T[L] / T*, pointer arithmetic, "
        "from_buffer T[] / T[L] / T*, array field of packed / natural struct, addressof; arrays are "
        "unpacked with n == len and n < len; the last element of pointer cases ends exactly at the "
        "end of the allocation; exceptions are compared by type and message; a quarter of the "
        "cases repeat the unpack through another entry point (keywords, backend function, "
        "C-level FFI object, index-like length); distinct = (type, contents, mode, misalignment, "
        "n); non-trivial = n >= 2")
ASSUMPTIONS = ["cdata elements (structs, pointers, arrays, long double) are compared by type and "
               "address / value bytes",
               "an array cdata is only unpacked with n <= len(array): element-wise reading is "
               "bounds-checked there, unpack is documented not to be",
               "void / opaque item types and NULL pointers are outside the class (no element can "
               "be read)"]

ITEM_TYPES = [t[0] for t in gen.INT_TYPES[:18]] + \
    ['size_t', 'ptrdiff_t',
     '_Bool', 'char', 'wchar_t', 'char16_t', 'char32_t', 'float', 'double', 'long double',
     'float _Complex', 'double _Complex', 'void *', 'int *', 'int(*)(int)', 'enum e8', 'enum eu',
     'struct s3', 'struct s8', 'int[3]', 'char[5]', 'short[2][2]',
     'enum el', 'union u6', 'struct nest', 'int **', 'struct s3 *', 'char *', 'mybool',
     'int[0]', 'char[2][0]']
CDEF = """
enum e8 { E8A = -1, E8B = 1 }; enum eu { EUA = 0, EUB = 4000000000 };
enum el { ELA = -1, ELB = 0x100000000 };
struct s3 { char a, b, c; }; struct s8 { int x; float y; };
union u6 { int a; char b[6]; };
struct nest { struct { char c; short s; } in[2]; char t; };
typedef _Bool mybool;
"""
BOOL_TYPES = ('_Bool', 'mybool')
WIDE_TYPES = ('wchar_t', 'char16_t', 'char32_t')
FIELDS = [('pk', 'a', 9), ('pk', 'b', 5), ('np', 'a', 9)]
MODES = ['cast'] * 7 + ['castarr'] * 4 + ['new_arr'] * 3 + ['new_ptr'] + ['frombuf_arr'] * 2 + \
    ['frombuf_ptr'] + ['field'] * 3
ENTRIES = ['kw', 'backend', 'cffi1', 'index']


class _Index(object):
    def __init__(self, n):
        self.n = n

    def __index__(self):
        return self.n


def generate(ctx):
    rng = ctx.rng('gen')
    per = ctx.scale(380, 8000)
    lens = [0, 1, 2, 3, 5, 9, 17, 40]
    cases = []
    for T in ITEM_TYPES:
        items = []
        for _ in range(per):
            mis = rng.randrange(8) if rng.random() < 0.8 else rng.randrange(8, 16)
            n = rng.choice(lens)
            if rng.random() < 0.01:
                n = rng.choice([64, 257])
            items.append([rng.getrandbits(40), mis, n, rng.choice(MODES)])
        cases.append({'T': T, 'items': items})
    return None, cases


def child_setup(setup, wd):
    from cffi import FFI
    import _cffi_backend
    ffi = FFI()
    ffi.cdef(CDEF)
    # array fields: one packed and one naturally aligned struct per item type
    src_t, src_p, src_n = '', '', ''
    fidx = {}
    for i, T in enumerate(ITEM_TYPES):
        fidx[T] = i
        src_t += 'typedef %s;\n' % ffi.getctype(T, 'item%d' % i)
        src_p += 'struct pk%d { char c; item%d a[9]; char d; item%d b[5]; };\n' % (i, i, i)
        src_n += 'struct np%d { char c; item%d a[9]; };\n' % (i, i)
    ffi.cdef(src_t)
    ffi.cdef(src_p, packed=True)
    ffi.cdef(src_n)
    return {'ffi': ffi, 'fidx': fidx, 'cffi1': _cffi_backend.FFI()}


def norm(ffi, x):
    """normalise an element for comparison"""
    if isinstance(x, ffi.CData):
        t = ffi.typeof(x)
        if t.kind in ('struct', 'union', 'array'):
            return ('cdata', t.cname, int(ffi.cast('uintptr_t', ffi.addressof(x) if t.kind != 'array' else x)))
        if t.kind in ('pointer', 'function'):
            return ('cdata', t.cname, int(ffi.cast('uintptr_t', x)))
        if t.cname == 'long double':
            q = ffi.new('long double *', x)
            return ('cdata', t.cname, bytes(ffi.buffer(q)[0:10]))
        return ('cdata', t.cname, repr(x))
    if isinstance(x, float):
        return ('float', struct.pack('<d', x))
    if isinstance(x, complex):
        return ('complex', struct.pack('<dd', x.real, x.imag))
    return (type(x).__name__, x)


_F4 = [struct.pack('<f', v) for v in (float('inf'), float('-inf'), float('nan'), -0.0, 1e-45, 1.5)] + \
    [b'\x01\x00\x80\x7f', b'\x00\x00\x80\x00']
_F8 = [struct.pack('<d', v) for v in (float('inf'), float('-inf'), float('nan'), -0.0, 5e-324, 1.5)] + \
    [b'\x01\x00\x00\x00\x00\x00\xf0\x7f'] + \
    [struct.pack('<Q', v) for v in (2 ** 31, 2 ** 31 - 1, 2 ** 32 - 1, 2 ** 32, 2 ** 63 - 2 ** 31,
                                    2 ** 64 - 2 ** 31, 2 ** 64 - 2 ** 31 - 1)]


def special(rnd, size):
    """one element of boundary content: all-zero, all-ones, MIN, MAX, small magnitudes, float
    infinities / NaN / signed zero / denormals, 32-bit boundaries inside 64-bit items"""
    k = rnd.randrange(8)
    if k == 0:
        return bytes(size)
    if k == 1:
        return b'\xff' * size
    if k == 2:
        return bytes(size - 1) + b'\x80'
    if k == 3:
        return b'\xff' * (size - 1) + b'\x7f'
    if k == 4:
        return bytes([rnd.choice([1, 2, 127, 128, 255])]) + bytes(size - 1)
    if k == 5:
        return bytes([rnd.choice([0xfe, 0x80, 0x7f])]) + b'\xff' * (size - 1)
    if size == 4:
        return rnd.choice(_F4)
    if size == 8:
        return rnd.choice(_F8)
    if size == 16:
        return rnd.choice(_F8) + rnd.choice(_F8)
    return rnd.getrandbits(8 * size).to_bytes(size, 'little')


def gen_elems(rnd, T, size, count):
    """memory contents of `count` consecutive items"""
    if size == 0 or count == 0:
        return b''
    if T in BOOL_TYPES:
        return bytes(rnd.choice([0, 1, 0, 1, 0, 1, 2, 255, 128, rnd.randrange(256)])
                     for _ in range(count))
    if T in WIDE_TYPES:
        units = []
        for _ in range(count):
            r = rnd.random()
            if r < 0.55:
                u = rnd.choice([rnd.randrange(1, 128), rnd.randrange(0x80, 0xD800),
                                rnd.randrange(0xE000, 0x10000), 0])
            elif r < 0.75:
                u = rnd.choice([0xD800, 0xDBFF, 0xDC00, 0xDFFF, rnd.randrange(0xD800, 0xE000)])
            elif r < 0.9:
                u = rnd.randrange(0x10000, 0x110000)
            else:
                u = rnd.choice([0x110000, 0x7fffffff, 0x80000000, 0xffffffff,
                                rnd.getrandbits(32)])
            units.append(u & (0xffff if size == 2 else 0xffffffff))
        if size == 2 and count >= 2 and rnd.random() < 0.3:
            k = rnd.randrange(count - 1)
            units[k], units[k + 1] = 0xD800 + rnd.randrange(0x400), 0xDC00 + rnd.randrange(0x400)
        return struct.pack('<%d%s' % (count, 'H' if size == 2 else 'I'), *units)
    p_special = rnd.choice([0.0, 0.1, 0.5])
    out = []
    for _ in range(count):
        if rnd.random() < p_special:
            out.append(special(rnd, size))
        else:
            out.append(rnd.getrandbits(8 * size).to_bytes(size, 'little'))
    return b''.join(out)


def outcome(ffi, f):
    try:
        u = f()
    except Exception as e:
        return ('exc', type(e).__name__, str(e))
    if isinstance(u, list):
        return ('ok', [norm(ffi, x) for x in u])
    return ('ok', u)


def build(st, rep, rnd, T, tp, size, mis, n, mode):
    """-> (cdata under test, n, bytes of the n items, keepalive, is_array, array length)"""
    ffi = st['ffi']
    if mode == 'cast':
        # pointer into a char[] block; the last item ends at the end of the block
        elems = gen_elems(rnd, T, size, n)
        data = rnd.getrandbits(8 * mis).to_bytes(mis, 'little') + elems
        raw = ffi.new('char[]', max(len(data), 1))
        ffi.buffer(raw)[0:len(data)] = data
        p = ffi.cast(ffi.getctype(tp, '*'), ffi.cast('char *', raw) + mis)
        return p, n, elems, raw, None
    if mode == 'castarr':
        # array window T[L] over a char[] block, L >= n, any misalignment
        L = n + rnd.choice([0, 0, 1, 3])
        elems = gen_elems(rnd, T, size, L)
        data = rnd.getrandbits(8 * mis).to_bytes(mis, 'little') + elems
        raw = ffi.new('char[]', max(len(data), 1))
        ffi.buffer(raw)[0:len(data)] = data
        a = ffi.cast(ffi.getctype(tp, '(*)[%d]' % L), ffi.cast('char *', raw) + mis)[0]
        return a, n, elems[:n * size], raw, L
    if mode == 'new_arr':
        # owning array (both spellings); or a pointer into it by pointer arithmetic
        L = n + rnd.choice([0, 0, 1, 3])
        elems = gen_elems(rnd, T, size, L)
        if rnd.random() < 0.5:
            a = ffi.new(ffi.getctype(tp, '[]'), L)
            rep.stat('new_open_array')
        else:
            a = ffi.new(ffi.getctype(tp, '[%d]' % L))
            rep.stat('new_fixed_array')
        ffi.buffer(a)[0:len(elems)] = elems
        if rnd.random() < 0.3:
            k = rnd.randrange(L + 1)
            n = min(n, L - k)
            rep.stat('pointer_arithmetic')
            return a + k, n, elems[k * size:(k + n) * size], a, None
        return a, n, elems[:n * size], a, L
    if mode == 'new_ptr':
        # owning pointer to a single item
        n = min(n, 1)
        elems = gen_elems(rnd, T, size, 1)
        q = ffi.new(ffi.getctype(tp, '*'))
        ffi.buffer(q)[0:len(elems)] = elems
        return q, n, elems[:n * size], q, None
    if mode in ('frombuf_arr', 'frombuf_ptr'):
        arr = mode == 'frombuf_arr'
        L = n + (rnd.choice([0, 0, 1, 3]) if arr else 0)
        elems = gen_elems(rnd, T, size, L)
        ba = bytearray(rnd.getrandbits(8 * mis).to_bytes(mis, 'little') + elems)
        mv = memoryview(ba)[mis:]
        if not arr:
            c = ffi.from_buffer(ffi.getctype(tp, '*'), mv)
            return c, n, elems, (ba, mv), None
        if size and rnd.random() < 0.5:
            c = ffi.from_buffer(ffi.getctype(tp, '[]'), mv)
            rep.stat('frombuf_open_array')
        else:
            c = ffi.from_buffer(ffi.getctype(tp, '[%d]' % L), mv)
            rep.stat('frombuf_fixed_array')
        return c, n, elems[:n * size], (ba, mv), L
    if mode == 'field':
        # array field of an owning struct: packed (misaligned) or natural layout
        kind, fld, L = rnd.choice(FIELDS)
        if n > L:
            n = rnd.randrange(L + 1)
        sname = 'struct %s%d' % (kind, st['fidx'][T])
        s = ffi.new(sname + ' *')
        total = ffi.sizeof(sname)
        ffi.buffer(s)[0:total] = rnd.getrandbits(8 * total).to_bytes(total, 'little')
        elems = gen_elems(rnd, T, size, L)
        off = ffi.offsetof(sname, fld)
        ffi.buffer(s)[off:off + len(elems)] = elems
        rep.stat('field_' + kind)
        form = rnd.choice(['arr', 'arr', 'arr', 'add', 'addressof', 'addressof_arr'])
        if form == 'arr':
            return getattr(s, fld), n, elems[:n * size], s, L
        if form == 'addressof_arr':
            rep.stat('addressof_array_field')
            return ffi.addressof(s, fld)[0], n, elems[:n * size], s, L
        k = rnd.randrange(L + 1)
        n = min(n, L - k)
        if form == 'addressof' and size and k < L:
            rep.stat('addressof_item')
            p = ffi.addressof(s, fld, k)
        else:
            rep.stat('pointer_arithmetic')
            p = getattr(s, fld) + k
        return p, n, elems[k * size:(k + n) * size], s, None
    raise ValueError(mode)


def child_case(st, case):
    import random
    ffi = st['ffi']
    T = case['T']
    rep = core.ChildRep()
    size = ffi.sizeof(T)
    tp = ffi.typeof(T)
    is_char = T == 'char'
    is_wide = T in WIDE_TYPES
    if size == 0:
        rep.stat('zero_size_item_types')
    for item in case['items']:
        seed, mis, n = item[:3]
        mode = item[3] if len(item) > 3 else 'cast'
        rnd = random.Random(seed)
        p, n, ebytes, keep, alen = build(st, rep, rnd, T, tp, size, mis, n, mode)
        detail = [seed, mis, item[2], mode]
        addr = int(ffi.cast('uintptr_t', p))
        # element-wise
        try:
            elems = [p[i] for i in range(n)]
            if is_char:
                ref = ('ok', b''.join(elems))
            elif is_wide:
                ref = ('ok', ''.join(elems))
            else:
                ref = ('ok', [norm(ffi, x) for x in elems])
        except Exception as e:
            ref = ('exc', type(e).__name__, str(e))
        got = outcome(ffi, lambda: ffi.unpack(p, n))
        rep.case((T, ebytes, mode, addr & 15, n, alen), nontrivial=n >= 2,
                 sample={'T': T, 'mode': mode, 'mis': addr & 15, 'n': n, 'array_len': alen,
                         'mem': ebytes[:24].hex()})
        rep.stat('mis%d' % (addr & 15))
        rep.stat('mode_' + mode)
        if n >= 64:
            rep.stat('n_ge_64')
        if alen is not None:
            rep.stat('array_unpacks')
            rep.stat('array_n_lt_len' if n < alen else 'array_n_eq_len')
            if addr & 7:
                rep.stat('array_misaligned')
        if ref[0] == 'exc':
            rep.stat('elementwise_raises')
        what = '%s %s%s' % (T, mode, '' if alen is None else ' (array of %d)' % alen)
        if got != ref:
            mech = 'unpack-differs'
            if alen is not None:
                mech = 'unpack-array-differs'
            if got[0] == 'exc' and ref[0] == 'exc' and got[1] == ref[1]:
                mech = 'unpack-exception-message-differs'
            # classifier keys of the two historical findings (unpack returned a string)
            if is_wide and size == 4 and got[0] == 'ok':
                us = struct.unpack('<%dI' % n, ebytes)
                if any(x > 0x10FFFF for x in us):
                    mech = 'char32-beyond-unicode'
            if is_wide and size == 2 and got[0] == 'ok' and ref[0] == 'ok':
                us = struct.unpack('<%dH' % n, ebytes)
                if any(0xD800 <= us[i] <= 0xDBFF and 0xDC00 <= us[i + 1] <= 0xDFFF
                       for i in range(n - 1)):
                    mech = 'char16-surrogate-pair-joined'
            rep.bad(mech, '%s at misalignment %d, n=%d, memory %s: unpack -> %r, element-wise -> %r'
                    % (what, addr & 15, n, ebytes[:40].hex(), str(got)[:200], str(ref)[:200]), detail)
        elif rnd.random() < 0.25:
            # the same unpack through the other entry points
            entry = rnd.choice(ENTRIES)
            if entry == 'kw':
                g2 = outcome(ffi, lambda: ffi.unpack(cdata=p, length=n))
            elif entry == 'backend':
                g2 = outcome(ffi, lambda: ffi._backend.unpack(p, n))
            elif entry == 'cffi1':
                g2 = outcome(ffi, lambda: st['cffi1'].unpack(p, length=n))
            else:
                g2 = outcome(ffi, lambda: ffi.unpack(p, _Index(n)))
            rep.stat('entry_' + entry)
            if g2 != got:
                rep.bad('unpack-entry-differs:' + entry,
                        '%s at misalignment %d, n=%d, memory %s: entry point %s -> %r, '
                        'ffi.unpack(p, n) -> %r' % (what, addr & 15, n, ebytes[:40].hex(), entry,
                                                    str(g2)[:200], str(got)[:200]), detail)
        del p, keep
    return rep.result()


def judge(ctx, setup, case, obs):
    def rp(detail):
        c = dict(case)
        c['items'] = [detail]
        return c
    core.absorb(ctx, case, obs, rp)
    ctx.count('types')


def sanitizer_filter(kind):
    return True
