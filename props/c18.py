"""C18 -- ffi.unpack equals element-wise reading.

Differential: ffi.unpack(p, n) against [p[i] for i in range(n)] (joined for
character types) on random memory, every misalignment 0..7, n up to the end of
a malloc'ed block (so ASan decides over-reads).
"""
import sys, os, struct
from vlib import gen, core

MEMCHECK_SAMPLE = 6
RULE = ("case = (item type, random memory contents, misalignment 0..7, n); item types: every "
        "integer type (all unpack fast paths), _Bool (bytes >= 2 included), char, wchar_t, "
        "char16_t, char32_t, float, double, long double, complex, pointers, enums, structs, "
        "arrays; the last element ends exactly at the end of the allocation; distinct = "
        "(type, contents, misalignment, n); non-trivial = n >= 2")
ASSUMPTIONS = ["cdata elements (structs, pointers, arrays, long double) are compared by type and "
               "address / value bytes"]

ITEM_TYPES = [t[0] for t in gen.INT_TYPES[:18]] + \
    ['_Bool', 'char', 'wchar_t', 'char16_t', 'char32_t', 'float', 'double', 'long double',
     'float _Complex', 'double _Complex', 'void *', 'int *', 'int(*)(int)', 'enum e8', 'enum eu',
     'struct s3', 'struct s8', 'int[3]', 'char[5]', 'short[2][2]']
CDEF = """
enum e8 { E8A = -1, E8B = 1 }; enum eu { EUA = 0, EUB = 4000000000 };
struct s3 { char a, b, c; }; struct s8 { int x; float y; };
"""


def generate(ctx):
    rng = ctx.rng('gen')
    per = ctx.scale(500, 12000)
    cases = []
    for T in ITEM_TYPES:
        items = []
        for _ in range(per):
            items.append([rng.getrandbits(40), rng.randrange(8), rng.choice([0, 1, 2, 3, 5, 9, 17, 40])])
        cases.append({'T': T, 'items': items})
    return None, cases


def child_setup(setup, wd):
    from cffi import FFI
    ffi = FFI()
    ffi.cdef(CDEF)
    return {'ffi': ffi}


def norm(ffi, x):
    """normalise an element for comparison"""
    if isinstance(x, ffi.CData):
        t = ffi.typeof(x)
        if t.kind in ('struct', 'union', 'array'):
            return ('cdata', t.cname, int(ffi.cast('uintptr_t', ffi.addressof(x) if t.kind != 'array' else x)))
        if t.kind in ('pointer', 'function'):
            return ('cdata', t.cname, int(ffi.cast('uintptr_t', x)))
        if t.cname == 'long double':
            q = ffi.new('long double *', x)
            return ('cdata', t.cname, bytes(ffi.buffer(q)[0:10]))
        return ('cdata', t.cname, repr(x))
    if isinstance(x, float):
        return ('float', struct.pack('<d', x))
    if isinstance(x, complex):
        return ('complex', struct.pack('<dd', x.real, x.imag))
    return (type(x).__name__, x)


def child_case(st, case):
    import random
    ffi = st['ffi']
    T = case['T']
    rep = core.ChildRep()
    size = ffi.sizeof(T)
    tp = ffi.typeof(T)
    is_char = T == 'char'
    is_wide = T in ('wchar_t', 'char16_t', 'char32_t')
    ptype = ffi.typeof(ffi.getctype(tp, '*'))
    for seed, mis, n in case['items']:
        rnd = random.Random(seed)
        nbytes = mis + n * size
        raw = ffi.new('char[]', max(nbytes, 1))
        if T == '_Bool':
            data = bytes(rnd.choice([0, 1, 0, 1, 0, 1, 2, 255, rnd.randrange(256)])
                         for _ in range(nbytes))
        elif is_wide:
            units = []
            for _ in range(n):
                r = rnd.random()
                if r < 0.55:
                    u = rnd.choice([rnd.randrange(1, 128), rnd.randrange(0x80, 0xD800),
                                    rnd.randrange(0xE000, 0x10000), 0])
                elif r < 0.75:
                    u = rnd.choice([0xD800, 0xDBFF, 0xDC00, 0xDFFF, rnd.randrange(0xD800, 0xE000)])
                elif r < 0.9:
                    u = rnd.randrange(0x10000, 0x110000)
                else:
                    u = rnd.choice([0x110000, 0x7fffffff, 0x80000000, 0xffffffff,
                                    rnd.getrandbits(32)])
                units.append(u & (0xffff if size == 2 else 0xffffffff))
            if size == 2 and n >= 2 and rnd.random() < 0.3:
                k = rnd.randrange(n - 1)
                units[k], units[k + 1] = 0xD800 + rnd.randrange(0x400), 0xDC00 + rnd.randrange(0x400)
            data = bytes(rnd.getrandbits(8) for _ in range(mis)) + \
                struct.pack('<%d%s' % (n, 'H' if size == 2 else 'I'), *units)
        else:
            data = bytes(rnd.getrandbits(8) for _ in range(nbytes))
        ffi.buffer(raw)[0:nbytes] = data
        p = ffi.cast(ptype, ffi.cast('char *', raw) + mis)
        detail = [seed, mis, n]
        # element-wise
        try:
            elems = [p[i] for i in range(n)]
            if is_char:
                ref = ('ok', b''.join(elems))
            elif is_wide:
                ref = ('ok', ''.join(elems))
            else:
                ref = ('ok', [norm(ffi, x) for x in elems])
        except Exception as e:
            ref = ('exc', type(e).__name__)
        try:
            u = ffi.unpack(p, n)
            if isinstance(u, list):
                got = ('ok', [norm(ffi, x) for x in u])
            else:
                got = ('ok', u)
        except Exception as e:
            got = ('exc', type(e).__name__)
        rep.case((T, data, mis, n), nontrivial=n >= 2,
                 sample={'T': T, 'mis': mis, 'n': n, 'mem': data[:24].hex()})
        rep.stat('mis%d' % mis)
        if ref[0] == 'exc':
            rep.stat('elementwise_raises')
        if got != ref:
            mech = 'unpack-differs'
            if is_wide and size == 4:
                us = struct.unpack('<%dI' % n, data[mis:])
                if any(x > 0x10FFFF for x in us):
                    mech = 'char32-beyond-unicode'
            if is_wide and size == 2:
                us = struct.unpack('<%dH' % n, data[mis:])
                if any(0xD800 <= us[i] <= 0xDBFF and 0xDC00 <= us[i + 1] <= 0xDFFF
                       for i in range(n - 1)):
                    mech = 'char16-surrogate-pair-joined'
            rep.bad(mech, '%s at misalignment %d, n=%d, memory %s: unpack -> %r, element-wise -> %r'
                    % (T, mis, n, data[mis:mis + 40].hex(), str(got)[:200], str(ref)[:200]), detail)
        # arrays: unpack of an array cdata too
        if n and not is_wide and mis == 0 and T not in ('_Bool',) and rnd.random() < 0.3:
            arr = ffi.cast(ffi.getctype(tp, '(*)[%d]' % n), raw)[0]
            try:
                u2 = ffi.unpack(arr, n)
                g2 = ('ok', [norm(ffi, x) for x in u2]) if isinstance(u2, list) else ('ok', u2)
            except Exception as e:
                g2 = ('exc', type(e).__name__)
            rep.stat('array_unpacks')
            if g2 != ref:
                rep.bad('unpack-array-differs', '%s[%d]: unpack(array) %r vs element-wise %r' %
                        (T, n, str(g2)[:200], str(ref)[:200]), detail)
    return rep.result()


def judge(ctx, setup, case, obs):
    def rp(detail):
        c = dict(case)
        c['items'] = [detail]
        return c
    core.absorb(ctx, case, obs, rp)
    ctx.count('types')


def sanitizer_filter(kind):
    return True
