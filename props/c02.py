"""C02 -- bitfield reads/writes are range-exact, round-trip, isolated, and read
what C reads.

Shape: differential + byte-image monitor.  For every (type, width, position)
placement a struct `{ sentinel; T pad:k; T f:w; T tail:r; sentinel }` is declared
to cffi and compiled by gcc into accessor functions (get/set through C).  Each
store of a Python int is checked against the range model, the before/after
byte images under the field's storage mask (the mask is what a *C* store of
all-ones changes in a zeroed object), and the C getter.  UBSan/ASan reports
inside the backend are deciding (the statement is about exactly these bits).

Besides that exhaustive basic family the generator places the field in the
other contexts that decide its (offset, bitshift): after a short non-bitfield
member, next to bitfields of other integer types (sharing or spilling out of
the storage unit), after anonymous / zero-width bitfields, inside unions,
anonymous nested structs/unions and named nested structs, as the very last
member (no slack behind the storage unit), before a flexible array, and in
packed (packed=True / pack=N) declarations (judged against cffi's own field
metadata, because the documentation does not promise gcc's packed bitfield
layout).  Every store goes through one of the equivalent entry points
(p.f = v, p[0].f = v, p[0] = {...}, ffi.new(T, {...}), ffi.new(T, [...])) on
owned memory, on an element of an array or on memory from ffi.from_buffer(),
and the struct types are created by an in-line cdef, by an out-of-line ABI
module (emit_python_code) or by a compiled API module (set_source + compile).
"""
import os
from vlib import gen, cc, core, modbuild

RULE = ("case = (integer type, width w in 1..8*sizeof, bit position) placement x Python int v "
        "(boundary lattice of the field range and of 64-bit limits, >64-bit magnitudes, in-range "
        "values shifted by multiples of 2**63/2**64, int subclasses, random) on random initial "
        "storage; placements = exhaustive basic family (same-type pad/tail between sentinels) + "
        "sampled contexts (short leading member, mixed-type neighbours incl. spill to the next "
        "unit, anonymous and :0 bitfields, union, anonymous struct/union, nested struct, last "
        "member, flexible array, packed/pack=N); the declarations reach the backend through an "
        "in-line cdef, an out-of-line ABI module or a compiled API module; each store uses one "
        "of 5 entry points on one of 3 kinds of memory; distinct = distinct (placement,v); non-trivial = w>1 or position>0 or "
        "non-basic context (every case writes/reads through the real backend and is compared "
        "with gcc's accessors, packed ones with cffi's own field metadata)")
ASSUMPTIONS = ["gcc's bitfield allocation and its get/set code are the C view of the storage",
               "only the x86-64 gcc bitfield ABI branch of the backend is executed",
               "packed=True / pack=N declarations: the documentation does not promise gcc's "
               "layout for packed bitfields, so these are judged against the field position "
               "cffi itself reports (little-endian bit numbering), not against gcc"]

_BASIC_NAMES = ('signed char', 'unsigned char', 'short', 'unsigned short', 'int', 'unsigned int',
                'long', 'unsigned long', 'long long', 'unsigned long long', 'int8_t', 'uint8_t',
                'int16_t', 'uint16_t', 'int32_t', 'uint32_t', 'int64_t', 'uint64_t')
BF_TYPES = [t for t in gen.INT_TYPES if t[0] in _BASIC_NAMES] + [('_Bool', 1, False)]
# integer typedefs that only appear in the sampled contexts
EXTRA_TYPES = [t for t in gen.INT_TYPES if t[0] not in _BASIC_NAMES]
PAD_TYPES = [t for t in gen.INT_TYPES if t[0] in (
    'signed char', 'unsigned char', 'short', 'unsigned short', 'int', 'unsigned int', 'long',
    'unsigned long long', 'uint16_t', 'int64_t', 'size_t')]

POSITION_MECHS = ('layout', 'type-rejected', 'read-differs-from-c', 'c-read-differs',
                  'outside-bits-changed')
MODES = ['ptr', 'val', 'item', 'new-dict', 'new-list']
SITES = ['own', 'arr', 'frombuf']


def field_range(T, signed, w):
    if T == '_Bool':
        return 0, 1
    if signed:
        return -(1 << (w - 1)), (1 << (w - 1)) - 1
    return 0, (1 << w) - 1


def values_for(rng, T, signed, w, nrand):
    lo, hi = field_range(T, signed, w)
    vals = set(gen.small_lattice(lo, hi))
    for k in (w - 2, w - 1, w, w + 1):
        if k >= 0:
            vals.update([(1 << k), (1 << k) - 1, -(1 << k), -(1 << k) - 1, -(1 << k) + 1])
    for _ in range(nrand):
        vals.add(rng.randint(lo, hi))
        vals.add(gen.rand_int(rng))
    # in-range values moved by multiples of 2**63 / 2**64 / 2**128: congruent to an
    # in-range value modulo the widths a C conversion could silently reduce by
    x = rng.randint(lo, hi)
    vals.update([x + (1 << 64), x - (1 << 64), x + (1 << 63), x - (1 << 63), x + (1 << 128),
                 hi + (3 << 64), lo - (1 << 65)])
    return sorted(vals)


# ---------------------------------------------------------------------------
# placements

def _mk(T, size, signed, w, kind, key, body, rng, nrand, pre='', top='struct', path='f',
        oracle='c', flex=False, spilled=False):
    return {'T': T, 'size': size, 'signed': signed, 'w': w, 'k': key, 'kind': kind,
            'key': '%s|%s|%s:%d|%s' % (kind, top, T, w, key), 'pre': pre, 'body': body,
            'top': top, 'path': path, 'oracle': oracle, 'flex': flex, 'spilled': spilled,
            'vals': values_for(rng, T, signed, w, nrand)}


def basic_body(T, k, w, tail, padT):
    f = ['unsigned char s0[8];']
    if k:
        f.append('%s pad:%d;' % (padT, k))
    f.append('%s f:%d;' % (T, w))
    if tail:
        f.append('%s tail:%d;' % (padT, tail))
    f.append('unsigned char s1[8];')
    return ' '.join(f)


def _pick_tw(rng):
    T, size, signed = rng.choice(BF_TYPES + BF_TYPES + EXTRA_TYPES)
    bits = 8 * size
    if T == '_Bool':
        return T, size, signed, 1
    w = rng.choice([1, 2, 7, 8, 9, bits - 1, bits, bits // 2, rng.randint(1, bits),
                    rng.randint(1, bits)])
    return T, size, signed, max(1, min(bits, w))


def _pick_pad(rng, T):
    if rng.random() < 0.25 and T != '_Bool':
        P = [t for t in gen.INT_TYPES if t[0] == T][0]
    else:
        P = rng.choice(PAD_TYPES)
    pbits = 8 * P[1]
    k = rng.choice([1, 3, 7, 8, 9, pbits - 1, pbits, rng.randint(1, pbits), rng.randint(1, pbits)])
    return P[0], max(1, min(pbits, k)), pbits


def context_placement(rng, kind, nrand):
    """One placement of the field in a non-basic context."""
    T, size, signed, w = _pick_tw(rng)
    bits = 8 * size
    P, k, pbits = _pick_pad(rng, T)
    Q, r, _ = _pick_pad(rng, T)
    lead = rng.choice(['char', 'unsigned char', 'signed char'])
    n = rng.randint(1, min(size + 1, 8))
    tail = (' %s tail:%d;' % (Q, r)) if rng.random() < 0.6 else ''
    S0, S1 = 'unsigned char s0[8]; ', ' unsigned char s1[8];'
    f = '%s f:%d;' % (T, w)
    kw = {}
    if kind == 'lead':
        body = S0 + '%s c[%d]; ' % (lead, n) + f + tail + S1
        key = 'c%d%s' % (n, tail)
    elif kind == 'mixed':
        second = ('%s pad2:%d; ' % (Q, r)) if rng.random() < 0.4 else ''
        body = S0 + '%s pad:%d; ' % (P, k) + second + f + tail + S1
        key = '%s:%d %s%s' % (P, k, second, tail)
        kw['spilled'] = (not second) and k + w > bits
    elif kind == 'anonbf':
        z = rng.random()
        if z < 0.4:
            body = S0 + '%s :%d; ' % (P, k) + f + tail + S1
        elif z < 0.5:
            body = S0 + '%s pad:%d; %s :0; ' % (P, k, Q) + f + tail + S1
        elif z < 0.6:
            # ':0' where the position is already aligned for its type
            body = S0 + '%s pad:%d; %s :0; ' % (P, pbits, P) + f + tail + S1
        elif z < 0.7:
            body = S0 + '%s :0; ' % Q + f + tail + S1
        else:
            body = S0 + '%s c; %s :%d; %s pad:%d; ' % (lead, P, k, Q, r) + f + tail + S1
        key = body
    elif kind == 'union':
        body = '%s g:%d; %s unsigned char raw[16];' % (P, k, f) if rng.random() < 0.5 else \
            f + ' %s g:%d; unsigned long long all[2];' % (P, k)
        key = body
        kw['top'] = 'union'
    elif kind == 'anon_union':
        inner = ('%s g:%d; %s' % (P, k, f)) if rng.random() < 0.5 else (f + ' %s g:%d;' % (P, k))
        body = S0 + '%s c[%d]; union { %s };' % (lead, n, inner) + S1
        key = body
    elif kind == 'anon_struct':
        body = S0 + '%s c[%d]; struct { %s pad:%d; %s%s };' % (lead, n, P, k, f, tail) + S1
        key = body
    elif kind == 'nested':
        kw['pre'] = 'struct in@ { %s pad:%d; %s%s };' % (P, k, f, tail)
        body = S0 + '%s c[%d]; struct in@ inner;' % (lead, n) + S1
        key = kw['pre'] + body
        kw['path'] = 'inner.f'
    elif kind == 'tight':
        # the field is the last thing in the object: nothing behind its storage unit
        z = rng.random()
        if z < 0.4:
            body = '%s c[%d]; ' % (lead, n) + f
        elif z < 0.8:
            body = '%s pad:%d; ' % (P, k) + f
        else:
            body = f
        key = body
    elif kind == 'flex':
        body = S0 + '%s pad:%d; ' % (P, k) + f + tail + ' unsigned char s1[];'
        key = body
        kw['flex'] = True
    elif kind == 'packed':
        z = rng.random()
        if z < 0.35:
            body = '%s c[%d]; ' % (lead, n) + f
        elif z < 0.55:
            body = '%s c[%d]; ' % (lead, n) + f + ' %s d;' % lead
        elif z < 0.8:
            kk = min(pbits, rng.choice([8, 16, 24, k]))
            body = S0 + '%s c[%d]; %s pad:%d; ' % (lead, n, P, kk) + f + tail + S1
        else:
            body = '%s pad:%d; ' % (P, min(pbits, rng.choice([8, 16, k]))) + f
        key = body
        kw['oracle'] = 'self'
    else:
        raise ValueError(kind)
    return _mk(T, size, signed, w, kind, key, body, rng, nrand, **kw)


CONTEXT_KINDS = ['lead', 'mixed', 'anonbf', 'union', 'anon_union', 'anon_struct', 'nested',
                 'tight', 'flex']


def decl(s, j):
    """Complete C declaration(s) of placement s under the tag number j."""
    pre = s.get('pre', '').replace('@', str(j))
    return '%s%s s%d { %s };' % (pre + ' ' if pre else '', s.get('top', 'struct'), j,
                                s['body'].replace('@', str(j)))


def c_source(case):
    src = []
    for j, s in enumerate(case['structs']):
        tn = '%s s%d' % (s.get('top', 'struct'), j)
        src.append(decl(s, j))
        rt = 'unsigned long long' if not s['signed'] else 'long long'
        path = s.get('path', 'f')
        src.append('%s get_%d(%s *p) { return p->%s; }' % (rt, j, tn, path))
        src.append('void set_%d(%s *p, long long v) { p->%s = v; }' % (j, tn, path))
        src.append('size_t size_%d(void) { return sizeof(%s); }' % (j, tn))
    return '\n'.join(src)


def generate(ctx):
    rng = ctx.rng('gen')
    structs = []
    npos = ctx.scale(3, 9)
    nrand = ctx.scale(6, 60)
    for (T, size, signed) in BF_TYPES:
        bits = 8 * size
        maxw = 1 if T == '_Bool' else bits
        for w in range(1, maxw + 1):
            room = (bits if T != '_Bool' else 8) - w
            poss = {0, room}
            while len(poss) < min(npos, room + 1):
                poss.add(rng.randint(0, room))
            for k in sorted(poss):
                tail = rng.choice([0, 0, 1, room - k]) if room - k > 0 else 0
                padT = T if T != '_Bool' else 'unsigned char'
                structs.append(_mk(T, size, signed, w, 'basic', '%d+%d' % (k, tail),
                                   basic_body(T, k, w, tail, padT), rng, nrand))
                structs[-1]['k'] = k
    # sampled contexts (same oracle: gcc accessors)
    crng = ctx.rng('contexts')
    nctx = ctx.scale(45, 400)
    seen = set(s['key'] for s in structs)
    for kind in CONTEXT_KINDS:
        made = tries = 0
        while made < nctx and tries < 20 * nctx:
            tries += 1
            s = context_placement(crng, kind, ctx.scale(2, 20))
            if s['key'] in seen:
                continue
            seen.add(s['key'])
            structs.append(s)
            made += 1
    rng.shuffle(structs)
    per = 80
    cases = []
    # compiled API modules get a stratified sample: every context kind + basic ones
    napi = ctx.scale(1, 4)
    for a in range(napi):
        pick, cnt = [], {}
        for s in structs:
            kd = s['kind']
            if cnt.get(kd, 0) < (4 if kd != 'basic' else 24):
                cnt[kd] = cnt.get(kd, 0) + 1
                pick.append(s)
        ids = set(id(s) for s in pick)
        structs = [s for s in structs if id(s) not in ids]
        cases.append({'structs': pick, 'no': len(cases), 'cls': 'c', 'via': 'api',
                      'seed': rng.getrandbits(32)})
    for i in range(0, len(structs), per):
        # how the struct types reach the backend: in-line cdef, an out-of-line ABI
        # module (emit_python_code) or a compiled API module (both realized lazily
        # from the _CFFI_OP_BITFIELD encoding)
        via = 'inline'
        if len(cases) % 4 == 1:
            via = 'abi'
        cases.append({'structs': structs[i:i + per], 'no': len(cases), 'cls': 'c', 'via': via,
                      'seed': rng.getrandbits(32)})
    # packed declarations: own cases (one cdef(packed=True) / cdef(pack=N) each)
    for pno, pack in enumerate((1, 1, 2, 4)):
        ps = []
        tries = 0
        while len(ps) < ctx.scale(40, 300) and tries < 10000:
            tries += 1
            s = context_placement(crng, 'packed', ctx.scale(2, 20))
            s['key'] = 'pack%d.%d|' % (pack, pno) + s['key']
            if s['key'] in seen:
                continue
            seen.add(s['key'])
            ps.append(s)
        for i in range(0, len(ps), per):
            # two runs over the same declarations: the child handles in part 'within' the
            # fields whose storage unit (offset + sizeof(type), as cffi reports them) lies
            # inside the struct and in part 'beyond' the others, so that sanitizer reports
            # are attributed to the right class
            sd = rng.getrandbits(32)
            for part in ('within', 'beyond'):
                cases.append({'structs': ps[i:i + per], 'no': len(cases), 'cls': 'packed',
                              'via': 'abi' if pno == 1 else 'inline',  # out-of-line: pack 0/1
                              'pack': pack, 'part': part, 'seed': sd})
    # build one accessor .so per case with gcc
    import concurrent.futures as cf

    def build(case):
        _build_case(ctx, case, 'c02_%d' % case['no'])
    with cf.ThreadPoolExecutor(16) as ex:
        list(ex.map(build, cases))
    return None, cases


def _build_case(ctx, case, name):
    if case['cls'] != 'c':
        return
    if case.get('via') == 'api':
        d = os.path.join(ctx.tmp, 'api_' + name)
        spec = {'name': '_%s_api' % name, 'kind': 'api', 'cdef': cdef_text(case),
                'source': cc.PRELUDE + c_source(case), 'dir': d}
        res = modbuild.build_modules(ctx, [spec], cflags='-O0 -w')[spec['name']]
        if not res['ok']:
            raise core.Inconclusive('API module build failed: ' + res['error'][-1500:] +
                                    res.get('log', '')[-1500:])
        case['api'] = [d, spec['name']]
    else:
        case['so'] = cc.build_so(ctx.tmp, c_source(case), name + '.so')


def cdef_text(case):
    cdef = []
    for j, s in enumerate(case['structs']):
        tn = '%s s%d' % (s.get('top', 'struct'), j)
        cdef.append(decl(s, j))
        if case.get('cls', 'c') == 'c':
            rt = 'unsigned long long' if not s['signed'] else 'long long'
            cdef.append('%s get_%d(%s *p);' % (rt, j, tn))
            cdef.append('void set_%d(%s *p, long long v);' % (j, tn))
            cdef.append('size_t size_%d(void);' % j)
    return '\n'.join(cdef)


def child_setup(setup, wd):
    return {'wd': wd, 'nmod': 0}


def _open(st, case):
    """(ffi, lib) for the case's declarations through the case's entry point"""
    import sys, importlib
    from cffi import FFI
    via = case.get('via', 'inline')
    if via == 'api':
        d, name = case['api']
        if d not in sys.path:
            sys.path.insert(0, d)
        mod = importlib.import_module(name)
        return mod.ffi, mod.lib
    ffi = FFI()
    kw = {}
    if case.get('cls') == 'packed':
        kw = {'packed': True} if case['pack'] == 1 else {'pack': case['pack']}
    ffi.cdef(cdef_text(case), **kw)
    if via == 'abi':
        st['nmod'] += 1
        name = '_c02_abi_%d_%d' % (os.getpid(), st['nmod'])
        os.makedirs(st['wd'], exist_ok=True)
        ffi.set_source(name, None)
        ffi.emit_python_code(os.path.join(st['wd'], name + '.py'))
        if st['wd'] not in sys.path:
            sys.path.insert(0, st['wd'])
        ffi = importlib.import_module(name).ffi
    lib = ffi.dlopen(case['so']) if case.get('so') else None
    return ffi, lib


# ---------------------------------------------------------------------------
# child side

class _I(int):
    """an int subclass: still 'a Python int v'"""


def _nest(path, v):
    d = v
    for name in reversed(path):
        d = {name: d}
    return d


def _list_init(ctype, path, v):
    """Positional initializer that reaches the field at `path` (None if the
    field cannot be reached positionally, e.g. non-first union member)."""
    out = []
    if ctype.kind == 'union':
        name, fld = ctype.fields[0]
        if name != path[0]:
            return None
        return [v] if len(path) == 1 else [_list_init(fld.type, path[1:], v)]
    for name, fld in ctype.fields:
        if name == path[0]:
            if len(path) == 1:
                out.append(v)
            else:
                sub = _list_init(fld.type, path[1:], v)
                if sub is None:
                    return None
                out.append(sub)
            return out
        t = fld.type
        if t.kind == 'array':
            out.append([])
        elif t.kind in ('struct', 'union'):
            out.append({})
        elif t.cname == 'char':
            out.append(b'\0')
        else:
            out.append(0)
    return None


def child_case(st, case):
    import random
    packed = case.get('cls') == 'packed'
    structs = case['structs']
    ffi, lib = _open(st, case)
    bad = []
    done = []
    n = 0
    stats = {'accepted': 0, 'rejected': 0, 'c_reads': 0}

    def stat(name, k=1):
        stats[name] = stats.get(name, 0) + k

    via = case.get('via', 'inline')
    prefix = ['']

    def report(mech, msg, j, v):
        if prefix[0]:
            # one root cause (position computed for the flattened members): one key
            mech = prefix[0] + ('field-position' if mech in POSITION_MECHS else mech)
        if len(bad) < 30 or mech not in [b[0] for b in bad]:
            bad.append([mech, msg, j, v])

    for j, s in enumerate(structs):
        T, signed, w = s['T'], s['signed'], s['w']
        kind = s.get('kind', 'basic')
        path = s.get('path', 'f').split('.')
        lo, hi = field_range(T, signed, w)
        tn = '%s s%d' % (s.get('top', 'struct'), j)
        # classifier prefix of the input classes that have their own code path: an API
        # module flattens the members of anonymous nested structs/unions (recompiler)
        prefix[0] = 'api-anon:' if via == 'api' and kind in ('anon_struct', 'anon_union') else ''
        tag = '%s%s[%s] %s' % ('' if via == 'inline' else via + ' module: ', kind, decl(s, j),
                               '.'.join(path))
        try:
            ctype = ffi.typeof(tn)
            size = ffi.sizeof(tn)
        except NotImplementedError:
            if packed:          # documented refusal of some packed bitfield layouts
                stat('packed_not_implemented')
                continue
            raise
        except (TypeError, ffi.error) as e:
            if packed:
                raise
            # gcc compiled this declaration; cffi refuses to build the type
            report('type-rejected', '%s: %s: %s' % (tag, type(e).__name__, str(e)[:300]), j, None)
            continue
        flex = bool(s.get('flex'))
        getter = setter = None
        if not packed:
            if size != getattr(lib, 'size_%d' % j)():
                report('layout', 'sizeof(%s)=%d but gcc %d: %s' % (
                    tn, size, getattr(lib, 'size_%d' % j)(), decl(s, j)), j, None)
                continue
            getter = getattr(lib, 'get_%d' % j)
            setter = getattr(lib, 'set_%d' % j)
        # ---- memory the struct lives in: (pointer, enclosing buffer, offset) ----
        keep = []
        if flex:
            p = ffi.new(tn + ' *', {'s1': 8})
        else:
            p = ffi.new(tn + ' *')
        pbuf = ffi.buffer(p)
        size = len(pbuf)
        sites = {'own': (p, pbuf, 0)}
        if not flex:
            arr = ffi.new(tn + '[3]')
            sites['arr'] = (arr + 1, ffi.buffer(arr), size)
            ba = bytearray(size + 16)
            whole = ffi.from_buffer('char[]', ba)
            sites['frombuf'] = (ffi.cast(tn + ' *', whole + 8), ffi.buffer(whole), 8)
            keep = [arr, ba, whole]
        # ---- storage mask of the field ----
        bitpos = None
        if packed:
            fld = dict(ctype.fields)[path[0]]
            if fld.bitsize != w or fld.bitshift < 0:
                report('field-metadata', '%s: cffi reports bitshift=%d bitsize=%d for a field '
                       'of width %d' % (tag, fld.bitshift, fld.bitsize, w), j, None)
                continue
            bitpos = 8 * fld.offset + fld.bitshift
            if bitpos + w > 8 * size:
                report('field-bits-beyond-struct', '%s: field bits [%d,%d) but sizeof is %d' %
                       (tag, bitpos, bitpos + w, size), j, None)
                continue
            # (any bitfield member: the positional initializer also stores 'pad')
            beyond = any(m.bitsize > 0 and m.offset + ffi.sizeof(m.type) > size
                         for _, m in ctype.fields)
            if beyond != (case.get('part') == 'beyond'):
                continue
            if beyond:
                stat('packed_unit_beyond_struct')
            mask = (((1 << w) - 1) << bitpos).to_bytes(size, 'little')
        else:
            pbuf[:] = b'\0' * size
            setter(p, -1)   # storage mask: what a C store of all-ones changes in zeroed memory
            mask = bytes(pbuf)
            pbuf[:] = b'\0' * size
        maskbits = sum(bin(b).count('1') for b in mask)
        if maskbits != w:
            report('harness', 'C mask has %d bits, width %d: %s' % (maskbits, w, tag), j, None)
            continue
        stat('kind_' + kind)
        stat('via_' + via)
        done.append(j)
        if via == 'api':
            stat('api_kind_' + kind)
        linit_ok = not (flex or kind == 'anon_union' or _list_init(ctype, path, 0) is None)
        maskint = int.from_bytes(mask, 'little')

        def cread(q, image):
            """the value C code reads from the field in `image` (bytes of the struct)"""
            if getter is not None:
                return getter(q)
            u = (int.from_bytes(image, 'little') >> bitpos) & ((1 << w) - 1)
            if signed and u >> (w - 1):
                u -= 1 << w
            return u
        rdmech = ('c-read-differs', 'read-differs-from-c') if not packed else \
            ('model-read-differs', 'read-differs-from-model')

        def holder(q, how):
            """object on which the last path component is an attribute"""
            o = q[0] if how == 'val' else q
            for name in path[:-1]:
                o = getattr(o, name)
            return o

        for v in s['vals']:
            n += 1
            rnd = random.Random('%d/%s/%d' % (case['seed'], s.get('key', ''), v))
            mode = 'ptr' if rnd.random() < 0.4 else rnd.choice(MODES)
            sname = 'own' if rnd.random() < 0.5 else rnd.choice(SITES)
            if sname not in sites:
                sname = 'own'
            if mode == 'new-list' and not linit_ok:
                mode = 'new-dict'
            fresh = mode.startswith('new-')
            vv = v
            z = rnd.random()
            if z < 0.04:
                vv = _I(v)
                stat('int_subclass_values')
            elif z < 0.3 and v in (0, 1):
                vv = bool(v)
                stat('bool_values')
            inrange = lo <= v <= hi or (signed and w == 1 and v == 1 and T != '_Bool')
            exp = -1 if (signed and w == 1 and v == 1) else v
            stat('mode_' + mode)
            if fresh:
                # a new object initialised with the value: background is zero
                q = None
                try:
                    if mode == 'new-dict':
                        d = _nest(path, vv)
                        if flex:
                            d['s1'] = 8
                        q = ffi.new(tn + ' *', d)
                    else:
                        q = ffi.new(tn + ' *', _list_init(ctype, path, vv))
                    res = 'ok'
                except OverflowError:
                    res = 'OverflowError'
                except Exception as e:
                    res = type(e).__name__
                init = b'\0' * size
                off = 0
                after = bytes(ffi.buffer(q)) if q is not None else init
                how = 'ptr'
                total = init
            else:
                stat('site_' + sname)
                q, wbuf, off = sites[sname]
                tot = len(wbuf)
                if rnd.random() < 0.8:
                    total = rnd.randbytes(tot)
                else:
                    total = b'\xff' * tot if rnd.random() < 0.5 else b'\0' * tot
                wbuf[:] = total
                init = total[off:off + size]
                cbefore = cread(q, init)
                how = mode
                try:
                    if mode == 'item':
                        q[0] = _nest(path, vv)
                    else:
                        setattr(holder(q, mode), path[-1], vv)
                    res = 'ok'
                except OverflowError:
                    res = 'OverflowError'
                except Exception as e:
                    res = type(e).__name__
                wafter = bytes(wbuf)
                after = wafter[off:off + size]
                if wafter[:off] != total[:off] or wafter[off + size:] != total[off + size:]:
                    report('outside-object-changed', '%s: store of %d (%s, %s) changed memory '
                           'outside the struct' % (tag, v, mode, sname), j, v)
            what = '%s (%s%s)' % (tag, mode, '' if fresh else ', ' + sname)
            if inrange:
                stats['accepted'] += 1
                if res != 'ok':
                    report('inrange-rejected', '%s: in-range value %d rejected with %s' %
                           (what, v, res), j, v)
                    continue
                try:
                    got = getattr(holder(q, how if how in ('ptr', 'val') else 'ptr'), path[-1])
                except Exception as e:
                    got = 'exc:' + type(e).__name__
                if got != exp or not isinstance(got, int):
                    report('readback', '%s: wrote %d, read back %r' % (what, v, got), j, v)
                cgot = cread(q, after)
                stats['c_reads'] += 1
                if cgot != exp:
                    report(rdmech[0], '%s: wrote %d, C reads %r' % (what, v, cgot), j, v)
                if (int.from_bytes(after, 'little') ^ int.from_bytes(init, 'little')) & ~maskint:
                    i = [i for i in range(size) if (after[i] ^ init[i]) & ~mask[i] & 0xff][0]
                    report('outside-bits-changed', '%s: store of %d changed bits outside '
                           'the field at byte %d: %02x -> %02x (mask %02x)' %
                           (what, v, i, init[i], after[i], mask[i]), j, v)
            else:
                stats['rejected'] += 1
                if res == 'ok':
                    report('outofrange-accepted', '%s: out-of-range value %d accepted (reads %r)'
                           % (what, v, getattr(holder(q, 'ptr'), path[-1])), j, v)
                elif res != 'OverflowError':
                    report('wrong-exception', '%s: out-of-range %d raised %s' % (what, v, res),
                           j, v)
                if after != init:
                    report('rejected-store-changed-memory', '%s: rejected store of %d changed '
                           'memory' % (what, v), j, v)
            if fresh:
                continue
            # reading random storage: cffi's view == C's view
            wbuf[:] = total
            rhow = 'val' if rnd.random() < 0.3 else 'ptr'
            try:
                pv = getattr(holder(q, rhow), path[-1])
            except Exception as e:
                pv = 'exc:' + type(e).__name__
            if pv != cbefore:
                report(rdmech[1], '%s: storage %s: cffi reads %r (%s), C reads %r' %
                       (tag, init.hex(), pv, rhow, cbefore), j, None)
        del keep
    return {'n': n, 'bad': bad, 'stats': stats, 'done': done}


def san_mechanism(case, key, block):
    # sanitizer reports of the packed class get their own classifier prefix
    if isinstance(case, dict) and case.get('cls') == 'packed':
        if case.get('part') == 'beyond' and key.startswith('asan:heap-buffer-overflow@') and \
                ('convert_to_object_bitfield' in block or 'convert_from_object_bitfield' in block):
            # the access of the whole storage unit (sizeof(type) bytes at the field's
            # offset) of a field whose unit extends past the end of the struct
            return 'packed:storage-unit-beyond-struct'
        return 'packed:sanitizer:' + key
    return None


def judge(ctx, setup, case, obs):
    for j in obs.get('done', range(len(case['structs']))):
        s = case['structs'][j]
        basic = s.get('kind', 'basic') == 'basic'
        for v in s['vals']:
            ctx.case((s.get('key') or (s['T'], s['w'], s['k']), v),
                     nontrivial=(s['w'] > 1 or not basic or s['k'] > 0))
        ctx.count('placements')
        if s['w'] == 8 * s['size']:
            ctx.count('full_width_fields')
        if s.get('spilled'):
            ctx.count('spilled_to_next_unit')
    if len(ctx.samples) < 8:
        s = case['structs'][0]
        ctx.samples.append({'decl': decl(s, 0), 'values': s['vals'][:12]})
    for k, v in obs['stats'].items():
        ctx.count(k, v)
    for mech, msg, j, v in obs['bad']:
        rd = None
        if j is not None:
            s = dict(case['structs'][j])
            if v is not None:
                s['vals'] = [v]
            rd = {'structs': [s], 'no': 0, 'seed': case['seed'], 'cls': case.get('cls', 'c'),
                  'pack': case.get('pack'), 'via': case.get('via', 'inline'),
                  'part': case.get('part')}
        if mech.endswith('harness'):
            ctx.inconclusive(msg)
        else:
            ctx.violation(mech, msg, rd)


def replay_setup(ctx, case):
    _build_case(ctx, case, 'c02_replay')
    return None
