"""C02 -- bitfield reads/writes are range-exact, round-trip, isolated, and read
what C reads.

Shape: differential + byte-image monitor.  For every (type, width, position)
placement a struct `{ sentinel; T pad:k; T f:w; T tail:r; sentinel }` is declared
to cffi and compiled by gcc into accessor functions (get/set through C).  Each
store of a Python int is checked against the range model, the before/after
byte images under the field's storage mask (the mask is what a *C* store of
all-ones changes in a zeroed object), and the C getter.  UBSan/ASan reports
inside the backend are deciding (the statement is about exactly these bits).
"""
import os
from vlib import gen, cc, core

RULE = ("case = (integer type, width w in 1..8*sizeof, bit position) placement x Python int v "
        "(boundary lattice of the field range and of 64-bit limits, >64-bit magnitudes, random) "
        "on random initial storage; distinct = distinct (type,w,pos,v); non-trivial = w>1 or "
        "position>0 (every case writes/reads through the real backend and is compared with gcc's "
        "accessors)")
ASSUMPTIONS = ["gcc's bitfield allocation and its get/set code are the C view of the storage",
               "only the x86-64 gcc bitfield ABI branch of the backend is executed"]

BF_TYPES = [t for t in gen.INT_TYPES if t[0] in (
    'signed char', 'unsigned char', 'short', 'unsigned short', 'int', 'unsigned int', 'long',
    'unsigned long', 'long long', 'unsigned long long', 'int8_t', 'uint8_t', 'int16_t',
    'uint16_t', 'int32_t', 'uint32_t', 'int64_t', 'uint64_t')] + [('_Bool', 1, False)]


def field_range(T, signed, w):
    if T == '_Bool':
        return 0, 1
    if signed:
        return -(1 << (w - 1)), (1 << (w - 1)) - 1
    return 0, (1 << w) - 1


def values_for(rng, T, signed, w, nrand):
    lo, hi = field_range(T, signed, w)
    vals = set(gen.small_lattice(lo, hi))
    for k in (w - 2, w - 1, w, w + 1):
        if k >= 0:
            vals.update([(1 << k), (1 << k) - 1, -(1 << k), -(1 << k) - 1, -(1 << k) + 1])
    for _ in range(nrand):
        vals.add(rng.randint(lo, hi))
        vals.add(gen.rand_int(rng))
    return sorted(vals)


def generate(ctx):
    rng = ctx.rng('gen')
    structs = []
    npos = ctx.scale(3, 9)
    nrand = ctx.scale(6, 60)
    for (T, size, signed) in BF_TYPES:
        bits = 8 * size
        maxw = 1 if T == '_Bool' else bits
        for w in range(1, maxw + 1):
            room = (bits if T != '_Bool' else 8) - w
            poss = {0, room}
            while len(poss) < min(npos, room + 1):
                poss.add(rng.randint(0, room))
            for k in sorted(poss):
                tail = rng.choice([0, 0, 1, room - k]) if room - k > 0 else 0
                padT = T if T != '_Bool' else 'unsigned char'
                structs.append({'T': T, 'size': size, 'signed': signed, 'w': w, 'k': k,
                                'tail': tail, 'padT': padT,
                                'vals': values_for(rng, T, signed, w, nrand)})
    rng.shuffle(structs)
    per = 80
    cases = []
    for i in range(0, len(structs), per):
        cases.append({'structs': structs[i:i + per], 'no': len(cases),
                      'seed': rng.getrandbits(32)})
    # build one accessor .so per case with gcc
    import concurrent.futures as cf

    def build(case):
        src = []
        for j, s in enumerate(case['structs']):
            src.append(decl(s, j) + ';')
            rt = 'unsigned long long' if not s['signed'] else 'long long'
            src.append('%s get_%d(struct s%d *p) { return p->f; }' % (rt, j, j))
            src.append('void set_%d(struct s%d *p, long long v) { p->f = v; }' % (j, j))
            src.append('size_t size_%d(void) { return sizeof(struct s%d); }' % (j, j))
        so = cc.build_so(ctx.tmp, '\n'.join(src), 'c02_%d.so' % case['no'])
        case['so'] = so
    with cf.ThreadPoolExecutor(16) as ex:
        list(ex.map(build, cases))
    return None, cases


def decl(s, j):
    f = ['unsigned char s0[8];']
    if s['k']:
        f.append('%s pad:%d;' % (s['padT'] if s['T'] == '_Bool' else s['T'], s['k']))
    f.append('%s f:%d;' % (s['T'], s['w']))
    if s['tail']:
        f.append('%s tail:%d;' % (s['padT'] if s['T'] == '_Bool' else s['T'], s['tail']))
    f.append('unsigned char s1[8];')
    return 'struct s%d { %s }' % (j, ' '.join(f))


def child_setup(setup, wd):
    return {}


def child_case(st, case):
    import random
    from cffi import FFI
    ffi = FFI()
    cdef = []
    for j, s in enumerate(case['structs']):
        cdef.append(decl(s, j) + ';')
        rt = 'unsigned long long' if not s['signed'] else 'long long'
        cdef.append('%s get_%d(struct s%d *p);' % (rt, j, j))
        cdef.append('void set_%d(struct s%d *p, long long v);' % (j, j))
        cdef.append('size_t size_%d(void);' % j)
    ffi.cdef('\n'.join(cdef))
    lib = ffi.dlopen(case['so'])
    rnd = random.Random(case['seed'])
    bad = []
    n = 0
    stats = {'accepted': 0, 'rejected': 0, 'c_reads': 0}

    def report(mech, msg, j, v):
        if len(bad) < 30:
            bad.append([mech, msg, j, v])
    for j, s in enumerate(case['structs']):
        T, signed, w = s['T'], s['signed'], s['w']
        lo, hi = field_range(T, signed, w)
        size = ffi.sizeof('struct s%d' % j)
        if size != getattr(lib, 'size_%d' % j)():
            report('layout', 'sizeof(struct s%d)=%d but gcc %d: %s' % (
                j, size, getattr(lib, 'size_%d' % j)(), decl(s, j)), j, None)
            continue
        p = ffi.new('struct s%d *' % j)
        buf = ffi.buffer(p)
        getter = getattr(lib, 'get_%d' % j)
        setter = getattr(lib, 'set_%d' % j)
        # storage mask: what a C store of all-ones changes in a zeroed object
        setter(p, -1)
        mask = bytes(buf)
        buf[:] = b'\0' * size
        maskbits = sum(bin(b).count('1') for b in mask)
        if maskbits != w:
            report('harness', 'C mask has %d bits, width %d' % (maskbits, w), j, None)
            continue
        tag = '%s:%d@%d' % (T, w, s['k'])
        for v in s['vals']:
            n += 1
            init = bytes(rnd.getrandbits(8) for _ in range(size)) if rnd.random() < 0.8 \
                else (b'\xff' * size if rnd.random() < 0.5 else b'\0' * size)
            buf[:] = init
            cbefore = getter(p)
            try:
                p.f = v
                res = 'ok'
            except OverflowError:
                res = 'OverflowError'
            except Exception as e:
                res = type(e).__name__
            after = bytes(buf)
            inrange = lo <= v <= hi or (signed and w == 1 and v == 1 and T != '_Bool')
            if inrange:
                stats['accepted'] += 1
                if res != 'ok':
                    report('inrange-rejected', '%s: in-range value %d rejected with %s' %
                           (tag, v, res), j, v)
                    continue
                exp = -1 if (signed and w == 1 and v == 1) else v
                try:
                    got = p.f
                except Exception as e:
                    got = 'exc:' + type(e).__name__
                if got != exp:
                    report('readback', '%s: wrote %d, read back %r' % (tag, v, got), j, v)
                if T == '_Bool':
                    got = int(got) if isinstance(got, bool) else got
                cgot = getter(p)
                stats['c_reads'] += 1
                if cgot != exp:
                    report('c-read-differs', '%s: wrote %d, C reads %r' % (tag, v, cgot), j, v)
                for i in range(size):
                    if (after[i] ^ init[i]) & ~mask[i] & 0xff:
                        report('outside-bits-changed', '%s: store of %d changed bits outside '
                               'the field at byte %d: %02x -> %02x (mask %02x)' %
                               (tag, v, i, init[i], after[i], mask[i]), j, v)
                        break
            else:
                stats['rejected'] += 1
                if res == 'ok':
                    report('outofrange-accepted', '%s: out-of-range value %d accepted (reads %r)'
                           % (tag, v, p.f), j, v)
                elif res != 'OverflowError':
                    report('wrong-exception', '%s: out-of-range %d raised %s' % (tag, v, res),
                           j, v)
                if after != init:
                    report('rejected-store-changed-memory', '%s: rejected store of %d changed '
                           'memory' % (tag, v), j, v)
            # reading random storage: cffi's view == C's view
            buf[:] = init
            try:
                pv = p.f
            except Exception as e:
                pv = 'exc:' + type(e).__name__
            if pv != cbefore:
                report('read-differs-from-c', '%s: storage %s: cffi reads %r, C reads %r' %
                       (tag, init.hex(), pv, cbefore), j, None)
    return {'n': n, 'bad': bad, 'stats': stats}


def judge(ctx, setup, case, obs):
    for s in case['structs']:
        for v in s['vals']:
            ctx.case((s['T'], s['w'], s['k'], v), nontrivial=(s['w'] > 1 or s['k'] > 0))
        ctx.count('placements')
        if s['w'] == 8 * s['size']:
            ctx.count('full_width_fields')
    if len(ctx.samples) < 8:
        s = case['structs'][0]
        ctx.samples.append({'decl': decl(s, 0), 'values': s['vals'][:12]})
    for k, v in obs['stats'].items():
        ctx.count(k, v)
    for mech, msg, j, v in obs['bad']:
        rd = None
        if j is not None:
            s = dict(case['structs'][j])
            if v is not None:
                s['vals'] = [v]
            rd = {'structs': [s], 'no': 0, 'seed': case['seed']}
        if mech == 'harness':
            ctx.inconclusive(msg)
        else:
            ctx.violation(mech, msg, rd)


def replay_setup(ctx, case):
    src = []
    for j, s in enumerate(case['structs']):
        src.append(decl(s, j) + ';')
        rt = 'unsigned long long' if not s['signed'] else 'long long'
        src.append('%s get_%d(struct s%d *p) { return p->f; }' % (rt, j, j))
        src.append('void set_%d(struct s%d *p, long long v) { p->f = v; }' % (j, j))
        src.append('size_t size_%d(void) { return sizeof(struct s%d); }' % (j, j))
    case['so'] = cc.build_so(ctx.tmp, '\n'.join(src), 'c02_replay.so')
    return None
