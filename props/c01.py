"""C01 -- ABI-mode struct/union layout equals the C compiler's layout.

Differential oracle: one gcc probe per batch prints sizeof/_Alignof/offsetof
and, for each named bitfield, the byte image of a zeroed object after an
all-ones store (= the exact storage bits).  cffi side runs on the ASan/UBSan
backend.
"""
import os, json
from vlib import core, cc, gen_types as G

RULE = ("case = one struct/union declaration (1-12 members, nesting depth <= 3) over every "
        "primitive type, pointers, function pointers, 1-3-dim arrays, named and anonymous nested "
        "struct/union, bitfields of explicitly signed/unsigned integer types and _Bool (named, "
        "unnamed, zero-width, widths 0..width(type)), optional trailing flexible array, "
        "packed=True / pack=N when no bitfield; distinct = declaration text; non-trivial = >= 2 "
        "members and at least one of: bitfield, nested/anonymous aggregate, mixed alignments, "
        "packing, array")
ASSUMPTIONS = ["gcc (sysconfig CC) is the platform compiler; clang is consulted on the thorough tier and a gcc/clang disagreement makes the case inconclusive",
               "every aggregate has at least one named member (a struct of only unnamed bitfields is not ISO C)",
               "only the x86-64 SysV (gcc) bitfield ABI branch of the backend is executed"]


def gen_contexts(ctx, n):
    rng = ctx.rng('gen')
    out = []
    for i in range(n):
        g = G.Gen(rng, prefix='c%d_' % i)
        top = g.toplevel()
        out.append({'id': i, 'decls': g.decls, 'top': top['name']})
    return out


def probe_unit(c):
    decls = '\n'.join(G.render_decl_c(a) for a in c['decls'])
    st = []
    for a in c['decls']:
        tag = '%s %s' % (a['kind'], a['name'])
        st.append('printf("A %s %%zu %%zu\\n", sizeof(%s), (size_t)_Alignof(%s));' %
                  (a['name'], tag, tag))
        for path, f in G.named_paths(a):
            if f['bits'] is None:
                st.append('printf("O %s %s %%zu\\n", offsetof(%s, %s));' %
                          (a['name'], path, tag, path))
            else:
                st.append('{ static %s o; unsigned char *q = (unsigned char *)&o; size_t i; '
                          'memset(&o, 0, sizeof o); o.%s = -1; printf("B %s %s "); '
                          'for (i = 0; i < sizeof o; i++) printf("%%02x", q[i]); '
                          'printf("\\n"); }' % (tag, path, a['name'], path))
    return (c['id'], decls, '\n'.join(st))


def generate(ctx):
    n = ctx.scale(2500, 60000)
    ctxs = gen_contexts(ctx, n)
    units = [probe_unit(c) for c in ctxs]
    res = cc.batch_probe(ctx.tmp, units, batch=120)
    res2 = cc.batch_probe(ctx.tmp, units, cc='clang', batch=120) if ctx.thorough else None
    cases = []
    for c in ctxs:
        r = res[c['id']]
        if isinstance(r, dict):
            ctx.count('gcc_rejected_by_generator_bug')
            ctx.note('gcc rejected: %s :: %s' % (r['error'][-300:], probe_unit(c)[1][:300]))
            continue
        if res2 is not None and res2[c['id']] != r:
            ctx.count('gcc_clang_disagree_inconclusive')
            continue
        c['gcc'] = r
        cases.append(c)
    if ctx.counters.get('gcc_rejected_by_generator_bug', 0) > n // 50:
        raise core.Inconclusive('generator produces too many declarations gcc rejects')
    per = 60
    return None, [{'ctxs': cases[i:i + per]} for i in range(0, len(cases), per)]


def child_setup(setup, wd):
    return {}


def child_case(st, case):
    from cffi import FFI
    rep = core.ChildRep()
    for c in case['ctxs']:
        ffi = FFI()
        text = '\n'.join(G.render_decl_c(a) for a in c['decls'])
        ok = True
        hist = c['id'] % 3      # 0: plain; 1: forward-declared; 2: forward-declared and used
        for a in c['decls']:
            t, kw = G.render_decl_cffi(a)
            try:
                if hist:
                    # multi-step history: the aggregate is first only mentioned
                    # (and possibly used as an opaque type), completed later
                    tag = '%s %s' % (a['kind'], a['name'])
                    ffi.cdef(tag + ';')
                    if hist == 2:
                        ffi.typeof(tag + ' *')
                        ffi.new(tag + ' **')
                    rep.stat('completed_after_forward_declaration')
                ffi.cdef(t, **kw)
            except Exception as e:
                rep.bad('declaration-rejected', 'cdef rejected %r (%s): %s: %s' %
                        (t, kw, type(e).__name__, e), c['id'])
                ok = False
                break
        if not ok:
            continue
        facts = {}
        for line in c['gcc']:
            p = line.split()
            facts[(p[0], p[1], p[2] if p[0] != 'A' else '')] = p[2:] if p[0] == 'A' else p[3]
        top = [a for a in c['decls'] if a['name'] == c['top']][0]
        nontriv = len(top['fields']) >= 2
        rep.case(text, nontrivial=nontriv, sample={'decl': text[:400]})
        for a in c['decls']:
            tag = '%s %s' % (a['kind'], a['name'])
            rep.stat('aggregates')
            rep.stat('unions' if a['kind'] == 'union' else 'structs')
            if a['packed']:
                rep.stat('packed')
            if a['flex']:
                rep.stat('flexible_array')
            try:
                size, align = ffi.sizeof(tag), ffi.alignof(tag)
            except Exception as e:
                rep.bad('declaration-rejected', 'sizeof(%s) raised %s: %s :: %s' %
                        (tag, type(e).__name__, e, text[:300]), c['id'])
                continue
            gs, ga = [int(x) for x in facts[('A', a['name'], '')]]
            if (size, align) != (gs, ga):
                rep.bad('size-or-alignment', '%s: cffi sizeof=%d alignof=%d, gcc %d %d :: %s' %
                        (tag, size, align, gs, ga, text[:500]), c['id'])
                continue
            raw = None
            for path, f in G.named_paths(a):
                if f['bits'] is None:
                    rep.stat('offsets')
                    try:
                        off = ffi.offsetof(tag, path)
                    except Exception as e:
                        rep.bad('offsetof-raised', 'offsetof(%s, %s) raised %s :: %s' %
                                (tag, path, type(e).__name__, text[:300]), c['id'])
                        continue
                    go = int(facts[('O', a['name'], path)])
                    if off != go:
                        rep.bad('field-offset', '%s.%s: cffi offset %d, gcc %d :: %s' %
                                (tag, path, off, go, text[:500]), c['id'])
                else:
                    rep.stat('bitfields')
                    w = f['bits']
                    T = f['type']['name']
                    bits_of_T = dict(G.BF_TYPES)[T]
                    if w == bits_of_T:
                        rep.stat('full_width_bitfields')
                    raw = ffi.new('char[]', size + 8)
                    p = ffi.cast(tag + ' *', raw)
                    signed = not (T.startswith('u') or T == '_Bool')
                    v = -1 if signed else (1 if T == '_Bool' else (1 << w) - 1)
                    try:
                        setattr(p, path, v)
                    except Exception as e:
                        rep.bad('bitfield-store-raised', '%s.%s (%s:%d) = %d raised %s: %s' %
                                (tag, path, T, w, v, type(e).__name__, e), c['id'])
                        continue
                    img = bytes(ffi.buffer(raw, size)).hex()
                    gimg = facts[('B', a['name'], path)]
                    if img != gimg:
                        rep.bad('bitfield-storage-bits', '%s.%s (%s:%d): all-ones store image '
                                '%s, gcc %s :: %s' % (tag, path, T, w, img, gimg, text[:500]),
                                c['id'])
                    if bytes(ffi.buffer(raw, size + 8))[size:] != b'\0' * 8:
                        rep.bad('bitfield-store-outside-object', '%s.%s store wrote outside the '
                                'object' % (tag, path), c['id'])
            for f in a['fields']:
                if f['bits'] == 0:
                    rep.stat('zero_width_bitfields')
                elif f['bits'] is not None and not f['name']:
                    rep.stat('unnamed_bitfields')
                if f['type']['k'] == 'anon':
                    rep.stat('anonymous_members')
    return rep.result()


def judge(ctx, setup, case, obs):
    def rp(cid):
        return {'ctxs': [c for c in case['ctxs'] if c['id'] == cid]}
    core.absorb(ctx, case, obs, rp)
