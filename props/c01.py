"""C01 -- ABI-mode struct/union layout equals the C compiler's layout.

Differential oracle: one gcc probe per batch prints sizeof/_Alignof/offsetof
and, for each named bitfield, the byte image of a zeroed object after an
all-ones store (= the exact storage bits).  cffi side runs on the ASan/UBSan
backend.

Two populations of declarations: the shared generator vlib/gen_types.py
("base") and the extended generator below ("ext": Gen01), which adds the
input classes an audit found missing -- packing combined with nested /
anonymous / inline-defined aggregates, packed aggregates used as members,
aggregates reached through typedef names, several aggregates in one cdef(),
pointers to the aggregate itself / to enclosing / to never-completed
aggregates, aggregates first used as an array element, zero-length and large
arrays, more bitfield base type spellings, bitfield widths / array lengths
written as constant expressions, macros or enum constants, qualifiers, many
fields, deeper nesting, declaration through an included FFI.  Both
populations are queried in different orders (members first / containers
first) and through several entry points (type string, ctype object, tag and
typedef name, instance, CField descriptors, addressof), and every bitfield is
also read back and zero-stored.
"""
import os, json, sys
from vlib import core, cc, gen_types as G

RULE = ("case = one struct/union declaration with the aggregates it uses (1-12, sometimes 40 "
        "members, nesting depth <= 3, sometimes 5) over every "
        "primitive type, pointers (to primitives, to the aggregate itself, to enclosing, earlier "
        "and never-completed aggregates, to arrays), function pointers, 1-3-dim arrays (lengths "
        "0..300, and 2**16..2**32+1 in bitfield-free aggregates), named, anonymous and "
        "inline-defined nested "
        "struct/union, bitfields of explicitly signed/unsigned integer types and _Bool (named, "
        "unnamed, zero-width, widths 0..width(type); width and array length written as "
        "decimal/hex/octal/expression/#define/enum constant), "
        "optional trailing flexible array, "
        "packed=True / pack=N (1..16) when no bitfield, also with nested aggregates of the same "
        "or a different packing; declared by tag, typedef of an anonymous struct, typedef with "
        "tag, or forward typedef; one cdef() per aggregate or one for all, directly or through "
        "ffi.include(); after no / a forward / a used forward declaration; queried members "
        "first, containers first or shuffled; distinct = "
        "declaration text; non-trivial = >= 2 "
        "members and at least one of: bitfield, nested/anonymous aggregate, mixed alignments, "
        "packing, array")
ASSUMPTIONS = ["gcc (sysconfig CC) is the platform compiler; clang is consulted on the thorough tier and a gcc/clang disagreement makes the case inconclusive",
               "every aggregate has at least one named member of non-zero size (a struct of only unnamed bitfields or zero-length arrays is not ISO C; gcc gives it size 0)",
               "only the x86-64 SysV (gcc) bitfield ABI branch of the backend is executed",
               "zero-length arrays (T a[0], a GNU extension accepted by gcc, clang and cffi) count as arrays",
               "cffi's packed=True / pack=N applies to every aggregate defined in that cdef(), i.e. it is '#pragma pack(N)' around the cdef text",
               "the (offset, bitshift, bitsize) of a CField are read as little-endian bit positions (skipped on a big-endian host)"]

# bitfield base types: name -> (bits, signed)
BF_ALL = {}
for _n, _b in G.BF_TYPES:
    BF_ALL[_n] = (_b, not (_n.startswith('u') or _n == '_Bool'))
EXTRA_BF = [('size_t', 64, False), ('ssize_t', 64, True), ('intptr_t', 64, True),
            ('uintptr_t', 64, False), ('ptrdiff_t', 64, True), ('unsigned long int', 64, False),
            ('short int', 16, True), ('unsigned short int', 16, False), ('long int', 64, True),
            ('long long int', 64, True), ('unsigned long long int', 64, False),
            ('signed short', 16, True), ('signed long', 64, True), ('signed long long', 64, True),
            ('long unsigned', 64, False), ('signed short int', 16, True),
            ('int_least8_t', 8, True), ('uint_least8_t', 8, False), ('uint_least16_t', 16, False),
            ('int_least64_t', 64, True), ('int_fast8_t', 8, True), ('uint_fast8_t', 8, False),
            ('int_fast16_t', 64, True), ('uint_fast32_t', 64, False), ('int_fast64_t', 64, True),
            ('intmax_t', 64, True), ('uintmax_t', 64, False)]
for _n, _b, _s in EXTRA_BF:
    BF_ALL[_n] = (_b, _s)
BF_EXT_CHOICES = list(G.BF_TYPES) + [(n, b) for n, b, s in EXTRA_BF]


# ---------------------------------------------------------------------------
# rendering (superset of gen_types.render_*: 'ref', 'inline', 'q', 'wexpr')

def r_type(t, inner=''):
    k = t['k']
    if k == 'prim':
        q = t.get('q')
        return ((q + ' ' if q else '') + t['name'] + ' ' + inner).rstrip()
    if k == 'agg':
        if t.get('inline') is not None:
            return (r_body(t['inline']) + ' ' + inner).rstrip()
        return ((t.get('ref') or '%s %s' % (t['kind'], t['name'])) + ' ' + inner).rstrip()
    if k == 'anon':
        return (r_body(t['agg']) + ' ' + inner).rstrip()
    if k == 'ptr':
        to = t['to']
        q = t.get('q')
        inner = (q + ' ' + inner) if q else inner
        if to['k'] in ('array', 'fnptr'):
            return r_type(to, '(*%s)' % inner)
        return r_type(to, '*' + inner)
    if k == 'array':
        n = '' if t['n'] is None else str(t.get('nexpr') or t['n'])
        return r_type(t['of'], '%s[%s]' % (inner, n))
    if k == 'fnptr':
        ret, args, ell = t['sig']
        a = list(args)
        if ell:
            a = (a or ['int']) + ['...']
        return '%s (*%s)(%s)' % (ret, inner, ', '.join(a) or 'void')
    raise ValueError(k)


def r_field(f):
    if f['bits'] is not None:
        q = f['type'].get('q')
        return '%s%s %s : %s;' % (q + ' ' if q else '', f['type']['name'], f['name'],
                                  f.get('wexpr') or f['bits'])
    return r_type(f['type'], f['name']) + ';'


def r_body(agg, attr=''):
    name = agg['name'] or ''
    if agg.get('form') == 'typedef_anon':
        name = ''
    return '%s %s%s { %s }' % (agg['kind'], attr, name,
                               ' '.join(r_field(f) for f in agg['fields']))


def r_unit(agg, attr=''):
    form = agg.get('form', 'tag')
    if form == 'tag':
        return r_body(agg, attr) + ';'
    if form == 'typedef_anon':
        return 'typedef %s %s_t;' % (r_body(agg, attr), agg['name'])
    if form == 'typedef_tag':
        return 'typedef %s %s_t, *%s_p;' % (r_body(agg, attr), agg['name'], agg['name'])
    if form == 'typedef_fwd':
        return 'typedef %s %s %s_t; %s;' % (agg['kind'], agg['name'], agg['name'],
                                            r_body(agg, attr))
    raise ValueError(form)


def pack_c(text, packed, use_attr_text=None):
    """C text for a cdef text declared with cdef(packed=True) / cdef(pack=N)."""
    if not packed:
        return text
    if packed is True and use_attr_text is not None:
        return use_attr_text
    return '#pragma pack(push, %d)\n%s\n#pragma pack(pop)' % (1 if packed is True else packed,
                                                              text)


def pack_kw(packed):
    if packed is True:
        return {'packed': True}
    if packed:
        return {'pack': packed}
    return {}


def agg_ref(a):
    return a.get('ref') or '%s %s' % (a['kind'], a['name'])


def agg_tag(a):
    """'struct N' when the aggregate has a tag, else None."""
    if a.get('form') == 'typedef_anon' or not a['name']:
        return None
    return '%s %s' % (a['kind'], a['name'])


# ---------------------------------------------------------------------------
# extended generator

def sized(t):
    """False for zero-length / flexible arrays (and arrays of them)."""
    if t['k'] == 'array':
        return bool(t['n']) and sized(t['of'])
    return True


class Gen01(G.Gen):
    def __init__(self, rng, prefix, maxdepth=3, bitfields=True):
        G.Gen.__init__(self, rng, prefix=prefix)
        self.maxdepth = maxdepth
        self.bitfields = bitfields
        self.pickable = []       # completed aggregates usable by value in later units
        self.stack = []          # 'struct N' of the enclosing aggregates being generated
        self.feat = {}
        self.consts = []         # (name, value, 'define' | 'enum')

    def const(self, value):
        name = '%sK%d' % (self.prefix.upper(), len(self.consts) + 1)
        self.consts.append((name, value, self.rng.choice(['define', 'enum'])))
        self.note('width_or_length_from_macro_or_enum_constant')
        return name

    def preamble(self):
        lines = ['#define %s %d' % (n, v) for n, v, k in self.consts if k == 'define']
        en = ['%s = %d' % (n, v) for n, v, k in self.consts if k == 'enum']
        if en:
            lines.append('enum { %s };' % ', '.join(en))
        return ''.join(l + '\n' for l in lines)

    def note(self, name):
        self.feat[name] = self.feat.get(name, 0) + 1

    def qual(self, t, p=0.12):
        if self.rng.random() < p:
            t = dict(t)
            t['q'] = self.rng.choice(['const', 'volatile', 'const volatile'])
            self.note('qualified_fields')
        return t

    def agg_type(self, d):
        t = {'k': 'agg', 'name': d['name'], 'kind': d['kind']}
        form = d.get('form', 'tag')
        if form == 'typedef_anon' or (form != 'tag' and self.rng.random() < 0.6):
            t['ref'] = d['name'] + '_t'
            self.note('member_through_typedef_name')
        return t

    def pointer(self):
        rng = self.rng
        r = rng.random()
        tags = [s for s in self.stack if s]
        if r < 0.3:
            to = rng.choice([self.prim(), {'k': 'prim', 'name': 'void'},
                             {'k': 'ptr', 'to': self.prim()}])
        elif r < 0.5 and tags:
            # the aggregate being defined (or one that encloses / follows it)
            s = rng.choice([tags[-1], rng.choice(tags)])
            to = {'k': 'prim', 'name': s}
            if s == tags[-1]:
                self.note('pointer_to_self')
            else:
                self.note('pointer_to_enclosing_or_later_aggregate')
            if rng.random() < 0.3:
                to = {'k': 'ptr', 'to': to}
        elif r < 0.7 and self.pickable:
            d = rng.choice(self.pickable)
            if d.get('form') == 'typedef_tag' and rng.random() < 0.5:
                self.note('pointer_typedef_member')
                return {'k': 'prim', 'name': d['name'] + '_p'}
            to = self.agg_type(d)
            self.note('pointer_to_earlier_aggregate')
        elif r < 0.8:
            to = {'k': 'prim', 'name': 'struct %sopq' % self.prefix}
            self.note('pointer_to_never_completed_struct')
        elif r < 0.9:
            to = {'k': 'array', 'of': self.prim(), 'n': rng.choice([1, 3, 4])}
            self.note('pointer_to_array')
        else:
            to = self.prim()
        t = {'k': 'ptr', 'to': to}
        if rng.random() < 0.1:
            t['q'] = 'const'
        return t

    def simple_type(self, depth, allow_zero=True):
        rng = self.rng
        r = rng.random()
        if r < 0.42:
            return self.qual(self.prim())
        if r < 0.60:
            return self.pointer()
        if r < 0.65:
            return {'k': 'fnptr', 'sig': (rng.choice(['int', 'void', 'double', 'char *']),
                                          [rng.choice(['int', 'char', 'double', 'void *'])
                                           for _ in range(rng.randrange(0, 3))],
                                          rng.random() < 0.2)}
        if r < 0.83:
            t = self.simple_type(depth + 1, allow_zero) if depth < 2 else self.prim()
            if t['k'] == 'array' and t['n'] is None:
                t = self.prim()
            rr = rng.random()
            if rr < 0.08 and allow_zero:
                n = 0
                self.note('zero_length_arrays')
            elif rr < 0.2 and t['k'] != 'array':
                n = rng.choice([4, 8, 16, 17, 64, 300])
            else:
                n = rng.choice([1, 2, 3, 5, 7])
            t = {'k': 'array', 'of': t, 'n': n}
            rr = rng.random()
            if rr < 0.06:
                t['nexpr'] = self.const(n)
            elif rr < 0.12:
                t['nexpr'] = rng.choice(['0x%x' % n, '(%d+%d)' % (n, 0), '%d*1' % n])
                self.note('array_length_expression')
            return t
        if r < 0.95 and self.pickable:
            d = rng.choice(self.pickable)
            if not d.get('flex'):
                return self.agg_type(d)
        return self.prim()

    def bitfield(self, allow_unnamed=True):
        rng = self.rng
        T, bits = rng.choice(BF_EXT_CHOICES)
        r = rng.random()
        if T == '_Bool':
            w = rng.choice([1, 1, 0]) if allow_unnamed else 1
        elif r < 0.12 and allow_unnamed:
            w = 0
        elif r < 0.25:
            w = bits
        elif r < 0.4:
            w = rng.choice([1, bits - 1, bits // 2, bits // 2 + 1])
        else:
            w = rng.randint(1, bits)
        unnamed = w == 0 or (allow_unnamed and rng.random() < 0.12)
        f = {'name': '' if unnamed else None, 'type': {'k': 'prim', 'name': T}, 'bits': w}
        r = rng.random()
        if r < 0.08:
            f['wexpr'] = '0x%x' % w
        elif r < 0.16:
            f['wexpr'] = '0%o' % w
        elif r < 0.26:
            a = rng.randint(0, w)
            f['wexpr'] = rng.choice(['(%d+%d)' % (a, w - a), '%d + %d' % (a, w - a),
                                     '(%d-%d)' % (w + a, a), '(%d*1)' % w, '(%d<<1>>1)' % w])
        elif r < 0.34:
            f['wexpr'] = self.const(w)
        if 'wexpr' in f and not f['wexpr'].startswith(self.prefix.upper()):
            self.note('bitfield_width_expression')
        if not unnamed and rng.random() < 0.08:
            f['type']['q'] = 'volatile'
            self.note('qualified_fields')
        return f

    def aggregate(self, depth=0, anon=False, inline=False, allow_flex=True, maxfields=12):
        rng = self.rng
        kind = 'union' if rng.random() < 0.25 else 'struct'
        name = None if anon else self.fresh(kind)
        form = 'tag'
        if not anon and not inline and rng.random() < 0.45:
            form = rng.choice(['typedef_anon', 'typedef_tag', 'typedef_fwd'])
        agg = {'kind': kind, 'name': name, 'fields': [], 'packed': None, 'flex': False,
               'form': form}
        if form == 'typedef_anon':
            agg['ref'] = name + '_t'
        elif form != 'tag' and rng.random() < 0.5:
            agg['ref'] = name + '_t'
        self.stack.append(None if (anon or form == 'typedef_anon')
                          else '%s %s' % (kind, name))
        nf = rng.choice([1, 1, 2, 2, 3, 3, 4, 5, 6, 8, maxfields])
        bitmode = self.bitfields and rng.random() < 0.45
        fields = agg['fields']
        for i in range(nf):
            r = rng.random()
            if bitmode and r < 0.6:
                f = self.bitfield()
            elif depth < self.maxdepth and r > 0.9:
                sub = self.aggregate(depth + 1, anon=True, allow_flex=False, maxfields=4)
                f = {'name': '', 'type': {'k': 'anon', 'agg': sub}, 'bits': None}
            elif depth < self.maxdepth and r > 0.8:
                inl = rng.random() < 0.35
                sub = self.aggregate(depth + 1, inline=inl, allow_flex=False, maxfields=5)
                self.decls.append(sub)
                t = self.agg_type(sub)
                if inl:
                    sub['inline_in'] = True
                    t['inline'] = sub
                    self.note('inline_defined_members')
                else:
                    self.pickable.append(sub)
                f = {'name': None, 'type': t, 'bits': None}
            else:
                f = {'name': None, 'type': self.simple_type(depth), 'bits': None}
            fields.append(f)
        for f in fields:
            if f['name'] is None:
                self.fcount += 1
                f['name'] = 'f%d' % self.fcount
        # at least one named member of non-zero size
        if not any((f['name'] and (f['bits'] or (f['bits'] is None and sized(f['type']))))
                   or f['type']['k'] == 'anon' for f in fields):
            self.fcount += 1
            fields.append({'name': 'f%d' % self.fcount, 'type': self.prim(), 'bits': None})
        if allow_flex and kind == 'struct' and rng.random() < 0.12:
            if rng.random() < 0.5:
                el = self.prim()
            else:
                el = self.simple_type(1, allow_zero=False)
                if not sized(el):
                    el = self.prim()
                self.note('flexible_array_of_nonprimitive')
            fields.append({'name': 'flex%d' % self.count,
                           'type': {'k': 'array', 'of': el, 'n': None}, 'bits': None})
            agg['flex'] = True
        self.stack.pop()
        return agg

    def toplevel(self, **kw):
        a = self.aggregate(0, **kw)
        self.decls.append(a)
        self.pickable.append(a)
        return a


def unit_members(a):
    """the aggregates whose definition text is inside a's unit: a itself, its
    anonymous members and its inline-defined members, recursively."""
    out = [a]

    def walk(t):
        if t['k'] == 'anon':
            out.extend(unit_members(t['agg']))
        elif t['k'] == 'agg' and t.get('inline') is not None:
            out.extend(unit_members(t['inline']))
        elif t['k'] == 'array':
            walk(t['of'])
    for f in a['fields']:
        walk(f['type'])
    return out


def own_bitfields(a):
    return any(f['bits'] is not None for f in a['fields'])


PACKS = [True, True, 1, 2, 2, 4, 4, 8, 16]


def gen_ext_context(rng, i):
    mode_big = rng.random() < 0.06
    g = Gen01(rng, prefix='e%d_' % i, maxdepth=5 if rng.random() < 0.1 else 3,
              bitfields=not mode_big)
    for _ in range(rng.choice([0, 0, 1, 1, 2])):
        # earlier aggregates that are not members of anything yet: later ones may use
        # them first as an array element, a pointer target, a flexible-array element ...
        g.toplevel()
        g.note('independent_earlier_aggregates')
    top = g.toplevel(maxfields=40 if rng.random() < 0.06 else 12)
    if mode_big:
        # boundary sizes: offsets beyond 16/31/32 bits (bitfield-free, so no object is built)
        flds = top['fields']
        for _ in range(rng.choice([1, 1, 2])):
            g.fcount += 1
            pos = rng.randrange(0, len(flds) + (0 if top['flex'] else 1))
            flds.insert(pos, {'name': 'f%d' % g.fcount, 'bits': None,
                              'type': {'k': 'array', 'of': g.prim(),
                                       'n': rng.choice([65536, 65537, (1 << 31) - 1,
                                                        (1 << 31) + 5, (1 << 32) + 1])}})
        g.note('large_arrays')
    decls = g.decls
    byname = dict((d['name'], d) for d in decls)
    heads = [d for d in decls if not d.get('inline_in')]
    onecdef = rng.random() < 0.3 and len(heads) > 1
    # packing: one value per cdef() text, only when no bitfield is defined in that text
    if onecdef:
        members = [m for h in heads for m in unit_members(h)]
        pk = None
        if not any(own_bitfields(m) for m in members) and rng.random() < 0.5:
            pk = rng.choice(PACKS)
        for m in members:
            m['packed'] = pk
    else:
        for h in heads:
            members = unit_members(h)
            pk = None
            if not any(own_bitfields(m) for m in members) and rng.random() < 0.35:
                pk = rng.choice(PACKS)
            for m in members:
                m['packed'] = pk
    units = []
    for h in heads:
        text = r_unit(h)
        members = unit_members(h)
        attr_text = None
        if len(members) == 1 and rng.random() < 0.5:
            attr_text = r_unit(h, '__attribute__((packed)) ')
        units.append({'cffi': text, 'kw': pack_kw(h['packed']),
                      'c': pack_c(text, h['packed'], attr_text),
                      'fwd': [agg_tag(m) for m in members if m['name'] and agg_tag(m)]})
        if h['packed'] and len(members) > 1:
            g.note('packed_with_nested_definitions')
    pre = g.preamble()
    if pre:
        units[0]['cffi'] = pre + units[0]['cffi']
        units[0]['c'] = pre + units[0]['c']
    if onecdef:
        text = '\n'.join(u['cffi'] for u in units)
        pk = heads[0]['packed']
        units = [{'cffi': text, 'kw': pack_kw(pk), 'c': pack_c(text, pk),
                  'fwd': [t for u in units for t in u['fwd']]}]
        g.note('several_aggregates_in_one_cdef')
    for d in decls:
        if d['packed']:
            for f in d['fields']:
                t = f['type']
                while t['k'] == 'array':
                    t = t['of']
                if t['k'] in ('agg', 'anon'):
                    g.note('packed_with_aggregate_member')
                    break
        for f in d['fields']:
            t = f['type']
            while t['k'] == 'array':
                t = t['of']
            if t['k'] == 'agg' and byname.get(t['name'], {}).get('packed') and \
                    byname[t['name']]['packed'] != d['packed']:
                g.note('member_of_different_packing')
        if d.get('form', 'tag') != 'tag':
            g.note('declared_' + d['form'])
    inc = None
    if rng.random() < 0.18:
        # declared (partly) in another FFI that the querying FFI includes
        inc = rng.choice([len(units), rng.randint(0, len(units))])
    return {'id': 'e%d' % i, 'n': i, 'decls': decls, 'top': top['name'], 'units': units,
            'ext': True, 'feat': g.feat, 'inc': inc,
            'hist': rng.randrange(3), 'order': rng.choice(['members_first', 'containers_first',
                                                           'shuffled']),
            'oseed': rng.randrange(1 << 30)}


def gen_contexts(ctx, n):
    rng = ctx.rng('gen')
    out = []
    for i in range(n):
        g = G.Gen(rng, prefix='c%d_' % i)
        top = g.toplevel()
        units = []
        for a in g.decls:
            t, kw = G.render_decl_cffi(a)
            tag = '%s %s' % (a['kind'], a['name'])
            units.append({'cffi': t, 'kw': kw, 'c': G.render_decl_c(a), 'fwd': [tag]})
        out.append({'id': i, 'n': i, 'decls': g.decls, 'top': top['name'], 'units': units,
                    'hist': i % 3,
                    'order': ['members_first', 'containers_first', 'shuffled'][(i // 3) % 3],
                    'oseed': i})
    return out


def gen_ext_contexts(ctx, n):
    rng = ctx.rng('gen-ext')
    return [gen_ext_context(rng, i) for i in range(n)]


BIG = 1 << 20       # no object of a larger aggregate is built (neither by gcc nor by cffi)


def probe_unit(c):
    decls = '\n'.join(u['c'] for u in c['units'])
    st = []
    for a in c['decls']:
        tag = agg_ref(a)
        st.append('printf("A %s %%zu %%zu\\n", sizeof(%s), (size_t)_Alignof(%s));' %
                  (a['name'], tag, tag))
        for path, f in G.named_paths(a):
            if f['bits'] is None:
                st.append('printf("O %s %s %%zu\\n", offsetof(%s, %s));' %
                          (a['name'], path, tag, path))
            else:
                st.append('{ static %s o; unsigned char *q = (unsigned char *)&o; size_t i; '
                          'memset(&o, 0, sizeof o); o.%s = -1; printf("B %s %s "); '
                          'for (i = 0; i < sizeof o; i++) printf("%%02x", q[i]); '
                          'printf("\\n"); }' % (tag, path, a['name'], path))
    return (c['id'], decls, '\n'.join(st))


def generate(ctx):
    n = ctx.scale(1300, 30000)
    n2 = ctx.scale(700, 15000)
    ctxs = gen_contexts(ctx, n) + gen_ext_contexts(ctx, n2)
    units = [probe_unit(c) for c in ctxs]
    res = cc.batch_probe(ctx.tmp, units, batch=120)
    res2 = cc.batch_probe(ctx.tmp, units, cc='clang', batch=120) if ctx.thorough else None
    cases = []
    for c in ctxs:
        r = res[c['id']]
        if isinstance(r, dict):
            ctx.count('gcc_rejected_by_generator_bug')
            ctx.note('gcc rejected: %s :: %s' % (r['error'][-300:], probe_unit(c)[1][:300]))
            continue
        if res2 is not None and res2[c['id']] != r:
            ctx.count('gcc_clang_disagree_inconclusive')
            continue
        c['gcc'] = r
        cases.append(c)
    if ctx.counters.get('gcc_rejected_by_generator_bug', 0) > (n + n2) // 50:
        raise core.Inconclusive('generator produces too many declarations gcc rejects')
    per = 60
    return None, [{'ctxs': cases[i:i + per]} for i in range(0, len(cases), per)]


def child_setup(setup, wd):
    return {}


def child_case(st, case):
    import random
    from cffi import FFI
    rep = core.ChildRep()
    little = sys.byteorder == 'little'
    for c in case['ctxs']:
        ffi = FFI()
        text = '\n'.join(u['c'] for u in c['units'])
        hist = c['hist']        # 0: plain; 1: forward-declared; 2: forward-declared and used
        for k, v in c.get('feat', {}).items():
            rep.stat(k, v)
        rep.stat('ext_contexts' if c.get('ext') else 'base_contexts')
        inc = c.get('inc')
        if inc is None:
            steps = [(ffi, c['units'], hist)]
        else:
            # the first `inc` cdef texts go to another FFI that the querying one
            # includes.  That FFI builds backend types (hist == 2) only when it
            # defines everything: completing in one FFI a type that another FFI
            # has already built as opaque is a history outside this property.
            rep.stat('declared_through_ffi_include')
            if 0 < inc < len(c['units']):
                rep.stat('declared_partly_in_included_ffi')
            ffi1 = FFI()
            steps = [(ffi1, c['units'][:inc], hist if inc == len(c['units']) else min(hist, 1)),
                     (ffi, c['units'][inc:], hist)]
        err = None
        for si, (fx, units, h) in enumerate(steps):
            if inc is not None and si == 1:
                try:
                    ffi.include(ffi1)
                except Exception as e:
                    err = 'include() raised %s: %s' % (type(e).__name__, e)
                    break
            if h:
                # multi-step history: the aggregates are first only mentioned
                # (and possibly used as opaque types), completed later
                try:
                    tags = [tag for u in units for tag in u['fwd']]
                    if c.get('ext'):
                        # all mentioned in one cdef()
                        fx.cdef(' '.join(tag + ';' for tag in tags))
                    for tag in tags:
                        if not c.get('ext'):
                            fx.cdef(tag + ';')
                        if h == 2:
                            fx.new(tag + ' **')
                        rep.stat('completed_after_forward_declaration')
                except Exception as e:
                    err = 'forward declaration rejected: %s: %s' % (type(e).__name__, e)
                    break
            for u in units:
                try:
                    fx.cdef(u['cffi'], **u['kw'])
                    rep.stat('cdef_calls')
                except Exception as e:
                    err = 'cdef rejected %r (%s): %s: %s' % (u['cffi'], u['kw'],
                                                             type(e).__name__, e)
                    break
            if err:
                break
        if err:
            rep.bad('declaration-rejected', '%s :: %s' % (err, text[:400]), c['id'])
            continue
        facts = {}
        for line in c['gcc']:
            p = line.split()
            facts[(p[0], p[1], p[2] if p[0] != 'A' else '')] = p[2:] if p[0] == 'A' else p[3]
        top = [a for a in c['decls'] if a['name'] == c['top']][0]
        nontriv = len(top['fields']) >= 2
        rep.case(text, nontrivial=nontriv, sample={'decl': text[:400]})
        order = list(c['decls'])
        if c['order'] == 'containers_first':
            order.reverse()
        elif c['order'] == 'shuffled':
            random.Random(c['oseed']).shuffle(order)
        rep.stat('query_order_' + c['order'])
        for a in order:
            tag = agg_ref(a)
            rep.stat('aggregates')
            rep.stat('unions' if a['kind'] == 'union' else 'structs')
            if a['packed']:
                rep.stat('packed')
                rep.stat('packed_%s' % a['packed'])
            if a['flex']:
                rep.stat('flexible_array')
            try:
                size, align = ffi.sizeof(tag), ffi.alignof(tag)
            except Exception as e:
                rep.bad('declaration-rejected', 'sizeof(%s) raised %s: %s :: %s' %
                        (tag, type(e).__name__, e, text[:300]), c['id'])
                continue
            gs, ga = [int(x) for x in facts[('A', a['name'], '')]]
            if (size, align) != (gs, ga):
                rep.bad('size-or-alignment', '%s: cffi sizeof=%d alignof=%d, gcc %d %d :: %s' %
                        (tag, size, align, gs, ga, text[:500]), c['id'])
                continue
            # the same two numbers through the other entry points
            try:
                ct = ffi.typeof(tag)
                alt = [(ffi.sizeof(ct), ffi.alignof(ct))]
                stag = agg_tag(a)
                if stag and stag != tag:
                    alt.append((ffi.sizeof(stag), ffi.alignof(stag)))
                    rep.stat('queried_by_tag_and_typedef_name')
                inst = None
                pt = ffi.typeof(tag + ' *')
                if gs <= 65536:
                    inst = ffi.new(pt)
                    alt.append((ffi.sizeof(inst[0]), ffi.alignof(ffi.typeof(inst[0]))))
                    rep.stat('instances')
            except Exception as e:
                rep.bad('declaration-rejected', 'typeof/new(%s) raised %s: %s :: %s' %
                        (tag, type(e).__name__, e, text[:300]), c['id'])
                continue
            if any(x != (gs, ga) for x in alt):
                rep.bad('size-or-alignment:other-entry', '%s: (sizeof, alignof) through ctype / '
                        'tag / instance = %r, gcc %d %d :: %s' % (tag, alt, gs, ga, text[:500]),
                        c['id'])
            try:
                descr = dict(ct.fields)
            except Exception as e:
                rep.bad('declaration-rejected', 'typeof(%s).fields raised %s: %s :: %s' %
                        (tag, type(e).__name__, e, text[:300]), c['id'])
                descr = {}
            raw = None
            for path, f in G.named_paths(a):
                cf = descr.get(path)
                if f['bits'] is None:
                    rep.stat('offsets')
                    try:
                        off = ffi.offsetof(tag, path)
                    except Exception as e:
                        rep.bad('offsetof-raised', 'offsetof(%s, %s) raised %s :: %s' %
                                (tag, path, type(e).__name__, text[:300]), c['id'])
                        continue
                    go = int(facts[('O', a['name'], path)])
                    if off != go:
                        rep.bad('field-offset', '%s.%s: cffi offset %d, gcc %d :: %s' %
                                (tag, path, off, go, text[:500]), c['id'])
                        continue
                    if go >= 1 << 16:
                        rep.stat('offsets_beyond_16_bits')
                    if go >= 1 << 31:
                        rep.stat('offsets_beyond_31_bits')
                    if cf is not None:
                        rep.stat('field_descriptors')
                        if cf.offset != go or cf.bitsize != -1:
                            rep.bad('field-descriptor', '%s.%s: CField offset=%r bitsize=%r, gcc '
                                    'offset %d :: %s' % (tag, path, cf.offset, cf.bitsize, go,
                                                         text[:500]), c['id'])
                    if inst is not None:
                        rep.stat('addressof_offsets')
                        try:
                            d = int(ffi.cast('intptr_t', ffi.addressof(inst, path))) - \
                                int(ffi.cast('intptr_t', inst))
                        except Exception as e:
                            rep.bad('offsetof-raised', 'addressof(%s, %s) raised %s: %s :: %s' %
                                    (tag, path, type(e).__name__, e, text[:300]), c['id'])
                            continue
                        if d != go:
                            rep.bad('field-offset:addressof', '%s.%s: addressof gives offset %d,'
                                    ' gcc %d :: %s' % (tag, path, d, go, text[:500]), c['id'])
                else:
                    rep.stat('bitfields')
                    w = f['bits']
                    T = f['type']['name']
                    bits_of_T, signed = BF_ALL[T]
                    if w == bits_of_T:
                        rep.stat('full_width_bitfields')
                    if size > BIG:
                        rep.stat('bitfield_in_large_aggregate_skipped')
                        continue
                    raw = ffi.new('char[]', size + 8)
                    p = ffi.cast(pt, raw)
                    v = -1 if signed else (1 if T == '_Bool' else (1 << w) - 1)
                    try:
                        setattr(p, path, v)
                    except Exception as e:
                        rep.bad('bitfield-store-raised', '%s.%s (%s:%d) = %d raised %s: %s' %
                                (tag, path, T, w, v, type(e).__name__, e), c['id'])
                        continue
                    img = bytes(ffi.buffer(raw, size)).hex()
                    gimg = facts[('B', a['name'], path)]
                    if img != gimg:
                        rep.bad('bitfield-storage-bits', '%s.%s (%s:%d): all-ones store image '
                                '%s, gcc %s :: %s' % (tag, path, T, w, img, gimg, text[:500]),
                                c['id'])
                    if bytes(ffi.buffer(raw, size + 8))[size:] != b'\0' * 8:
                        rep.bad('bitfield-store-outside-object', '%s.%s store wrote outside the '
                                'object' % (tag, path), c['id'])
                    # the field as cffi describes it: the same bits
                    if cf is not None and little:
                        rep.stat('field_descriptors')
                        gbits = int.from_bytes(bytes.fromhex(gimg), 'little')
                        cbits = -1
                        if cf.bitsize >= 0 and cf.bitshift >= 0 and cf.offset >= 0:
                            cbits = ((1 << cf.bitsize) - 1) << (8 * cf.offset + cf.bitshift)
                        if cbits != gbits or cf.bitsize != w:
                            rep.bad('field-descriptor', '%s.%s (%s:%d): CField offset=%r '
                                    'bitshift=%r bitsize=%r is not the bit range gcc stores to '
                                    '(image %s) :: %s' % (tag, path, T, w, cf.offset, cf.bitshift,
                                                          cf.bitsize, gimg, text[:500]), c['id'])
                    # reading: all-ones from the compiler's image, 0 from its complement;
                    # a store of 0 into an all-ones object clears exactly those bits
                    rep.stat('bitfield_reads_and_zero_stores')
                    gb = bytes.fromhex(gimg)
                    inv = bytes(x ^ 0xFF for x in gb)
                    try:
                        ffi.buffer(raw, size)[:] = gb
                        r1 = getattr(p, path)
                        ffi.buffer(raw, size + 8)[:] = inv + b'\xff' * 8
                        r0 = getattr(p, path)
                    except Exception as e:
                        rep.bad('bitfield-read-raised', '%s.%s (%s:%d) read raised %s: %s' %
                                (tag, path, T, w, type(e).__name__, e), c['id'])
                        continue
                    if r1 != v or r0 != 0:
                        rep.bad('bitfield-read-bits', '%s.%s (%s:%d): reads %r from the image '
                                'gcc leaves after storing all-ones (%s) and %r from its '
                                'complement; expected %r and 0 :: %s' %
                                (tag, path, T, w, r1, gimg, r0, v, text[:500]), c['id'])
                    try:
                        ffi.buffer(raw, size + 8)[:] = b'\xff' * (size + 8)
                        setattr(p, path, 0)
                    except Exception as e:
                        rep.bad('bitfield-store-raised', '%s.%s (%s:%d) = 0 raised %s: %s' %
                                (tag, path, T, w, type(e).__name__, e), c['id'])
                        continue
                    got = bytes(ffi.buffer(raw, size + 8))
                    if got[:size] != inv:
                        rep.bad('bitfield-storage-bits:zero-store', '%s.%s (%s:%d): storing 0 '
                                'into an all-ones object leaves %s, the compiler\'s bits are %s '
                                ':: %s' % (tag, path, T, w, got[:size].hex(), gimg, text[:500]),
                                c['id'])
                    if got[size:] != b'\xff' * 8:
                        rep.bad('bitfield-store-outside-object', '%s.%s store wrote outside the '
                                'object' % (tag, path), c['id'])
            for f in a['fields']:
                if f['bits'] == 0:
                    rep.stat('zero_width_bitfields')
                elif f['bits'] is not None and not f['name']:
                    rep.stat('unnamed_bitfields')
                if f['type']['k'] == 'anon':
                    rep.stat('anonymous_members')
    return rep.result()


def judge(ctx, setup, case, obs):
    def rp(cid):
        return {'ctxs': [c for c in case['ctxs'] if c['id'] == cid]}
    core.absorb(ctx, case, obs, rp)
