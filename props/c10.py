"""C10 -- enum values and underlying integer type match the C compiler.

Differential oracle: gcc compiles every generated declaration and prints
sizeof(T), ((T)-1) < 0 and each enumerator.  The same text is given to cffi
in three ways (in-line FFI, emit_python_code() module, compiled API module)
and every enumerator, the size and signedness of the enum type are compared;
ffi.string() of enum cdata is compared with a small model (first declared name
of the value, else the decimal number) driven by gcc's facts.
"""
import os, sys, random, subprocess
from vlib import core, cc, modbuild

RULE = ("case = (one enum declaration, mode); a generated cdef holds 0-2 '#define' integer macros "
        "and 1-3 enums of 1-12 enumerators ('enum tag {..}', 'typedef enum {..} t', 'typedef enum "
        "tag {..} t', anonymous); enumerator = implicit | decimal/hex/octal/binary literal with any "
        "u/l suffix | -literal | +literal | character constant | earlier enumerator or macro X | "
        "-X | X+k | X-k | INT_MIN/LLONG_MIN written as -MAX - 1 (an implicit value never steps "
        "over 2**31, 2**32, 2**63, 2**64: gcc rejects an increment that overflows the type of the "
        "previous enumerator); values over the boundaries of "
        "int/unsigned/long/unsigned long (+-2), small and random k-bit numbers, 15% duplicates, "
        "in a regime s32/u32/s64/u64 that keeps the set inside one 64-bit type; modes: in-line "
        "(lib attribute of dlopen(None)), out-of-line ABI (lib attribute, integer_const), API "
        "(lib attribute, integer_const); per mode sizeof, signedness, ctype.elements/relements, "
        "ffi.string of every declared value, its neighbours, type limits and random (also "
        "wrapping) integers; distinct = (declaration text, mode); non-trivial = more than one "
        "enumerator or a non-zero value")
VARIANT = 'plain'
ASSUMPTIONS = ["gcc (-std=gnu11 for the probe, its default for API modules) is the C compiler; on "
               "the thorough tier a gcc/clang disagreement drops the declaration (counted)",
               "every literal has a C type without a diagnostic (no unsuffixed decimal above "
               "LLONG_MAX); X+k / -X only with int-valued operands and results",
               "an enumerator whose value already differs is not used to judge the enum's type "
               "or ffi.string, nor the enumerators derived from it (implicit successor, X, -X, "
               "X+k), nor a later failure to emit/build the same cdef (consequences of the same "
               "defect, counted)",
               "runs on the plain (gcc) backend: memory safety is not part of the statement"]

I31, I32, I63, I64 = 1 << 31, 1 << 32, 1 << 63, 1 << 64
REGIMES = {'s32': (-I31, I31 - 1), 'u32': (0, I32 - 1), 's64': (-I63, I63 - 1), 'u64': (0, I64 - 1)}
BOUND = sorted(set(b + d for b in (0, 1 << 7, 1 << 8, 1 << 15, 1 << 16, I31, -I31, I32, -I32, I63,
                                   -I63, I64) for d in (-2, -1, 0, 1, 2)))
SUFFIXES = ['u', 'U', 'l', 'L', 'ul', 'UL', 'lu', 'Lu', 'll', 'LL', 'ull', 'ULL', 'uLL', 'LLU']
ESCAPES = {'n': 10, 't': 9, '0': 0, 'r': 13, 'a': 7, 'b': 8, 'f': 12, 'v': 11}
SELF_ESCAPES = ['\\', "'", '"', '?']
KINDS = ['implicit'] * 12 + ['lit'] * 16 + ['neg'] * 6 + ['ref'] * 6 + ['refexpr'] * 3 + \
    ['plus', 'char', 'char', 'charesc', 'charesc-self', 'negref', 'negref', 'expr-min', 'expr-min']
MODES = ('inline', 'abi', 'api')


# ---------------------------------------------------------------- generator

def lit_type(v, base, suf):
    """C type (bits, unsigned) of an integer literal on LP64, None if it has none"""
    s = suf.lower()
    for bits, uns in ((32, False), (32, True), (64, False), (64, True)):
        if 'l' in s and bits == 32:
            continue
        if ('u' in s) != uns and ('u' in s or base == 10):
            continue
        if v < (1 << (bits - (0 if uns else 1))):
            return bits, uns
    return None


def render(rng, v, base):
    if base == 16:
        return rng.choice(['0x%x', '0x%X', '0X%x']) % v
    return {10: '%d' % v, 8: '0%o' % v, 2: '0b' + bin(v)[2:]}[base]


def pick(rng, lo, hi):
    r = rng.random()
    if r < 0.4:
        return rng.choice([b for b in BOUND if lo <= b <= hi])
    if r < 0.7:
        return max(lo, min(hi, rng.randint(-50, 300)))
    v = rng.getrandbits(rng.choice([8, 16, 31, 32, 33, 48, 63, 64]))
    return max(lo, min(hi, -v if rng.random() < 0.5 else v))


def literal(rng, m):
    """a literal of magnitude m: (text, kind, (bits, unsigned)) or None"""
    base = rng.choice([10, 10, 10, 16, 16, 8, 2])
    suf = rng.choice(SUFFIXES) if rng.random() < 0.25 else ''
    t = lit_type(m, base, suf)
    if t is None:
        return None
    kind = 'suffixed' if suf else {10: 'dec', 16: 'hex', 8: 'oct', 2: 'bin'}[base]
    return render(rng, m, base) + suf, kind, t


def enumerator(rng, lo, hi, prev, pool, dup):
    """-> (expression or None, kind, value according to C, name referred to or None)"""
    for _ in range(200):
        k = rng.choice(KINDS)
        r = None
        if k == 'implicit':
            # an increment that leaves the C type of the previous enumerator is an error in C
            if prev is None or prev + 1 not in (I31, I32, I63, I64):
                r = (None, k, 0 if prev is None else prev + 1)
        elif k in ('lit', 'plus'):
            m = dup if dup is not None and dup >= 0 else pick(rng, max(lo, 0), hi)
            l = literal(rng, m)
            if l:
                r = (l[0], l[1], m) if k == 'lit' else ('+' + l[0], 'plus', m)
        elif k == 'neg':
            m = -dup if dup is not None and dup < 0 else abs(pick(rng, -I64 + 1, I64 - 1))
            l = literal(rng, m)
            if l and l[2][1]:        # unsigned operand: C negates modulo 2**bits
                r = ('-' + l[0], 'neg-unsigned-literal', (-m) % (1 << l[2][0]))
            elif l:
                r = ('-' + l[0], 'neg', -m)
        elif k == 'char':
            ch = rng.choice([c for c in map(chr, range(32, 127)) if c not in "'\\"])
            r = ("'%s'" % ch, k, ord(ch))
        elif k == 'charesc':
            ch = rng.choice(sorted(ESCAPES))
            r = ("'\\%s'" % ch, k, ESCAPES[ch])
        elif k == 'charesc-self':
            ch = rng.choice(SELF_ESCAPES)
            r = ("'\\%s'" % ch, k, ord(ch))
        elif k == 'expr-min':
            r = rng.choice([('-2147483647 - 1', k, -I31), ('-9223372036854775807 - 1', k, -I63),
                            ('-0x7fffffffffffffffL - 1', k, -I63), ('-2147483647-1', k, -I31)])
        elif pool:
            name, v = rng.choice(pool)
            if k == 'ref':
                r = (name, k, v, name)
            elif abs(v) < I31 - 1000:
                if k == 'negref':
                    r = ('-' + name, k, -v, name)
                else:
                    d = rng.randint(1, 100)
                    r = ('%s + %d' % (name, d), k, v + d, name) if rng.random() < 0.5 else \
                        ('%s - %d' % (name, d), k, v - d, name)
        if r is not None and lo <= r[2] <= hi:
            return r if len(r) == 4 else r + (None,)
    return ('0', 'dec', 0, None)


def gen_context(i, seed):
    rng = random.Random(seed)
    p = 'c%d_' % i
    lines, pool, enums = [], [], []
    for j in range(rng.choice([0, 0, 1, 2])):
        v = pick(rng, -I63 + 1, I64 - 1)
        text = '%d' % v if v < I63 and rng.random() < 0.6 else ('0x%x' % v if v >= 0 else '%d' % v)
        lines.append('#define %sK%d %s' % (p, j, text))
        pool.append((p + 'K%d' % j, v))
    for j in range(rng.choice([1, 1, 2, 3])):
        regime = rng.choice(['s32', 's32', 'u32', 'u32', 's64', 's64', 'u64'])
        lo, hi = REGIMES[regime]
        n = min(rng.randint(1, 12), rng.randint(1, 14))
        names, exprs, kinds, vals, refs = [], [], [], [], []
        own = []
        for k in range(n):
            dup = rng.choice(vals) if vals and rng.random() < 0.15 else None
            r = enumerator(rng, lo, hi, vals[-1] if vals else None, pool + own, dup)
            name = '%sE%d_%d' % (p, j, k)
            names.append(name); exprs.append(r[0]); kinds.append(r[1]); vals.append(r[2])
            refs.append(r[3])
            own.append((name, r[2]))
        body = ', '.join(nm if ex is None else '%s = %s' % (nm, ex) for nm, ex in zip(names, exprs))
        if rng.random() < 0.2:
            body += ','
        form = rng.choice(['tag', 'tag', 'typedef', 'typedef-tag', 'anon'])
        tag, td = '%se%d' % (p, j), '%st%d' % (p, j)
        if form == 'tag':
            decl, T = 'enum %s { %s };' % (tag, body), 'enum ' + tag
        elif form == 'typedef':
            decl, T = 'typedef enum { %s } %s;' % (body, td), td
        elif form == 'typedef-tag':
            decl, T = 'typedef enum %s { %s } %s;' % (tag, body, td), rng.choice(['enum ' + tag, td])
        else:
            decl, T = 'enum { %s };' % body, None
        lines.append(decl)
        pool += own
        enums.append({'decl': decl, 'type': T, 'form': form, 'regime': regime, 'names': names,
                      'kinds': kinds, 'vals': vals, 'refs': refs})
    return {'id': i, 'seed': seed, 'text': '\n'.join(lines) + '\n', 'enums': enums}


# ---------------------------------------------------------------- gcc oracle

def probe_unit(c):
    st = []
    for j, e in enumerate(c['enums']):
        if e['type']:
            st.append('printf("T %d %%zu %%d\\n", sizeof(%s), ((%s)-1) < 0);' %
                      (j, e['type'], e['type']))
        for n in e['names']:
            st.append('printf("V %d %%d %%llu\\n", (%s) < 0, (unsigned long long)(%s));' %
                      (j, n, n))
    return (c['id'], c['text'], '\n'.join(st))


def facts(c, lines):
    out = [{'size': None, 'signed': None, 'values': []} for e in c['enums']]
    for line in lines:
        p = line.split()
        g = out[int(p[1])]
        if p[0] == 'T':
            g['size'], g['signed'] = int(p[2]), p[3] == '1'
        else:
            g['values'].append(int(p[3]) - I64 if p[2] == '1' else int(p[3]))
    return out


def oracle(ctx, ctxs):
    units = [probe_unit(c) for c in ctxs]
    res = cc.batch_probe(ctx.tmp, units, batch=100)
    res2 = cc.batch_probe(ctx.tmp, units, cc='clang', batch=100) if ctx.thorough else None
    out = []
    for c in ctxs:
        r = res[c['id']]
        if isinstance(r, dict):
            ctx.count('gcc_rejected_generated_declaration')
            ctx.note('gcc rejected: %s :: %s' % (r['error'][-300:], c['text'][:300]))
            continue
        if res2 is not None and res2[c['id']] != r:
            ctx.count('gcc_clang_disagree_dropped')
            continue
        for e, g in zip(c['enums'], facts(c, r)):
            e['gcc'] = g
            if g['values'] != e['vals']:
                ctx.count('generator_value_model_differs_from_gcc')
                ctx.note('generator expected %r, gcc says %r: %s' % (e['vals'], g['values'],
                                                                     e['decl']))
        out.append(c)
    if len(out) < len(ctxs) * 0.98:
        raise core.Inconclusive('generator produces too many declarations gcc rejects')
    return out


# ---------------------------------------------------------------- API modules

def screen(ctx, ctxs):
    """{id: message} of the cdefs that the recompiler itself rejects (run alone,
    nothing compiled), so that they do not take a whole compiled module down"""
    per = max(10, (len(ctxs) + 7) // 8)
    cases = [{'screen': [[c['id'], c['text']] for c in ctxs[i:i + per]]}
             for i in range(0, len(ctxs), per)]
    failed = {}
    for o in core.run_cases(ctx, 'c10', None, cases, variant=VARIANT, nproc=8, timeout=300):
        if not isinstance(o, dict) or 'failed' not in o:
            raise core.Inconclusive('screening of the API cdefs failed: %r' % (o,))
        failed.update((int(k), v) for k, v in o['failed'].items())
    return failed


def child_screen(case):
    import io, traceback
    from cffi import FFI
    failed = {}
    for cid, text in case['screen']:
        try:
            ffi = FFI()
            ffi.cdef(text)
            ffi.set_source('_c10screen', text)
            ffi.emit_c_code(io.StringIO())
        except Exception:
            failed[cid] = traceback.format_exc()[-700:]
    return {'failed': failed}


def build_api(ctx, cases, failed, tag=''):
    """one compiled module per case, without the cdefs in `failed`; a module that
    fails to build is bisected down to the single cdef that causes it"""
    d = os.path.join(ctx.tmp, 'api')
    todo = []
    for case in cases:
        case['api'] = [{'ids': [c['id']], 'error': failed[c['id']]} for c in case['ctxs']
                       if c['id'] in failed]
        cs = [c for c in case['ctxs'] if c['id'] not in failed]
        if cs:
            todo.append((case, cs, '_c10api%s_%d' % (tag, case['no'])))
    while todo:
        specs = []
        for case, cs, name in todo:
            text = ''.join(c['text'] for c in cs)
            specs.append({'name': name, 'kind': 'api', 'cdef': text, 'source': text, 'dir': d})
        try:
            res = modbuild.build_modules(ctx, specs, cflags='-O0 -g0')
        except subprocess.TimeoutExpired:
            raise core.Inconclusive('API module build timed out')
        nxt = []
        for case, cs, name in todo:
            r = res[name]
            if r['ok']:
                ctx.count('api_modules_compiled')
                case['api'].append({'dir': d, 'name': name, 'ids': [c['id'] for c in cs]})
            elif len(cs) == 1:
                case['api'].append({'ids': [cs[0]['id']],
                                    'error': (r['error'] + r.get('log', ''))[-1200:]})
            else:
                ctx.count('api_modules_failed_and_bisected')
                h = len(cs) // 2
                nxt += [(case, cs[:h], name + 'a'), (case, cs[h:], name + 'b')]
        todo = nxt


def generate(ctx):
    import concurrent.futures as cf
    rng = ctx.rng('gen')
    n = ctx.scale(400, 10000)
    ctxs = [gen_context(i, rng.getrandbits(48)) for i in range(n)]
    ctx.tmp
    with cf.ThreadPoolExecutor(2) as ex:       # gcc oracle and recompiler screening side by side
        fo, fs = ex.submit(oracle, ctx, ctxs), ex.submit(screen, ctx, ctxs)
        ctxs, failed = fo.result(), fs.result()
    ctx.count('cdefs_rejected_by_the_recompiler_in_api_mode', len(failed))
    per = ctx.scale(25, 200)     # a compile costs about 2 s whatever the size
    cases = [{'no': i // per, 'ctxs': ctxs[i:i + per]} for i in range(0, len(ctxs), per)]
    build_api(ctx, cases, failed)
    return None, cases


def replay_setup(ctx, case):
    case['no'] = case.get('no', 0)
    build_api(ctx, [case], screen(ctx, case['ctxs']), tag='r')
    return None


# ---------------------------------------------------------------- child

def child_setup(setup, wd):
    import warnings
    warnings.simplefilter('ignore')
    sys.path.insert(0, wd)
    return {'wd': wd}


def model_string(names, values, bits, signed, v):
    v &= (1 << bits) - 1
    if signed and v >> (bits - 1):
        v -= 1 << bits
    for n, x in zip(names, values):
        if x == v:
            return n
    return str(v)


def open_mode(mode, c, st, mods):
    """-> (ffi, [(label, getter of an enumerator)])"""
    import importlib
    from cffi import FFI
    if mode == 'inline':
        ffi = FFI()
        ffi.cdef(c['text'])
        lib = ffi.dlopen(None)
        return ffi, [('lib', lambda n: getattr(lib, n))]
    if mode == 'abi':
        fb = FFI()
        fb.cdef(c['text'])
        name = '_c10abi_%d' % c['id']
        fb.set_source(name, None)
        path = os.path.join(st['wd'], name + '.py')
        fb.emit_python_code(path)
        sys.modules.pop(name, None)
        importlib.invalidate_caches()
        ffi = importlib.import_module(name).ffi
        os.unlink(path)
        lib = ffi.dlopen(None)
    else:
        m = mods[c['id']]
        ffi, lib = m.ffi, m.lib
    return ffi, [('lib', lambda n: getattr(lib, n)), ('integer_const', ffi.integer_const)]


def check_enum(rep, mode, ffi, getters, c, e, bad, taint):
    """taint: names of this cdef whose value is already known to differ (here or
    earlier); what is derived from them (implicit successor, X, -X, X+k) is a
    consequence and is not judged"""
    g = e['gcc']
    names, gvals = e['names'], g['values']
    ok = True
    for idx, (n, k, gv) in enumerate(zip(names, e['kinds'], gvals)):
        if e['refs'][idx] in taint or (k == 'implicit' and idx and names[idx - 1] in taint):
            rep.stat('enumerators_derived_from_a_mismatch_not_judged')
            taint.add(n)
            ok = False
            continue
        for label, get in getters:
            rep.stat('enumerators_' + mode)
            try:
                v = get(n)
            except Exception as ex:
                bad('enumerator-raised:%s:%s' % (k, mode), '%s (%s) %s raised %s: %s; gcc: %d' %
                    (n, label, mode, type(ex).__name__, str(ex)[:200], gv), e)
            else:
                if v == gv and type(v) is int:
                    continue
                bad('enumerator-value:%s:%s' % (k, mode), '%s (%s) %s = %r, gcc: %d' %
                    (n, label, mode, v, gv), e)
            taint.add(n)
            ok = False
            break
    T = e['type']
    if not ok or T is None:
        rep.stat('enums_values_only')
        return
    size, signed = ffi.sizeof(T), int(ffi.cast(T, -1)) < 0
    if size != g['size']:
        bad('sizeof:' + mode, 'sizeof(%s) %s = %d, gcc: %d' % (T, mode, size, g['size']), e)
    if signed != g['signed']:
        bad('signedness:' + mode, '%s %s is %s, gcc: %s' %
            (T, mode, 'signed' if signed else 'unsigned', 'signed' if g['signed'] else 'unsigned'), e)
    if (size, signed) != (g['size'], g['signed']):
        return
    rep.stat('underlying_%s%d' % ('s' if signed else 'u', size * 8))
    bits = size * 8
    tp = ffi.typeof(T)
    first = {}
    for n, v in zip(names, gvals):
        first.setdefault(v, n)
    if tp.relements != dict(zip(names, gvals)):
        bad('ctype-relements:' + mode, '%s.relements = %r' % (T, tp.relements), e)
    if tp.elements != first:
        bad('ctype-elements:' + mode, '%s.elements = %r, expected %r' % (T, tp.elements, first), e)
    rnd = random.Random(c['seed'] ^ len(names))
    lo, hi = (-(1 << (bits - 1)), (1 << (bits - 1)) - 1) if signed else (0, (1 << bits) - 1)
    probes = set(gvals)
    for v in gvals:
        probes.update(x for x in (v - 1, v + 1) if lo <= x <= hi)
    probes.update([lo, hi, 0, -1, lo - 1, hi + 1, rnd.randint(lo, hi), rnd.randint(-I63, I64 - 1),
                   rnd.randint(-300, 300)])
    for v in sorted(probes):
        want = model_string(names, gvals, bits, signed, v)
        declared = want in names
        rep.stat('strings_declared' if declared else 'strings_undeclared')
        if declared and len([x for x in gvals if x == e['gcc']['values'][names.index(want)]]) > 1:
            rep.stat('strings_of_duplicated_value')
        try:
            got = ffi.string(ffi.cast(T, v))
        except Exception as ex:
            got = 'raised %s: %s' % (type(ex).__name__, ex)
        if got != want:
            same = declared and got in names and gvals[names.index(got)] == gvals[names.index(want)]
            bad(('string-not-first-name:' if same else 'string-declared:' if declared else
                 'string-undeclared:') + mode, 'ffi.string(ffi.cast(%r, %d)) %s = %r, expected %r'
                % (T, v, mode, got, want), e)


def child_case(st, case):
    import importlib
    if 'screen' in case:
        return child_screen(case)
    rep = core.ChildRep()
    mods, api_err = {}, {}
    for a in case['api']:
        if 'error' in a:
            api_err[a['ids'][0]] = a['error']
            continue
        if a['dir'] not in sys.path:
            sys.path.insert(0, a['dir'])
        m = importlib.import_module(a['name'])
        for i in a['ids']:
            mods[i] = m
    for c in case['ctxs']:
        def bad(mech, msg, e, c=c):
            rep.bad(mech, '%s :: %s' % (msg, e['decl'] if e else c['text']), c['id'])
        rep.stat('cdefs')
        inline_taint = None
        for mode in MODES:
            taint = set()
            try:
                if mode == 'api' and c['id'] in api_err:
                    raise RuntimeError('the API module does not build: ' + api_err[c['id']])
                ffi, getters = open_mode(mode, c, st, mods)
            except Exception as ex:
                import traceback
                if inline_taint:      # the wrong value is already reported; this follows from it
                    rep.stat('setup_failures_after_value_mismatch_' + mode)
                else:
                    bad('setup-raised:%s:%s' % (mode, type(ex).__name__),
                        traceback.format_exc()[-600:], None)
                continue
            for e in c['enums']:
                vs = e['gcc']['values']
                rep.case((e['decl'], mode), nontrivial=len(vs) > 1 or vs[0] != 0,
                         sample={'decl': e['decl'][:300], 'mode': mode})
                rep.stat('enums_' + mode)
                if mode == 'inline':
                    rep.stat('form_' + e['form'])
                    rep.stat('regime_' + e['regime'])
                    for k in e['kinds']:
                        rep.stat('kind_' + k)
                    if len(set(vs)) < len(vs):
                        rep.stat('enums_with_duplicate_values')
                try:
                    check_enum(rep, mode, ffi, getters, c, e, bad, taint)
                except Exception as ex:
                    import traceback
                    bad('check-raised:%s:%s' % (mode, type(ex).__name__),
                        traceback.format_exc()[-600:], e)
            if mode == 'inline':
                inline_taint = taint
    return rep.result()


def judge(ctx, setup, case, obs):
    core.absorb(ctx, case, obs, lambda cid: {
        'no': case['no'], 'ctxs': [c for c in case['ctxs'] if c['id'] == cid], 'api': []})
