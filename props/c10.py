"""C10 -- enum values and underlying integer type match the C compiler.

Differential oracle: gcc compiles every generated declaration and prints
sizeof(T), ((T)-1) < 0 and each enumerator.  The same text is given to cffi
in three ways (in-line FFI, emit_python_code() module, compiled API module)
and every enumerator, the size and signedness of the enum type are compared;
ffi.string() of enum cdata is compared with a small model (first declared name
of the value, else the decimal number) driven by gcc's facts.

Besides the plain pass of the three modes every cdef of two or more
declarations gets one 'history' pass: the same declarations reach the ffi in
two steps (a second cdef() after the library object exists and was used, or
ffi.include() of an FFI that holds the first part, in-line and out-of-line
ABI).
"""
import os, sys, random, subprocess
from vlib import core, cc, modbuild

RULE = ("case = (one enum declaration, mode or history variant); a generated cdef holds 0-2 "
        "'#define' integer macros and 1-3 enums of 1-12 enumerators (2.5%: 13-400 enumerators, so "
        "that the list of names is longer than one, two, many source lines of the generated "
        "module), forms 'enum tag {..}', 'typedef enum {..} t', 'typedef enum tag {..} t' (both "
        "names judged), anonymous, 'enum tag {..}' + 'typedef enum tag a; typedef a b;', an enum "
        "declared as the type of a struct field (tagged, or anonymous: then the type is reached "
        "through typeof(struct).fields only); names 'cN_Ej_k' or varied (1-60 characters, names "
        "that are prefixes of each other, tag equal to an enumerator name); enumerator = implicit "
        "| decimal/hex/octal/binary literal with any "
        "u/l suffix | -literal | +literal | character constant (also '\\1'..'\\7') | earlier "
        "enumerator or macro X | -X | X+k | X-k | INT_MIN/LLONG_MIN written as -MAX - 1 | an "
        "expression tree of depth <= 3 over * / % << >> & | ^ + - unary-minus and parentheses "
        "(minimal or redundant, with or without blanks) whose leaves are int literals and "
        "int-valued X and whose every intermediate value is an int (negative operands of / % >> "
        "included) (an implicit value never steps "
        "over 2**31, 2**32, 2**63, 2**64: gcc rejects an increment that overflows the type of the "
        "previous enumerator); values over the boundaries of "
        "int/unsigned/long/unsigned long (+-2), small and random k-bit numbers, 15% duplicates, "
        "in a regime s32/u32/s64/u64 that keeps the set inside one 64-bit type; modes: in-line "
        "(lib attribute of dlopen(None)), out-of-line ABI (lib attribute, integer_const), API "
        "(lib attribute, integer_const); history variants (one per cdef of >= 2 declarations): "
        "in-line with the declarations after a random split point given to a second cdef() once "
        "the lib object exists and the first part was used; in-line and out-of-line ABI with the "
        "first part in another FFI that is ffi.include()d; for half of the cdefs the enum ctypes "
        "are realized before the first enumerator is read; per mode sizeof, signedness, "
        "ctype.elements/relements (through every way of naming the type), "
        "ffi.string of every declared value, its neighbours, type limits and random (also "
        "wrapping) integers, of enum cdata cast from another cdata; ffi.sizeof('char[X]') for up "
        "to 3 enumerators X with 0 <= X < 2**62; distinct = (declaration text, mode/variant); "
        "non-trivial = more than one enumerator or a non-zero value")
VARIANT = 'plain'
ASSUMPTIONS = ["gcc (-std=gnu11 for the probe, its default for API modules) is the C compiler; on "
               "the thorough tier a gcc/clang disagreement drops the declaration (counted)",
               "every literal has a C type without a diagnostic (no unsuffixed decimal above "
               "LLONG_MAX); X+k / -X and the operator expressions only with int-valued operands "
               "and results, shift counts 0..30, no left shift of a negative number, no division "
               "by zero (everything else is typed arithmetic that cffi's parser documents not to "
               "model, see the known finding); no operand of an operator expression is, or derives "
               "from, the negation of an unsigned literal (the known finding: with cffi's value of "
               "it a division or shift by it makes the whole cdef() fail)",
               "an enumerator whose value already differs is not used to judge the enum's type "
               "or ffi.string, nor the enumerators derived from it (implicit successor, X, -X, "
               "X+k, expressions), nor a later failure to emit/build the same cdef "
               "(consequences of the same defect, counted)",
               "a history variant reports under the mechanism of its base mode (in-line / abi): "
               "the way the declarations reached the ffi is part of the message",
               "ffi.include() is exercised in-line and out-of-line ABI only (an API pair of "
               "modules re-emits the included enum in the including module)",
               "runs on the plain (gcc) backend: memory safety is not part of the statement"]

I31, I32, I63, I64 = 1 << 31, 1 << 32, 1 << 63, 1 << 64
REGIMES = {'s32': (-I31, I31 - 1), 'u32': (0, I32 - 1), 's64': (-I63, I63 - 1), 'u64': (0, I64 - 1)}
BOUND = sorted(set(b + d for b in (0, 1 << 7, 1 << 8, 1 << 15, 1 << 16, I31, -I31, I32, -I32, I63,
                                   -I63, I64) for d in (-2, -1, 0, 1, 2)))
SUFFIXES = ['u', 'U', 'l', 'L', 'ul', 'UL', 'lu', 'Lu', 'll', 'LL', 'ull', 'ULL', 'uLL', 'LLU']
ESCAPES = {'n': 10, 't': 9, '0': 0, 'r': 13, 'a': 7, 'b': 8, 'f': 12, 'v': 11}
SELF_ESCAPES = ['\\', "'", '"', '?']
KINDS = ['implicit'] * 12 + ['lit'] * 16 + ['neg'] * 6 + ['ref'] * 6 + ['refexpr'] * 3 + \
    ['plus', 'char', 'char', 'charesc', 'charesc-self', 'negref', 'negref', 'expr-min', 'expr-min'] + \
    ['binop'] * 9 + ['charesc-octal']
MODES = ('inline', 'abi', 'api')
VARIANTS = ('inline-incremental', 'inline-include', 'abi-include')
OPS = {'*': ('mul', 10), '/': ('div', 10), '%': ('mod', 10), '+': ('add', 9), '-': ('sub', 9),
       '<<': ('shl', 8), '>>': ('shr', 8), '&': ('and', 7), '^': ('xor', 6), '|': ('or', 5)}
OP_CHOICE = ['*', '/', '/', '/', '%', '%', '%', '<<', '>>', '>>', '&', '|', '^', '+', '-']
FORMS = ['tag'] * 3 + ['typedef'] * 2 + ['typedef-tag'] * 2 + ['anon'] * 2 + \
    ['field-tag', 'field-anon', 'alias']
IDCHARS = 'abcdefghijklmnopqrstuvwxyzABCDEFGHIJKLMNOPQRSTUVWXYZ0123456789_'


# ---------------------------------------------------------------- generator

def lit_type(v, base, suf):
    """C type (bits, unsigned) of an integer literal on LP64, None if it has none"""
    s = suf.lower()
    for bits, uns in ((32, False), (32, True), (64, False), (64, True)):
        if 'l' in s and bits == 32:
            continue
        if ('u' in s) != uns and ('u' in s or base == 10):
            continue
        if v < (1 << (bits - (0 if uns else 1))):
            return bits, uns
    return None


def render(rng, v, base):
    if base == 16:
        return rng.choice(['0x%x', '0x%X', '0X%x']) % v
    return {10: '%d' % v, 8: '0%o' % v, 2: '0b' + bin(v)[2:]}[base]


def pick(rng, lo, hi):
    r = rng.random()
    if r < 0.4:
        return rng.choice([b for b in BOUND if lo <= b <= hi])
    if r < 0.7:
        return max(lo, min(hi, rng.randint(-50, 300)))
    v = rng.getrandbits(rng.choice([8, 16, 31, 32, 33, 48, 63, 64]))
    return max(lo, min(hi, -v if rng.random() < 0.5 else v))


def literal(rng, m):
    """a literal of magnitude m: (text, kind, (bits, unsigned)) or None"""
    base = rng.choice([10, 10, 10, 16, 16, 8, 2])
    suf = rng.choice(SUFFIXES) if rng.random() < 0.25 else ''
    t = lit_type(m, base, suf)
    if t is None:
        return None
    kind = 'suffixed' if suf else {10: 'dec', 16: 'hex', 8: 'oct', 2: 'bin'}[base]
    return render(rng, m, base) + suf, kind, t


# -- operator expressions: trees ('lit', text, v) | ('name', n, v) | ('neg', x) | ('bin', op, l, r)

def c_binop(op, a, b, tags):
    """value of `a op b` on C ints, None where C leaves int or is undefined"""
    if op in '/%':
        if b == 0:
            return None
        q = abs(a) // abs(b)
        if (a < 0) != (b < 0):
            q = -q
            if a % b:
                tags.add(OPS[op][0] + '-where-truncation-differs-from-floor')
        r = q if op == '/' else a - q * b
    elif op in ('<<', '>>'):
        if not 0 <= b <= 30 or (a < 0 and op == '<<'):
            return None
        if a < 0:
            tags.add('shr-of-negative')
        r = a << b if op == '<<' else a >> b
    else:
        r = {'*': a * b, '+': a + b, '-': a - b, '&': a & b, '|': a | b, '^': a ^ b}[op]
    return r if -I31 < r < I31 else None


def expr_eval(node, tags, refs):
    k = node[0]
    if k == 'lit':
        return node[2]
    if k == 'name':
        refs.add(node[1])
        return node[2]
    if k == 'neg':
        v = expr_eval(node[1], tags, refs)
        if node[1][0] == 'bin':
            tags.add('neg-of-parenthesised')
        return None if v is None else -v
    a, b = expr_eval(node[2], tags, refs), expr_eval(node[3], tags, refs)
    if a is None or b is None:
        return None
    tags.add('op-' + OPS[node[1]][0])
    if (a < 0 or b < 0) and node[1] in ('&', '|', '^'):
        tags.add('bitop-of-negative')
    return c_binop(node[1], a, b, tags)


def expr_leaf(rng, names, small=False):
    if names and rng.random() < 0.35 and not small:
        n, v = rng.choice(names)
        node = ('name', n, v)
    else:
        v = rng.choice([rng.randint(0, 9), rng.randint(1, 40), rng.randint(0, 1000),
                        rng.getrandbits(rng.randint(1, 30)), 1, 2, 3, 7, 8, 255, 256, 65535]) \
            if not small else rng.randint(0, 12)
        node = ('lit', render(rng, v, rng.choice([10, 10, 10, 16, 8])), v)
    if rng.random() < 0.3 and not small:
        node = ('neg', node)
    return node


def expr_tree(rng, names, depth, top=False):
    if not top and (depth <= 0 or rng.random() < 0.4):
        return expr_leaf(rng, names)
    op = rng.choice(OP_CHOICE)
    left = expr_tree(rng, names, depth - 1)
    right = expr_leaf(rng, names, small=True) if op in ('<<', '>>') and rng.random() < 0.9 \
        else expr_tree(rng, names, depth - 1)
    node = ('bin', op, left, right)
    if rng.random() < 0.1:
        node = ('neg', node)
    return node


def expr_text(rng, node, sp, parent=0, right=False, under_neg=False):
    k = node[0]
    if k == 'lit':
        s = node[1]
        if not sp and s[:2].lower() == '0x' and s[-1] in 'eE':
            s = '(%s)' % s           # '0xE+1' is one (invalid) preprocessing number
        return s
    if k == 'name':
        return node[1]
    if k == 'neg':
        s = '-' + expr_text(rng, node[1], sp, 11, False, True)
        return '(%s)' % s if right or under_neg or rng.random() < 0.1 else s
    p = OPS[node[1]][1]
    s = expr_text(rng, node[2], sp, p, False) + sp + node[1] + sp + expr_text(rng, node[3], sp, p, True)
    if p < parent or (p == parent and right) or rng.random() < 0.15:
        s = '(%s)' % s
    return s


def gen_binop(rng, pool, dirty):
    # no operand whose value cffi is already known to get wrong (see `dirty` in gen_context):
    # a division by it, or a shift by it, makes the whole cdef() fail
    names = [(n, v) for n, v in pool if abs(v) < I31 - 1000 and n not in dirty]
    for _ in range(30):
        node = expr_tree(rng, names, rng.choice([1, 1, 2, 2, 3]), top=True)
        tags, refs = set(), set()
        v = expr_eval(node, tags, refs)
        if v is not None:
            sp = rng.choice([' ', ' ', ''])
            if not sp:
                tags.add('no-blanks')
            text = expr_text(rng, node, sp)
            if '--' in text:         # a decrement operator: keep the two minus signs apart
                text = expr_text(rng, node, ' ')
                tags.discard('no-blanks')
            return text, 'binop', v, sorted(refs), sorted(tags)
    return None


def enumerator(rng, lo, hi, prev, pool, dup, dirty=()):
    """-> (expression or None, kind, value according to C, [names referred to], [tags])"""
    for _ in range(200):
        k = rng.choice(KINDS)
        r = None
        if k == 'implicit':
            # an increment that leaves the C type of the previous enumerator is an error in C
            if prev is None or prev + 1 not in (I31, I32, I63, I64):
                r = (None, k, 0 if prev is None else prev + 1)
        elif k in ('lit', 'plus'):
            m = dup if dup is not None and dup >= 0 else pick(rng, max(lo, 0), hi)
            l = literal(rng, m)
            if l:
                r = (l[0], l[1], m) if k == 'lit' else ('+' + l[0], 'plus', m)
        elif k == 'neg':
            m = -dup if dup is not None and dup < 0 else abs(pick(rng, -I64 + 1, I64 - 1))
            l = literal(rng, m)
            if l and l[2][1]:        # unsigned operand: C negates modulo 2**bits
                r = ('-' + l[0], 'neg-unsigned-literal', (-m) % (1 << l[2][0]))
            elif l:
                r = ('-' + l[0], 'neg', -m)
        elif k == 'char':
            ch = rng.choice([c for c in map(chr, range(32, 127)) if c not in "'\\"])
            r = ("'%s'" % ch, k, ord(ch))
        elif k == 'charesc':
            ch = rng.choice(sorted(ESCAPES))
            r = ("'\\%s'" % ch, k, ESCAPES[ch])
        elif k == 'charesc-octal':
            d = rng.randint(1, 7)
            r = ("'\\%d'" % d, k, d)
        elif k == 'charesc-self':
            ch = rng.choice(SELF_ESCAPES)
            r = ("'\\%s'" % ch, k, ord(ch))
        elif k == 'expr-min':
            r = rng.choice([('-2147483647 - 1', k, -I31), ('-9223372036854775807 - 1', k, -I63),
                            ('-0x7fffffffffffffffL - 1', k, -I63), ('-2147483647-1', k, -I31)])
        elif k == 'binop':
            r = gen_binop(rng, pool, dirty)
        elif pool:
            name, v = rng.choice(pool)
            if k == 'ref':
                r = (name, k, v, [name])
            elif abs(v) < I31 - 1000:
                if k == 'negref':
                    r = ('-' + name, k, -v, [name])
                else:
                    d = rng.randint(1, 100)
                    r = ('%s + %d' % (name, d), k, v + d, [name]) if rng.random() < 0.5 else \
                        ('%s - %d' % (name, d), k, v - d, [name])
        if r is not None and lo <= r[2] <= hi:
            return tuple(r) + ([], [])[len(r) - 3:]
    return ('0', 'dec', 0, [], [])


def make_names(rng, p, j, n, style):
    if style == 'plain':
        return ['%sE%d_%d' % (p, j, k) for k in range(n)]
    stem = '%s%d%s' % (p, j, rng.choice(['E', 'e', 'Val', '_', 'X_Y_', 'k', '__']))
    out, seen = [], set()
    while len(out) < n:
        r = rng.random()
        if out and r < 0.35:           # a name that extends an existing one
            nm = rng.choice(out) + rng.choice(['_', '0', 'A', 'a', '_%d' % len(out), '__',
                                               'x' * rng.randint(1, 30)])
        elif r < 0.55:
            nm = stem + ''.join(rng.choice(IDCHARS) for _ in range(rng.randint(1, 60)))
        elif style == 'long':
            nm = stem + '%d_' % len(out) + rng.choice(IDCHARS) * rng.randint(20, 50)
        else:
            nm = stem + '%d' % len(out)
        if nm not in seen and len(nm) < 120:
            seen.add(nm)
            out.append(nm)
    return out


def gen_context(i, seed):
    rng = random.Random(seed)
    p = 'c%d_' % i
    lines, pool, enums = [], [], []
    dirty = set()      # enumerators that are, or derive from, the negation of an unsigned literal
    for j in range(rng.choice([0, 0, 1, 2])):
        v = pick(rng, -I63 + 1, I64 - 1)
        text = '%d' % v if v < I63 and rng.random() < 0.6 else ('0x%x' % v if v >= 0 else '%d' % v)
        lines.append('#define %sK%d %s' % (p, j, text))
        pool.append((p + 'K%d' % j, v))
    for j in range(rng.choice([1, 1, 2, 3])):
        regime = rng.choice(['s32', 's32', 'u32', 'u32', 's64', 's64', 'u64'])
        lo, hi = REGIMES[regime]
        n = min(rng.randint(1, 12), rng.randint(1, 14))
        if rng.random() < 0.025:
            n = rng.choice([rng.randint(13, 40), rng.randint(13, 40), rng.randint(41, 150),
                            rng.randint(150, 400)])
        style = rng.choice(['plain', 'plain', 'plain', 'varied', 'long'])
        names = make_names(rng, p, j, n, style)
        exprs, kinds, vals, refs, tags = [], [], [], [], []
        own = []
        for k in range(n):
            dup = rng.choice(vals) if vals and rng.random() < 0.15 else None
            r = enumerator(rng, lo, hi, vals[-1] if vals else None, pool + own, dup, dirty)
            if r[1] == 'neg-unsigned-literal' or dirty.intersection(r[3]) or \
                    (r[1] == 'implicit' and k and names[k - 1] in dirty):
                dirty.add(names[k])
            exprs.append(r[0]); kinds.append(r[1]); vals.append(r[2])
            refs.append(r[3]); tags.append(r[4])
            own.append((names[k], r[2]))
        body = ', '.join(nm if ex is None else '%s = %s' % (nm, ex) for nm, ex in zip(names, exprs))
        if rng.random() < 0.2:
            body += ','
        form = rng.choice(FORMS)
        tag, td, st = '%se%d' % (p, j), '%st%d' % (p, j), 'struct %ss%d' % (p, j)
        if form in ('tag', 'alias', 'field-tag') and rng.random() < 0.1:
            tag = rng.choice(names)      # tags and enumerators live in different name spaces
        more = []
        if form == 'tag':
            decl, types = 'enum %s { %s };' % (tag, body), [['name', 'enum ' + tag]]
        elif form == 'typedef':
            decl, types = 'typedef enum { %s } %s;' % (body, td), [['name', td]]
        elif form == 'typedef-tag':
            decl = 'typedef enum %s { %s } %s;' % (tag, body, td)
            types = [['name', 'enum ' + tag], ['name', td]]
            rng.shuffle(types)
        elif form == 'alias':
            decl = 'enum %s { %s };' % (tag, body)
            more = ['typedef enum %s %sa%d;' % (tag, p, j)]
            types = [['name', 'enum ' + tag], ['name', '%sa%d' % (p, j)]]
            if rng.random() < 0.5:
                more.append('typedef %sa%d %sb%d;' % (p, j, p, j))
                types.append(['name', '%sb%d' % (p, j)])
            rng.shuffle(types)
        elif form in ('field-tag', 'field-anon'):
            head = rng.choice(['', 'char h; ', 'int h; ', 'long h; '])
            tail = rng.choice(['', ' char t;', ' short t;'])
            decl = '%s { %senum %s{ %s } f;%s };' % (st, head, tag + ' ' if form == 'field-tag'
                                                     else '', body, tail)
            types = [['field', st, 'f']]
            if form == 'field-tag':
                types.append(['name', 'enum ' + tag])
                rng.shuffle(types)
        else:
            decl, types = 'enum { %s };' % body, []
        enums.append({'decl': decl, 'types': types, 'form': form, 'regime': regime, 'names': names,
                      'kinds': kinds, 'vals': vals, 'refs': refs, 'tags': tags, 'style': style,
                      'line': len(lines), 'tag_is_name': tag in names})
        lines.append(decl)
        lines += more
        pool += own
    return {'id': i, 'seed': seed, 'text': '\n'.join(lines) + '\n', 'lines': lines, 'enums': enums}


def variant_of(c):
    """the history pass of this cdef: (label, number of declarations in the first step)"""
    n = len(c['lines'])
    if n < 2:
        return None
    return VARIANTS[c['seed'] % 3], 1 + (c['seed'] // 3) % (n - 1)


def types_first(c):
    return bool((c['seed'] >> 7) & 1)


# ---------------------------------------------------------------- gcc oracle

def c_type(spec):
    return spec[1] if spec[0] == 'name' else '__typeof__(((%s *)0)->%s)' % (spec[1], spec[2])


def probe_unit(c):
    st = []
    for j, e in enumerate(c['enums']):
        for t, spec in enumerate(e['types']):
            T = c_type(spec)
            st.append('printf("T %d %d %%zu %%d\\n", sizeof(%s), ((%s)-1) < 0);' % (j, t, T, T))
        for n in e['names']:
            st.append('printf("V %d %%d %%llu\\n", (%s) < 0, (unsigned long long)(%s));' %
                      (j, n, n))
    return (c['id'], c['text'], '\n'.join(st))


def facts(c, lines):
    out = [{'types': [None] * len(e['types']), 'values': []} for e in c['enums']]
    for line in lines:
        p = line.split()
        g = out[int(p[1])]
        if p[0] == 'T':
            g['types'][int(p[2])] = [int(p[3]), p[4] == '1']
        else:
            g['values'].append(int(p[3]) - I64 if p[2] == '1' else int(p[3]))
    return out


def oracle(ctx, ctxs):
    units = [probe_unit(c) for c in ctxs]
    res = cc.batch_probe(ctx.tmp, units, batch=100)
    res2 = cc.batch_probe(ctx.tmp, units, cc='clang', batch=100) if ctx.thorough else None
    out = []
    for c in ctxs:
        r = res[c['id']]
        if isinstance(r, dict):
            ctx.count('gcc_rejected_generated_declaration')
            ctx.note('gcc rejected: %s :: %s' % (r['error'][-300:], c['text'][:300]))
            continue
        if res2 is not None and res2[c['id']] != r:
            ctx.count('gcc_clang_disagree_dropped')
            continue
        for e, g in zip(c['enums'], facts(c, r)):
            e['gcc'] = g
            if g['values'] != e['vals']:
                ctx.count('generator_value_model_differs_from_gcc')
                ctx.note('generator expected %r, gcc says %r: %s' % (e['vals'][:40], g['values'][:40],
                                                                     e['decl'][:600]))
        out.append(c)
    if len(out) < len(ctxs) * 0.98:
        raise core.Inconclusive('generator produces too many declarations gcc rejects')
    return out


# ---------------------------------------------------------------- API modules

def screen(ctx, ctxs):
    """{id: message} of the cdefs that the recompiler itself rejects (run alone,
    nothing compiled), so that they do not take a whole compiled module down"""
    per = max(10, (len(ctxs) + 7) // 8)
    cases = [{'screen': [[c['id'], c['text']] for c in ctxs[i:i + per]]}
             for i in range(0, len(ctxs), per)]
    failed = {}
    for o in core.run_cases(ctx, 'c10', None, cases, variant=VARIANT, nproc=8, timeout=300):
        if not isinstance(o, dict) or 'failed' not in o:
            raise core.Inconclusive('screening of the API cdefs failed: %r' % (o,))
        failed.update((int(k), v) for k, v in o['failed'].items())
    return failed


def child_screen(case):
    import io, traceback
    from cffi import FFI
    failed = {}
    for cid, text in case['screen']:
        try:
            ffi = FFI()
            ffi.cdef(text)
            ffi.set_source('_c10screen', text)
            ffi.emit_c_code(io.StringIO())
        except Exception:
            failed[cid] = traceback.format_exc()[-700:]
    return {'failed': failed}


def build_api(ctx, cases, failed, tag=''):
    """one compiled module per case, without the cdefs in `failed`; a module that
    fails to build is bisected down to the single cdef that causes it"""
    d = os.path.join(ctx.tmp, 'api')
    todo = []
    for case in cases:
        case['api'] = [{'ids': [c['id']], 'error': failed[c['id']]} for c in case['ctxs']
                       if c['id'] in failed]
        cs = [c for c in case['ctxs'] if c['id'] not in failed]
        if cs:
            todo.append((case, cs, '_c10api%s_%d' % (tag, case['no'])))
    while todo:
        specs = []
        for case, cs, name in todo:
            text = ''.join(c['text'] for c in cs)
            specs.append({'name': name, 'kind': 'api', 'cdef': text, 'source': text, 'dir': d})
        try:
            res = modbuild.build_modules(ctx, specs, cflags='-O0 -g0')
        except subprocess.TimeoutExpired:
            raise core.Inconclusive('API module build timed out')
        nxt = []
        for case, cs, name in todo:
            r = res[name]
            if r['ok']:
                ctx.count('api_modules_compiled')
                case['api'].append({'dir': d, 'name': name, 'ids': [c['id'] for c in cs]})
            elif len(cs) == 1:
                case['api'].append({'ids': [cs[0]['id']],
                                    'error': (r['error'] + r.get('log', ''))[-1200:]})
            else:
                ctx.count('api_modules_failed_and_bisected')
                h = len(cs) // 2
                nxt += [(case, cs[:h], name + 'a'), (case, cs[h:], name + 'b')]
        todo = nxt


def generate(ctx):
    import concurrent.futures as cf
    rng = ctx.rng('gen')
    n = ctx.scale(340, 10000)
    ctxs = [gen_context(i, rng.getrandbits(48)) for i in range(n)]
    ctx.tmp
    with cf.ThreadPoolExecutor(2) as ex:       # gcc oracle and recompiler screening side by side
        fo, fs = ex.submit(oracle, ctx, ctxs), ex.submit(screen, ctx, ctxs)
        ctxs, failed = fo.result(), fs.result()
    ctx.count('cdefs_rejected_by_the_recompiler_in_api_mode', len(failed))
    per = ctx.scale(22, 200)     # a compile costs about 2 s whatever the size
    cases = [{'no': i // per, 'ctxs': ctxs[i:i + per]} for i in range(0, len(ctxs), per)]
    build_api(ctx, cases, failed)
    return None, cases


def replay_setup(ctx, case):
    case['no'] = case.get('no', 0)
    build_api(ctx, [case], screen(ctx, case['ctxs']), tag='r')
    return None


# ---------------------------------------------------------------- child

def child_setup(setup, wd):
    import warnings
    warnings.simplefilter('ignore')
    sys.path.insert(0, wd)
    return {'wd': wd}


def model_string(names, values, bits, signed, v):
    v &= (1 << bits) - 1
    if signed and v >> (bits - 1):
        v -= 1 << bits
    for n, x in zip(names, values):
        if x == v:
            return n
    return str(v)


def get_ctype(ffi, spec):
    if spec[0] == 'name':
        return ffi.typeof(spec[1])
    return dict(ffi.typeof(spec[1]).fields)[spec[2]].type


def spec_label(spec):
    return spec[1] if spec[0] == 'name' else 'the type of %s.%s' % (spec[1], spec[2])


def touch(ffi, lib, enums):
    """use what is declared so far: the first and the last enumerator and the ctype
    of every enum (the results are judged later, through the same objects)"""
    for e in enums:
        for n in (e['names'][0], e['names'][-1]) if lib is not None else ():
            try:
                getattr(lib, n)
            except Exception:
                pass
        for spec in e['types']:
            try:
                get_ctype(ffi, spec).relements
            except Exception:
                pass


def emit_abi(fb, name, st):
    path = os.path.join(st['wd'], name + '.py')
    fb.set_source(name, None)
    fb.emit_python_code(path)
    sys.modules.pop(name, None)
    return path


def open_mode(mode, c, st, mods, rep):
    """-> (ffi, [(label, getter of an enumerator)]); mode is one of MODES or VARIANTS"""
    import importlib
    from cffi import FFI
    if mode in VARIANTS:
        k = variant_of(c)[1]
        first, second = '\n'.join(c['lines'][:k]) + '\n', '\n'.join(c['lines'][k:]) + '\n'
        early = [e for e in c['enums'] if e['line'] < k]
        rep.stat('variant_enums_declared_in_the_first_step', len(early))
        rep.stat('variant_enums_declared_in_the_second_step', len(c['enums']) - len(early))
    if mode == 'inline':
        ffi = FFI()
        ffi.cdef(c['text'])
        lib = ffi.dlopen(None)
        return ffi, [('lib', lambda n: getattr(lib, n))]
    if mode == 'inline-incremental':
        ffi = FFI()
        ffi.cdef(first)
        lib = ffi.dlopen(None)
        touch(ffi, lib, early)
        ffi.cdef(second)
        return ffi, [('lib', lambda n: getattr(lib, n))]
    if mode == 'inline-include':
        base = FFI()
        base.cdef(first)
        ffi = FFI()
        ffi.include(base)
        ffi.cdef(second)
        lib = ffi.dlopen(None)
        return ffi, [('lib', lambda n: getattr(lib, n))]
    if mode == 'abi':
        fb = FFI()
        fb.cdef(c['text'])
        name = '_c10abi_%d' % c['id']
        paths = [emit_abi(fb, name, st)]
    elif mode == 'abi-include':
        base = FFI()
        base.cdef(first)
        fb = FFI()
        fb.include(base)
        fb.cdef(second)
        name = '_c10abi_%dd' % c['id']
        paths = [emit_abi(base, '_c10abi_%db' % c['id'], st), emit_abi(fb, name, st)]
    if mode in ('abi', 'abi-include'):
        importlib.invalidate_caches()
        try:
            ffi = importlib.import_module(name).ffi
        finally:
            for path in paths:
                os.unlink(path)
        lib = ffi.dlopen(None)
    else:
        m = mods[c['id']]
        ffi, lib = m.ffi, m.lib
    return ffi, [('lib', lambda n: getattr(lib, n)), ('integer_const', ffi.integer_const)]


def check_strings(rep, mode, base, ffi, T, Tl, c, e, bits, signed, bad):
    """ffi.string() of enum cdata of the type T (a name or a ctype)"""
    names, gvals = e['names'], e['gcc']['values']
    rnd = random.Random(c['seed'] ^ len(names))
    lo, hi = (-(1 << (bits - 1)), (1 << (bits - 1)) - 1) if signed else (0, (1 << bits) - 1)
    probes = set(gvals)
    for v in gvals:
        probes.update(x for x in (v - 1, v + 1) if lo <= x <= hi)
    probes.update([lo, hi, 0, -1, lo - 1, hi + 1, rnd.randint(lo, hi), rnd.randint(-I63, I64 - 1),
                   rnd.randint(-300, 300)])
    count, index, first = {}, {}, {}
    for n, v in zip(names, gvals):
        count[v] = count.get(v, 0) + 1
        index[n] = len(index)
        first.setdefault(v, n)
    probes = sorted(probes)
    recast = set(rnd.sample(probes, min(3, len(probes))))
    for v in probes:
        w = v & ((1 << bits) - 1)      # the model: the value as the enum's type holds it,
        if signed and w >> (bits - 1):
            w -= 1 << bits
        want = first.get(w, str(w))    # first declared name of it, else the decimal number
        declared = want in index
        rep.stat('strings_declared' if declared else 'strings_undeclared')
        if declared and count[gvals[index[want]]] > 1:
            rep.stat('strings_of_duplicated_value')
        sources = [('int', lambda: ffi.cast(T, v))]
        if v in recast:
            sources.append(('enum-cdata', lambda: ffi.cast(T, ffi.cast(T, v))))
            if -I63 <= v < I63:
                sources.append(('long-long-cdata', lambda: ffi.cast(T, ffi.cast('long long', v))))
        for src, make in sources:
            if src != 'int':
                rep.stat('strings_of_cdata_cast_from_' + src)
            try:
                got = ffi.string(make())
            except Exception as ex:
                got = 'raised %s: %s' % (type(ex).__name__, ex)
            if got != want:
                same = declared and got in index and gvals[index[got]] == gvals[index[want]]
                bad(('string-not-first-name:' if same else 'string-declared:' if declared else
                     'string-undeclared:') + base, 'ffi.string(ffi.cast(%s, %s%d)) %s = %r, '
                    'expected %r' % (Tl, '' if src == 'int' else src + ' ', v, mode, got, want), e)
                break


def check_enum(rep, mode, ffi, getters, c, e, bad, taint, inline_taint):
    """taint: names of this cdef whose value is already known to differ (here or
    earlier); what is derived from them (implicit successor, X, -X, X+k) is a
    consequence and is not judged.  Mechanisms carry the base mode."""
    base = mode.split('-')[0]
    g = e['gcc']
    names, gvals = e['names'], g['values']
    ok = True
    for idx, (n, k, gv) in enumerate(zip(names, e['kinds'], gvals)):
        if any(r in taint for r in e['refs'][idx]) or \
                (k == 'implicit' and idx and names[idx - 1] in taint):
            rep.stat('enumerators_derived_from_a_mismatch_not_judged')
            taint.add(n)
            ok = False
            continue
        for label, get in getters:
            rep.stat('enumerators_' + mode)
            try:
                v = get(n)
            except Exception as ex:
                bad('enumerator-raised:%s:%s' % (k, base), '%s (%s) %s raised %s: %s; gcc: %d' %
                    (n, label, mode, type(ex).__name__, str(ex)[:200], gv), e)
            else:
                if v == gv and type(v) is int:
                    continue
                bad('enumerator-value:%s:%s' % (k, base), '%s (%s) %s = %r, gcc: %d' %
                    (n, label, mode, v, gv), e)
            taint.add(n)
            ok = False
            break
    # the enumerator as an array length: one more reader of its value
    rnd = random.Random(c['seed'] ^ 0x5eed ^ len(names))
    for idx in sorted(set([0, len(names) - 1, rnd.randrange(len(names))])):
        if names[idx] in taint:
            continue
        if mode == 'abi-include' and e['line'] < variant_of(c)[1] and \
                e['form'] in ('anon', 'field-anon'):
            # an enum without a name of the included ffi is not emitted again in the including
            # module, and the C type parser looks in its own module only (it says so, with an
            # error: no value is observed)
            rep.stat('array_lengths_not_judged_for_unnamed_enums_of_the_included_ffi')
        elif 0 <= gvals[idx] < (1 << 62):
            rep.stat('array_lengths_from_enumerators_' + base)
            try:
                got = ffi.sizeof('char[%s]' % names[idx])
            except Exception as ex:
                got = 'raised %s: %s' % (type(ex).__name__, str(ex)[:200])
            if got != gvals[idx]:
                bad('array-length-from-enumerator:' + base, "ffi.sizeof('char[%s]') %s = %r, gcc: "
                    '%d' % (names[idx], mode, got, gvals[idx]), e)
    if not ok or not e['types']:
        rep.stat('enums_values_only')
        return
    seen = []
    for spec, gt in zip(e['types'], g['types']):
        Tl = spec_label(spec)
        if base == 'api' and e['form'] == 'field-anon' and inline_taint and \
                inline_taint.intersection(names):
            # an enum without a C name gets its integer type from the cdef's own values also in
            # API mode: the in-line mismatch that is already reported decides it
            rep.stat('api_types_of_unnamed_enums_after_an_inline_value_mismatch_not_judged')
            continue
        rep.stat('types_named_by_' + ('field' if spec[0] == 'field' else
                                      'tag' if spec[1].startswith('enum ') else 'typedef'))
        T = spec[1] if spec[0] == 'name' else get_ctype(ffi, spec)
        size, signed = ffi.sizeof(T), int(ffi.cast(T, -1)) < 0
        if size != gt[0]:
            bad('sizeof:' + base, 'sizeof(%s) %s = %d, gcc: %d' % (Tl, mode, size, gt[0]), e)
        if signed != gt[1]:
            bad('signedness:' + base, '%s %s is %s, gcc: %s' %
                (Tl, mode, 'signed' if signed else 'unsigned', 'signed' if gt[1] else 'unsigned'), e)
        if (size, signed) != (gt[0], gt[1]):
            return
        tp = ffi.typeof(T) if spec[0] == 'name' else T
        if any(tp is x for x in seen):
            rep.stat('types_same_ctype_as_an_earlier_name')
            continue
        seen.append(tp)
        rep.stat('underlying_%s%d' % ('s' if signed else 'u', size * 8))
        first = {}
        for n, v in zip(names, gvals):
            first.setdefault(v, n)
        if tp.relements != dict(zip(names, gvals)):
            bad('ctype-relements:' + base, '%s.relements %s = %r' % (Tl, mode, tp.relements), e)
        if tp.elements != first:
            bad('ctype-elements:' + base, '%s.elements %s = %r, expected %r' %
                (Tl, mode, tp.elements, first), e)
        check_strings(rep, mode, base, ffi, T, Tl, c, e, size * 8, signed, bad)


def child_case(st, case):
    import importlib
    if 'screen' in case:
        return child_screen(case)
    rep = core.ChildRep()
    mods, api_err = {}, {}
    for a in case['api']:
        if 'error' in a:
            api_err[a['ids'][0]] = a['error']
            continue
        if a['dir'] not in sys.path:
            sys.path.insert(0, a['dir'])
        m = importlib.import_module(a['name'])
        for i in a['ids']:
            mods[i] = m
    for c in case['ctxs']:
        def bad(mech, msg, e, c=c):
            rep.bad(mech, '%s :: %s' % (msg, e['decl'][:1500] if e else c['text'][:1500]), c['id'])
        rep.stat('cdefs')
        inline_taint = None
        var = variant_of(c)
        for mode in MODES + ((var[0],) if var else ()):
            base = mode.split('-')[0]
            taint = set()
            try:
                if mode == 'api' and c['id'] in api_err:
                    raise RuntimeError('the API module does not build: ' + api_err[c['id']])
                ffi, getters = open_mode(mode, c, st, mods, rep)
            except Exception as ex:
                import traceback
                if inline_taint:      # the wrong value is already reported; this follows from it
                    rep.stat('setup_failures_after_value_mismatch_' + mode)
                else:
                    bad('setup-raised:%s:%s' % (base, type(ex).__name__),
                        mode + ': ' + traceback.format_exc()[-600:], None)
                continue
            rep.stat('passes_' + mode)
            if types_first(c):
                rep.stat('passes_with_ctypes_realized_before_enumerators')
                touch(ffi, None, c['enums'])
            for e in c['enums']:
                vs = e['gcc']['values']
                rep.case((e['decl'], mode), nontrivial=len(vs) > 1 or vs[0] != 0,
                         sample={'decl': e['decl'][:300], 'mode': mode})
                rep.stat('enums_' + mode)
                if mode == 'inline':
                    rep.stat('form_' + e['form'])
                    rep.stat('regime_' + e['regime'])
                    rep.stat('names_' + e['style'])
                    for k in e['kinds']:
                        rep.stat('kind_' + k)
                    for ts in e['tags']:
                        for t in ts:
                            rep.stat('expr_' + t)
                    if len(set(vs)) < len(vs):
                        rep.stat('enums_with_duplicate_values')
                    if e['tag_is_name']:
                        rep.stat('enums_whose_tag_is_an_enumerator_name')
                    ln = len(','.join(e['names']))
                    if ln > 110:
                        rep.stat('enums_names_over_110_chars')
                    if ln > 220:
                        rep.stat('enums_names_over_220_chars')
                    if ln > 1000:
                        rep.stat('enums_names_over_1000_chars')
                    if len(vs) > 12:
                        rep.stat('enums_over_12_enumerators')
                    if len(vs) > 100:
                        rep.stat('enums_over_100_enumerators')
                    if any(a != b and (a.startswith(b) or b.startswith(a))
                           for a in e['names'][:40] for b in e['names'][:40]):
                        rep.stat('enums_with_a_name_that_is_a_prefix_of_another')
                try:
                    check_enum(rep, mode, ffi, getters, c, e, bad, taint, inline_taint)
                except Exception as ex:
                    import traceback
                    bad('check-raised:%s:%s' % (base, type(ex).__name__),
                        mode + ': ' + traceback.format_exc()[-600:], e)
            if mode == 'inline':
                inline_taint = taint
    return rep.result()


def judge(ctx, setup, case, obs):
    core.absorb(ctx, case, obs, lambda cid: {
        'no': case['no'], 'ctxs': [c for c in case['ctxs'] if c['id'] == cid], 'api': []})
