"""C23 -- generated source is deterministic, idempotent and replaced atomically.

Three monitors over specs (cdef + module name + C source, a pure function of a seed):
  det    the real emit_c_code / emit_python_code / recompile / make_c_source /
         make_py_source / compile run in fresh processes with different PYTHONHASHSEEDs
         and different case orders; the bytes are compared inside a process (same FFI
         twice, fresh FFI with other set_source() keywords, other entry point, file-like
         target) and across processes (sha256).
  idem   generate, regenerate, change the input (a declaration, the module name, the C
         source; for API mode also ONLY the line ends of the C source), regenerate, go
         back; then on one FFI object: generate, cdef() one more declaration, generate
         again.  Judged: bytes against a fresh generation, the flag decided inside,
         st_mtime_ns / st_ino, the "(already up-to-date)" message, and what the entry point
         hands to its caller (recompile()'s 'updated', make_*_source()'s result,
         distutils_extension()'s "regenerated"/"not modified"); plus an icontract
         postcondition on recompiler._make_c_or_py_source active for every workload.
  crash  fault enumeration of the write path with old content O in place and N != O
         to be written, in four scenarios (replace, no old file, the final os.rename /
         os.replace fails once / always = any fallback path): the target is inspected at every
         sys.monitoring LINE event of _make_c_or_py_source (what a process dying there
         leaves behind; a sample is cross-checked with a forked os._exit), an
         asynchronous exception is raised at every LINE event, a short-write file stops
         after j bytes (inspect / os._exit / ENOSPC), open fails; and, parent side,
         SIGKILL on entry of every syscall of the write window (strace inject).
         After each fault the target must be exactly O or exactly N.
"""
import os, sys, io, re, random, shutil, hashlib, errno, subprocess, contextlib
import concurrent.futures as cf
from vlib import core, build, gen_cdef as GC

VARIANT = 'plain'
LEVEL = "fault_enumeration"
RULE = ("spec = random cdef context (typedef chains, aggregates, enums, constants, functions, "
        "globals; unnamed structs/unions/enums, FILE and other common types, function pointers in "
        "aggregates; a second cdef() with packed=/pack=/override=; API mode adds '...' items, extern "
        "\"Python\", embedding, C source with non-ASCII comments and LF/CRLF/CR line ends, "
        "source_extension; optional ffi.include() of 1-3 other contexts (flat, chain, diamond; "
        "include order shuffled); set_source() keywords; dotted module names) in API (.c) or ABI "
        "(.py) mode; det case = (spec, hash seed/process history, "
        "entry point); idem case = (spec, entry point, pre-existing target content, step); crash "
        "case = (spec, scenario, fault kind, fault index); distinct = all of these; non-trivial = "
        "the spec generated a non-empty source")
ASSUMPTIONS = [
    "PYTHONHASHSEED=random is replaced by a value drawn from the check's seeded rng (reproducible)",
    "a target file that was not written by cffi (CRLF copy of the output, undecodable bytes) is "
    "outside the statement: what happens is recorded as obs_* counters only",
    "crash = the process stops (SIGKILL on syscall entry, os._exit) or an asynchronous exception / "
    "I/O error propagates out of the generation; power-loss reordering of the file system is not modelled",
    "leftover '<target>.~<pid>' files after a crash are allowed",
]
DEPS = os.path.join(core.VERIF, '.deps')
TOOL = 4                     # sys.monitoring tool id
WORDS = ['alpha', 'h\xe9llo', 'λόγος', '中文', '\U0001f600', 'x', '42']

API_EXTRAS = ['#define {P}DOTS ...', 'typedef ... {p}opaque_t;', 'int {p}var(int, ...);',
              'typedef struct {{ int a; ...; }} {p}partial_t;', 'extern int {p}garr[...];',
              'extern "Python" int {p}cb(int, long);', 'extern "Python+C" void {p}cb2(char *);',
              'typedef int... {p}someint_t;', 'enum {p}pe {{ {P}PE_A, {P}PE_B, ... }};',
              'static const double {P}DBL;', 'struct {p}ps {{ int a[...]; ...; }};',
              'typedef float... {p}somefloat_t;']
ABI_EXTRAS = ['int {p}var(int, ...);', 'typedef int (*{p}cbt)(void *, char **);',
              'struct {p}opq *{p}mk(void);', 'typedef struct {p}fwd {p}fwd_t;']
# both modes: aggregates / enums without a C name (numbered '$n' by the parser, emitted through
# _add_missing_struct_unions), common types resolved through the process-wide cache of
# commontypes.py (FILE brings 'struct _IO_FILE'), qualifiers, function pointers in aggregates
COMMON_EXTRAS = ['struct {p}outer {{ struct {{ int a; short b; }} p; union {{ long c; char d; }} q; '
                 'struct {{ char e; }} r[2]; }};',
                 'typedef struct {{ int z; }} *{p}anonp_t;',
                 'typedef enum {{ {P}AE1, {P}AE2 = 7 }} {p}aenum_t;',
                 'enum {{ {P}ANON_A = 5, {P}ANON_B }};',
                 'int {p}fpr(FILE *, wchar_t, intptr_t, const char *const *);',
                 'size_t {p}sz(ptrdiff_t, uint8_t, int_least16_t, char16_t *, _Bool);',
                 'struct {p}ops {{ int (*open)(const char *, int); void (*close)(void *); '
                 'struct {p}ops *next; }};',
                 'union {p}un {{ struct {p}ops *o; volatile int v; double d[3]; }};']
CDEF2 = ['struct {p}pk {{ char a; int b; short c; }};', 'union {p}pku {{ char a; long long b; }};']
KWDS = [{}, {'libraries': ['m']}, {'define_macros': [('C23_X', '1')], 'extra_compile_args': ['-O0']},
        {'include_dirs': ['inc'], 'library_dirs': ['lib']}]


# ---------------------------------------------------------------------------
# specs (pure function of the seed; used by parent, children and the strace worker)

def change_line_ends(src, rnd):
    """the same C source with other line ends (nothing else changes); returns (source, how)"""
    crlf = [m.start() for m in re.finditer(r'\r\n', src)]
    lf = [m.start() for m in re.finditer(r'(?<!\r)\n', src)]
    cr = [m.start() for m in re.finditer(r'\r(?!\n)', src)]
    opts = []
    if crlf:
        opts += ['all-crlf-to-lf', 'all-crlf-to-lf', 'one-crlf-to-lf', 'one-crlf-to-cr']
    if cr:
        opts += ['all-cr-to-lf', 'one-cr-to-crlf']
    if lf:
        opts += ['all-lf-to-crlf', 'one-lf-to-crlf', 'one-lf-to-cr', 'all-lf-to-cr']
    how = rnd.choice(opts)
    which, old, _, new = how.split('-')
    at, old, new = ({'crlf': crlf, 'lf': lf, 'cr': cr}[old], {'crlf': '\r\n', 'lf': '\n', 'cr': '\r'}[old],
                    {'crlf': '\r\n', 'lf': '\n', 'cr': '\r'}[new])
    if which == 'one':
        at = [rnd.choice(at)]
    for k in reversed(at):
        src = src[:k] + new + src[k + len(old):]
    return src, how


def make_base(seed, n, tag, mode, rnd, nd):
    bp = '%s%d_' % (tag, n)
    bc = GC.Ctx(random.Random(seed * 7 + ord(tag)), prefix=bp, nd=nd)
    return {'name': rnd.choice(['_base' + tag + '%d', 'pkg%d._base' + tag]) % n, 'prefix': bp,
            'cdef': bc.cdef_text() + 'typedef struct { int x; } %sbt;\n' % bp,
            'src': bc.c_source() if mode == 'c' else None, 'includes': []}


VARIANTS = {0: None, 1: 'random', 2: 'lineends', 3: 'decl'}


def make_spec(seed, variant=0):
    """variant 0: the spec; 1: one of decl/name/source changed (drawn from the seed);
    2: only the line ends of the C source changed (API mode); 3: one declaration added"""
    rnd = random.Random(seed)
    n = seed % 100000
    p = 'm%d_' % n
    mode = rnd.choice(['c', 'c', 'c', 'py', 'py'])
    c = GC.Ctx(rnd, prefix=p, nd=rnd.choice([3, 6, 10, 14, 20]))
    decls = [c.cdef_text()]
    name = rnd.choice(['_m%d', 'pkg%d._m', 'a%d.b.c_ext']) % n
    spec = {'seed': seed, 'mode': mode, 'base': None, 'embed': None, 'changed': None}
    if rnd.random() < 0.35:
        # 1..3 included contexts, in a given order; an included context may itself include one
        # (chain), and two included contexts may include the same one (diamond)
        tags = 'bcd'[:rnd.choice([1, 1, 2, 2, 3])]
        bases = [make_base(seed, n, t, mode, rnd, rnd.choice([2, 4, 6])) for t in tags]
        shape = rnd.choice(['flat', 'chain', 'diamond']) if len(bases) > 1 else 'flat'
        top = list(bases)
        if shape == 'chain':
            bases[0]['includes'] = [1]
            top = [bases[0]] + bases[2:]
        elif shape == 'diamond':
            for b in bases[:-1]:
                b['includes'] = [len(bases) - 1]
            top = bases[:-1]
        rnd.shuffle(top)                     # include order is part of the input
        spec['base'] = {'all': bases, 'top': [bases.index(b) for b in top], 'shape': shape}
        for b in bases:
            decls.append('int %suse_%s(%sbt *);\n' % (p, b['prefix'], b['prefix']))
    extras = (API_EXTRAS if mode == 'c' else ABI_EXTRAS) + COMMON_EXTRAS
    for e in rnd.sample(extras, rnd.randrange(0, len(extras) + 1)):
        decls.append(e.format(p=p, P=p.upper()) + '\n')
    rk = random.Random(seed ^ 0xBEEF)         # (own stream: the draws above stay what they were)
    spec['cdef2'] = None
    if rk.random() < 0.25:
        spec['cdef2'] = {'text': rk.choice(CDEF2).format(p=p) + '\n',
                         'opts': rk.choice([{'packed': True}, {'pack': 1}, {'override': True},
                                            {'packed': False}])}
    spec['kwds'] = [rk.choice(KWDS), rk.choice(KWDS)]
    spec['ext'] = rk.choice(['.c'] * 5 + ['.cpp', '.cc']) if mode == 'c' else '.py'
    kind = None
    if variant:
        kind = VARIANTS[variant]
        if kind == 'random':
            kind = random.Random(seed ^ 0xC23).choice(['decl', 'name', 'source'][:3 if mode == 'c'
                                                                                  else 2])
        spec['changed'] = kind
        if kind == 'decl':
            decls.append('long %sadded_in_variant(long);\n' % p)
        elif kind == 'name':
            name += 'v'
    src = None
    if mode == 'c':
        src = c.c_source()
        for _ in range(rnd.randrange(0, 4)):
            src += '/* %s */\n' % ' '.join(rnd.choice(WORDS) for _ in range(rnd.randint(1, 4)))
        src += '/* v%d */\n' % (kind == 'source')      # same-length change of the C source
        r = rnd.random()
        if r < 0.08:
            src = src.replace('\n', '\r\n')
        elif r < 0.12:
            src += '// classic line end\r// second line\r'
        if kind == 'lineends':
            src, spec['lineends'] = change_line_ends(src, random.Random(seed ^ 0x1E))
        if rnd.random() < 0.2:
            spec['embed'] = {'api': 'int %semb(int);' % p,
                             'init': 'from %s import ffi\n# %s\n@ffi.def_extern()\ndef %semb(x):\n'
                                     '    return x + %d\n' % (name, rnd.choice(WORDS), p,
                                                              rnd.randrange(100))}
    spec.update(cdef=''.join(decls), name=name, src=src, cr=bool(src and '\r' in src))
    return spec


def build_ffi(spec, alt=0, hold_extra=False):
    """alt=1: other set_source() keywords (the text does not depend on them);
    hold_extra: leave out the declaration a variant-3 spec adds (the caller cdef()s it later)"""
    from cffi import FFI
    ffi = FFI()
    b = spec['base']
    if b:
        made = {}

        def mk(i):
            if i not in made:
                d = b['all'][i]
                f = FFI()
                for j in d['includes']:
                    f.include(mk(j))
                f.cdef(d['cdef'])
                f.set_source(d['name'], d['src'])
                made[i] = f
            return made[i]
        for i in b['top']:
            ffi.include(mk(i))
    if spec['embed']:
        ffi.embedding_api(spec['embed']['api'])
    text = spec['cdef']
    if hold_extra:
        assert spec['changed'] == 'decl' and text.endswith(added_decl(spec))
        text = text[:-len(added_decl(spec))]
    ffi.cdef(text)
    if spec['cdef2']:
        ffi.cdef(spec['cdef2']['text'], **spec['cdef2']['opts'])
    kw = dict(spec['kwds'][alt])
    if spec['ext'] not in ('.c', '.py'):
        kw['source_extension'] = spec['ext']
    ffi.set_source(spec['name'], spec['src'], **kw)
    if spec['embed']:
        ffi.embedding_init_code(spec['embed']['init'])
    return ffi


def make_source_verbose(spec):
    return {'verbose': True} if spec['seed'] & 1 else {}


def added_decl(spec):
    return 'long m%d_added_in_variant(long);\n' % (spec['seed'] % 100000)


def hows(spec, distext=True):
    """the entry points that write a generated source without running the C compiler
    (distutils_extension() imports setuptools, > 1 s per process: idem monitor only)"""
    return ['emit', 'recompile', 'tmpdir', 'make_source'] + (
        ['compile'] if spec['src'] is None else ['distext'] if distext else [])


def target_path(spec, base, how):
    if how in ('tmpdir', 'compile', 'distext'):
        return os.path.join(base + '.d', *spec['name'].split('.')) + spec['ext']
    return base + ('.c' if spec['src'] is not None else '.py')


def emit(ffi, spec, base, how):
    """Run one real entry point; returns (target path, text printed on stdout, the 'updated'
    value the entry point reports to its caller or None when it reports none)."""
    from cffi import recompiler
    path = target_path(spec, base, how)
    buf, err = io.StringIO(), io.StringIO()
    reported = None
    with contextlib.redirect_stdout(buf):
        if how == 'emit':
            (ffi.emit_c_code if spec['src'] is not None else ffi.emit_python_code)(path)
        elif how == 'recompile':
            _, reported = recompiler.recompile(ffi, spec['name'], spec['src'], c_file=path,
                                               call_c_compiler=False, uses_ffiplatform=False,
                                               compiler_verbose=0)
        elif how == 'tmpdir':
            _, reported = recompiler.recompile(ffi, spec['name'], spec['src'], tmpdir=base + '.d',
                                               call_c_compiler=False, uses_ffiplatform=False,
                                               source_extension=spec['ext'])
        elif how == 'make_source':          # what setuptools_ext's build steps call
            if spec['src'] is not None:
                reported = recompiler.make_c_source(ffi, spec['name'], spec['src'], path,
                                                    **make_source_verbose(spec))
            else:
                reported = recompiler.make_py_source(ffi, spec['name'], path,
                                                     **make_source_verbose(spec))
        elif how == 'distext':
            with contextlib.redirect_stderr(err):
                ext = ffi.distutils_extension(tmpdir=base + '.d')
            assert os.path.abspath(ext.sources[0]) == os.path.abspath(path), (ext.sources, path)
            said = err.getvalue()
            reported = {(True, False): True, (False, True): False}.get(
                ('regenerated: ' in said, 'not modified: ' in said), said)
        elif how == 'compile':
            got = ffi.compile(tmpdir=base + '.d', verbose=1)
            assert os.path.abspath(got) == os.path.abspath(path), (got, path)
    return path, buf.getvalue(), reported


def rd(path):
    try:
        with open(path, 'rb') as f:
            return f.read()
    except FileNotFoundError:
        return None


def wr(path, data):
    os.makedirs(os.path.dirname(path), exist_ok=True)
    with open(path, 'wb') as f:
        f.write(data)


def where_differs(a, b):
    if a is None or b is None:
        return 'one side missing'
    la, lb = a.split(b'\n'), b.split(b'\n')
    for i, (x, y) in enumerate(zip(la, lb)):
        if x != y:
            return 'line %d: %r vs %r' % (i + 1, x[:120], y[:120])
    return 'lengths %d vs %d lines' % (len(la), len(lb))


# ---------------------------------------------------------------------------
# the postcondition on recompiler._make_c_or_py_source

class ContractBroken(Exception):
    pass


class Snap(object):
    def __init__(self, target):
        self.filelike = hasattr(target, 'write')
        self.data, self.st = None, None
        if not self.filelike:
            self.data = rd(target)
            if self.data is not None:
                st = os.stat(target)
                self.st = (st.st_mtime_ns, st.st_ino)


def child_setup(setup, wd):
    import warnings
    warnings.simplefilter('ignore')
    from cffi import recompiler
    st = {'wd': wd, 'orig': recompiler._make_c_or_py_source, 'flags': [], 'evals': [0],
          'contract': 'plain-wrapper'}
    orig = st['orig']

    def snap_target(target_file):
        return Snap(target_file)

    def flag_iff_bytes_changed(result, target_file, OLD):
        st['evals'][0] += 1
        st['flags'].append(result)
        if OLD.before.filelike:
            return result is True
        return result == (Snap(target_file).data != OLD.before.data)

    def untouched_when_not_updated(result, target_file, OLD):
        return bool(result) or OLD.before.filelike or Snap(target_file).st == OLD.before.st

    def err_flag(result, target_file):
        return ContractBroken('flag-iff-bytes-changed', result)

    def err_touched(result, target_file):
        return ContractBroken('touched-when-not-updated', result)

    if os.path.isdir(os.path.join(DEPS, 'icontract')):
        sys.path.append(DEPS)
        import icontract
        wrapped = icontract.snapshot(snap_target, name='before')(
            icontract.ensure(flag_iff_bytes_changed, error=err_flag)(
                icontract.ensure(untouched_when_not_updated, error=err_touched)(orig)))
        st['contract'] = 'icontract'
    else:
        def wrapped(ffi, module_name, preamble, target_file, verbose):
            class OLD:
                before = snap_target(target_file)
            result = orig(ffi, module_name, preamble, target_file, verbose)
            if not untouched_when_not_updated(result, target_file, OLD):
                raise err_touched(result, target_file)
            if not flag_iff_bytes_changed(result, target_file, OLD):
                raise err_flag(result, target_file)
            return result
    recompiler._make_c_or_py_source = wrapped
    sys.monitoring.use_tool_id(TOOL, 'c23')
    return st


def run_emit(st, rep, spec, ffi, base, how, detail, step=''):
    """emit() under the contract; returns (path, flag, stdout text, contract broken?).
    st['reported'] is what the entry point itself reported (None: nothing)."""
    del st['flags'][:]
    broken = None
    st['reported'] = None
    try:
        path, out, st['reported'] = emit(ffi, spec, base, how)
    except ContractBroken as e:
        broken = e.args[0]
        path, out = target_path(spec, base, how), ''
        what = ('the (st_mtime_ns, st_ino) of the target changed' if broken.startswith('touched')
                else 'the bytes of the target %s' % ('did not change' if e.args[1] else 'changed'))
        rep.bad('contract:%s%s' % (broken, ':cr-in-source' if spec['cr'] else ''),
                'seed %d (%s mode, module %r, via %s) %s: _make_c_or_py_source returned %r but %s'
                % (spec['seed'], spec['mode'], spec['name'], how, step, e.args[1], what), detail)
    return path, (st['flags'][-1] if st['flags'] else None), out, broken


def child_case(st, case):
    rep = core.ChildRep()
    rep.stat('contract_' + st['contract'])
    before = st['evals'][0]
    extra = {}
    try:
        extra = OPS[case['op']](st, rep, case) or {}
    except Exception:
        import traceback
        rep.bad('harness-exception', traceback.format_exc()[-1500:], None)
    rep.stat('contract_evaluations', st['evals'][0] - before)
    res = rep.result()
    res.update(extra)
    return res


# ---------------------------------------------------------------------------
# det

def op_det(st, rep, case):
    hs = os.environ.get('PYTHONHASHSEED')
    hashes = {}
    for k, seed in enumerate(case['seeds']):
        spec = make_spec(seed, case.get('variant', 0))
        detail = {'op': 'det', 'seeds': [seed], 'hs': hs}
        base = os.path.join(st['wd'], 'det%d' % k, 'x')
        os.makedirs(os.path.dirname(base))
        hw = hows(spec, distext=False)
        random.Random('%s/%s' % (seed, hs)).shuffle(hw)     # differs between processes
        ffi = build_ffi(spec)
        p1, _, _, _ = run_emit(st, rep, spec, ffi, base + 'a', hw[0], detail)
        b1 = rd(p1)
        rep.stat('det_entry_point_' + hw[0])
        rep.case(('det', hs, seed, hw[0]), nontrivial=bool(b1), sample={
            'seed': seed, 'mode': spec['mode'], 'module': spec['name'], 'bytes': len(b1 or b''),
            'include': bool(spec['base']), 'embedding': bool(spec['embed'])})
        rep.stat('det_specs_' + spec['mode'])
        for feat in ('base', 'embed', 'cr', 'cdef2'):
            if spec[feat]:
                rep.stat('det_specs_with_' + feat)
        if spec['base']:
            rep.stat('det_specs_with_%d_includes_%s' % (len(spec['base']['all']),
                                                        spec['base']['shape']))
        if spec['ext'] not in ('.c', '.py'):
            rep.stat('det_specs_with_source_extension')

        def same(label, data, how):
            rep.case(('det', hs, seed, label, how))
            rep.stat('det_cmp_' + label)
            if data != b1:
                rep.bad('determinism:' + label, 'seed %d (%s mode, PYTHONHASHSEED=%s): %s via %s '
                        'differs from the first generation via %s: %s' %
                        (seed, spec['mode'], hs, label, how, hw[0], where_differs(b1, data)), detail)
        p2, _, _, _ = run_emit(st, rep, spec, ffi, base + 'b', hw[0], detail)
        same('same-ffi-repeated', rd(p2), hw[0])
        for i, how in enumerate(hw[1:2]):
            # (the fresh FFI is given other set_source() keywords: not an input of the text)
            p3, _, _, _ = run_emit(st, rep, spec, build_ffi(spec, alt=1), base + 'c%d' % i, how,
                                   detail)
            same('fresh-ffi-other-entry-point', rd(p3), how)
            rep.stat('det_entry_point_' + how)
            if spec['kwds'][0] != spec['kwds'][1]:
                rep.stat('det_cmp_other_set_source_keywords')
        f = io.StringIO()
        with contextlib.redirect_stdout(io.StringIO()):
            (ffi.emit_c_code if spec['src'] is not None else ffi.emit_python_code)(f)
        same('file-like-target', f.getvalue().encode('utf-8'), 'emit')
        hashes[str(seed)] = hashlib.sha256(b1 or b'').hexdigest()[:20]
        if case.get('want_text'):
            hashes['text'] = (b1 or b'').decode('utf-8', 'replace')
        shutil.rmtree(os.path.dirname(base), ignore_errors=True)
    return {'h': hashes}


# ---------------------------------------------------------------------------
# idem

OLD_NS = 10 ** 18            # 2001-09-09: any rewrite shows in st_mtime_ns


def op_idem(st, rep, case):
    for seed in case['seeds']:
        idem_one(st, rep, seed)


DERIVED = ('tmpdir', 'compile', 'distext')     # the file name is derived from the module name
REPORTING = ('recompile', 'tmpdir', 'make_source', 'distext')    # hand 'updated' to the caller
LE = ':line-ends-only-change'


def idem_one(st, rep, seed):
    rnd = random.Random(seed ^ 0x1DE)
    specs = {0: make_spec(seed), 1: make_spec(seed, 1)}
    s0 = specs[0]
    if s0['mode'] == 'c':
        specs[2] = make_spec(seed, 2)
    detail = {'op': 'idem', 'seeds': [seed]}
    base = os.path.join(st['wd'], 'idem%d' % seed)
    how = rnd.choice(hows(s0))
    if s0['name'] != specs[1]['name'] and how in DERIVED:
        how = 'emit'              # the derived file name would change with the module name
    ref = {}
    for v, s in sorted(specs.items()):
        p, _, _, _ = run_emit(st, rep, s, build_ffi(s), base + 'ref%d' % v, 'emit', detail)
        ref[v] = rd(p)
    target = target_path(s0, base, how)
    pre = rnd.choice(['absent', 'absent', 'empty', 'prefix', 'extended', 'onechar',
                      'crlf-copy', 'undecodable', 'last-byte-cut', 'last-byte-changed'])
    N0 = ref[0]
    if pre != 'absent':
        k = rnd.choice([i for i in range(len(N0)) if N0[i] < 0x80])    # an ASCII byte
        wr(target, {'empty': b'', 'prefix': N0[:k], 'extended': N0 + b'\n',
                    'onechar': N0[:k] + bytes([N0[k] ^ 1]) + N0[k + 1:],
                    'crlf-copy': N0.replace(b'\r\n', b'\n').replace(b'\n', b'\r\n'),
                    'undecodable': N0[:k] + b'\xff\xfe' + N0[k:],
                    'last-byte-cut': N0[:-1], 'last-byte-changed': N0[:-1] + b' '}[pre])

    def step(label, s, want_data, want, ffi, how, le=''):
        """one regeneration of `target` by `ffi` (built from spec s): afterwards the target is
        want_data, the flag is `want`, and an unchanged target was not touched"""
        old = Snap(target)
        if old.data is not None and not label.startswith('first'):
            os.utime(target, ns=(OLD_NS, OLD_NS))
            old = Snap(target)
        try:
            path, flag, out, broken = run_emit(st, rep, s, ffi, base, how, detail, 'step ' + label)
        except Exception as e:
            if pre == 'undecodable' and label.startswith('first') and rd(target) == old.data:
                rep.stat('obs_undecodable_target_raises_' + type(e).__name__)
                wr(target, want_data)                             # outside the statement
                return
            raise
        assert path == target, (path, target)
        reported = st['reported']
        new = Snap(target)
        key = label.split(':')[0]
        rep.case(('idem', seed, how, label), sample={'seed': seed, 'how': how, 'step': label})
        rep.stat('idem_step_' + key)
        rep.stat('idem_via_' + how)
        if label.startswith('first'):
            rep.stat('idem_pre_' + pre)
        if pre == 'crlf-copy' and label.startswith('first') and new.data != want_data:
            rep.stat('obs_crlf_copy_target_left_as_is')           # outside the statement
            wr(target, want_data)
            return
        sfx = le or (':cr-in-source' if s['cr'] else '')
        msg = ('seed %d (%s mode, module %r, via %s) step %s: ' % (
            seed, s['mode'], s['name'], how, label))
        if le:
            msg += '(only the line ends of the C source changed: %s) ' % le_how[0]
        if new.data != want_data:
            rep.bad('idempotence:wrong-content' + (le or '-after-' + key), msg + 'target differs '
                    'from a fresh generation: ' + where_differs(want_data, new.data), detail)
            wr(target, want_data)          # the following steps are judged on their own
        if not broken and flag is not want:
            rep.bad('idempotence:%s%s' % ('rewritten-identical' if want is False else
                                           'reported-not-updated', sfx),
                    msg + 'updated flag %r, expected %r' % (flag, want), detail)
        if want is False and not broken and new.st != old.st:
            rep.bad('idempotence:touched-identical' + sfx, msg + '(st_mtime_ns, st_ino) %r '
                    '-> %r although the content was already identical' % (old.st, new.st),
                    detail)
        if (how in ('emit', 'tmpdir', 'compile', 'distext') or
                (how == 'make_source' and make_source_verbose(s))) and not broken:   # verbose
            rep.stat('idem_message_checked')
            if ('(already up-to-date)' in out) != (flag is False) or 'generating' not in out:
                rep.bad('report:up-to-date-message', msg + 'printed %r with flag %r' %
                        (out[-200:], flag), detail)
        if how in REPORTING and not broken:
            # what the entry point hands to its caller (recompile()'s 'updated', make_*_source()'s
            # result, distutils_extension()'s "regenerated"/"not modified") is the inner decision
            rep.stat('idem_reported_flag_checked_' + how)
            if reported not in (True, False) or reported is not flag:
                rep.bad('report:returned-flag:' + how, msg + 'the entry point reported %r, '
                        '_make_c_or_py_source decided %r' % (reported, flag), detail)

    le_how = [specs[2].get('lineends')] if 2 in specs else [None]
    steps = [('first:' + pre, 0, True, ''), ('again', 0, False, ''), ('changed', 1, True, ''),
             ('again-changed', 1, False, ''), ('back', 0, True, '')]
    if 2 in specs:
        steps += [('lineends', 2, True, LE), ('again-lineends', 2, False, ''),
                  ('back-lineends', 0, True, LE)]
        rep.stat('idem_lineends_' + le_how[0])
    for label, v, want, le in steps:
        step(label, specs[v], ref[v], want, build_ffi(specs[v]), how, le)
    for v in specs:
        if v and ref[0] == ref[v]:
            rep.bad('harness-variant-identical', 'seed %d: variant %d did not change the output'
                    % (seed, v), detail)
    # history on ONE FFI object: generate, cdef() one more declaration, generate again; the
    # second text is what a fresh FFI given all the declarations generates
    s3 = specs[1] if specs[1]['changed'] == 'decl' else make_spec(seed, 3)
    if s3 is not specs[1]:
        p, _, _, _ = run_emit(st, rep, s3, build_ffi(s3), base + 'ref3', 'emit', detail)
        ref[3] = rd(p)
    else:
        ref[3] = ref[1]
    how2 = rnd.choice([h for h in hows(s0)])
    if how2 != how:
        shutil.rmtree(base + '.d', ignore_errors=True)
        for f in (target, target_path(s0, base, how2)):
            if os.path.exists(f):
                os.unlink(f)
        target = target_path(s0, base, how2)
        pre = 'absent'
    ffi = build_ffi(s3, hold_extra=True)
    step('inc-before', s0, ref[0], rd(target) != ref[0], ffi, how2)
    ffi.cdef(added_decl(s3))
    step('inc-more-cdef', s3, ref[3], True, ffi, how2)
    step('inc-again', s3, ref[3], False, ffi, how2)
    shutil.rmtree(base + '.d', ignore_errors=True)


# ---------------------------------------------------------------------------
# crash (in-process fault enumeration)

class Fault(BaseException):
    """asynchronous exception injected at a failpoint (like KeyboardInterrupt)"""


class ChoppedWriter(object):
    """unbuffered text file taking short writes, so that exactly arm['stops'][i] bytes have
    reached the file when a stop is taken (every byte offset is a possible crash point)"""
    def __init__(self, path, arm):
        self.fd = os.open(path, os.O_WRONLY | os.O_CREAT | os.O_TRUNC, 0o644)
        self.arm, self.stops = arm, sorted(arm['stops'])

    def stop(self):
        a = self.arm
        while self.stops and self.stops[0] == a['n']:
            self.stops.pop(0)
            if a['kind'] == 'write-snapshot':
                a['observe']('byte %d' % a['n'])
            elif a['kind'] == 'write-exit':
                os._exit(77)
            else:
                raise OSError(errno.ENOSPC, 'No space left on device (injected)')

    def write(self, s):
        data = s.encode('utf-8')
        while data:
            self.stop()
            room = self.stops[0] - self.arm['n'] if self.stops else 4096
            k = os.write(self.fd, data[:max(1, min(4096, room))])
            self.arm['n'] += k
            data = data[k:]
        return len(s)

    def close(self):
        if self.fd is not None:
            fd, self.fd = self.fd, None
            try:
                self.stop()              # everything written, file not yet closed
            finally:
                os.close(fd)

    def __enter__(self):
        return self

    def __exit__(self, *a):
        self.close()


def op_crash(st, rep, case):
    from cffi import recompiler
    import builtins
    code = st['orig'].__code__
    mon = sys.monitoring
    arm = {'kind': None}

    def on_line(c, line):
        k = arm['kind']
        if k and k.startswith('line-'):
            arm['n'] += 1
            arm['line'] = line
            if k == 'line-snapshot':
                arm['observe']('line %d' % line)
            elif arm['n'] == arm['at']:
                if k == 'line-exit':
                    os._exit(77)
                raise Fault()

    def chopped_open(path, mode='r', *a, **k):
        if 'w' in mode and arm['kind'] and str(path).startswith(st['wd']):
            if arm['kind'] == 'open-eacces':
                raise PermissionError(errno.EACCES, 'Permission denied (injected)', path)
            if arm['kind'].startswith('write-'):
                return ChoppedWriter(path, arm)
        return builtins.open(path, mode, *a, **k)

    # the step that moves the new file onto the target (os.rename, os.replace, whichever the
    # code under test calls, also as a fallback of the other) can fail once or every time
    real = {'rename': os.rename, 'replace': os.replace}
    ren = {'mode': None, 'calls': 0, 'failed': []}

    def faulty(fn):
        def move(a, b, *args, **kw):
            ren['calls'] += 1
            if ren['mode'] == 'rename-fails-always' or (ren['mode'] == 'rename-fails-once' and
                                                       ren['calls'] == 1):
                ren['failed'].append(fn)
                raise OSError(errno.EEXIST if fn == 'rename' else errno.EACCES,
                              'move onto the target refused (injected)', b)
            return real[fn](a, b, *args, **kw)
        return move

    mon.register_callback(TOOL, mon.events.LINE, on_line)
    mon.set_local_events(TOOL, code, mon.events.LINE)
    recompiler.open = chopped_open
    os.rename, os.replace = faulty('rename'), faulty('replace')
    try:
        for seed in case['seeds']:
            crash_one(st, rep, case, seed, arm, ren)
    finally:
        os.rename, os.replace = real['rename'], real['replace']
        del recompiler.open
        mon.set_local_events(TOOL, code, 0)
        mon.register_callback(TOOL, mon.events.LINE, None)


def crash_one(st, rep, case, seed, arm, ren):
    s0, s1 = make_spec(seed), make_spec(seed, 1)
    base = os.path.join(st['wd'], 'crash%d' % seed)
    refs = {}
    for v, s in ((0, s0), (1, s1)):
        p, _, _, _ = run_emit(st, rep, s, build_ffi(s), base + 'ref%d' % v, 'emit', None)
        refs[v] = rd(p)
    O, N = refs[0], refs[1]
    ffi = build_ffi(s1)
    d = base + '.t'
    target = os.path.join(d, 'out' + ('.c' if s1['src'] is not None else '.py'))
    tname = os.path.basename(target)

    def judge(scenario, kind, at, outcome, where, old):
        """the target as a process stopping right now (or having stopped) leaves it"""
        now = rd(target)
        state = ('old' if now == old else 'new' if now == N else
                 'missing' if now is None else 'partial' if N.startswith(now) or
                 (old or b'').startswith(now) else 'other')
        names = sorted(os.listdir(d))
        rep.case(('crash', seed, scenario, kind, at, where),
                 sample={'seed': seed, 'scenario': scenario, 'fault': kind, 'where': where,
                         'outcome': outcome, 'target': state})
        rep.stat('crash_%s_%s' % (kind, outcome))
        rep.stat('crash_target_' + state)
        rep.stat('crash_scenario_' + scenario)
        if any(f != tname for f in names):
            rep.stat('crash_leftover_tmp_files')
        if [f for f in names if f != tname and not re.match(re.escape(tname) + r'\.~\d+\Z', f)]:
            rep.stat('obs_crash_stray_files')
        if state not in ('old', 'new'):
            fb = ':rename-fallback' if scenario.startswith('rename') else ''
            rep.bad('crash:target-%s%s' % (state, fb), 'seed %d (module %r) scenario %s, fault %s '
                    'at %s: the target is %s (%s bytes; old content %s, new content %d bytes), the '
                    'directory holds %r' % (seed, s1['name'], scenario, kind, where, state,
                                            'no' if now is None else len(now),
                                            'absent' if old is None else '%d bytes' % len(old),
                                            len(N), names),
                    {'op': 'crash', 'seeds': [seed], 'only': [scenario, kind, at]})

    def attempt(scenario, kind, at=None):
        shutil.rmtree(d, ignore_errors=True)
        os.makedirs(d)
        old = None if scenario == 'no-old-file' else O
        if scenario == 'symlink-target':
            # the target path is a symbolic link to a file that holds the old text
            real = os.path.join(d, 'real_' + os.path.basename(target))
            wr(real, old)
            os.symlink(real, target)
        elif old is not None:
            wr(target, old)

        def observe(where):
            try:
                judge(scenario, kind, at, 'alive', where, old)
            except Exception as e:
                rep.bad('harness-observe', repr(e), None)
        ren.update(mode=scenario if scenario.startswith('rename') else None, calls=0, failed=[])
        arm.update(kind=kind, at=at, n=0, line=None, observe=observe,
                   stops=at if isinstance(at, list) else [at])
        outcome = 'completed'
        if kind.endswith('-exit'):          # a real process that really dies
            pid = os.fork()
            if pid == 0:
                try:
                    with contextlib.redirect_stdout(io.StringIO()):
                        s1_emit(ffi, s1, target)
                except BaseException:
                    os._exit(78)
                os._exit(0)
            rc = os.waitstatus_to_exitcode(os.waitpid(pid, 0)[1])
            outcome = {77: 'crashed', 78: 'raised', 0: 'completed'}.get(rc, 'rc=%s' % rc)
        else:
            try:
                with contextlib.redirect_stdout(io.StringIO()):
                    s1_emit(ffi, s1, target)
            except Fault:
                outcome = 'crashed'
            except ContractBroken:
                pass                         # the idem monitor's matter
            except OSError:
                outcome = 'raised'
        n, line = arm['n'], arm['line']
        arm.update(kind=None)
        ren.update(mode=None)
        for fn in ren['failed']:
            rep.stat('crash_move_step_failed_os.' + fn)
        if scenario.startswith('rename') and kind == 'none' and not ren['failed']:
            rep.stat('obs_crash_move_step_not_intercepted')
        where = 'end' if kind.endswith('snapshot') or kind == 'none' else \
            'line %s (event %s)' % (line, at) if kind.startswith('line-') else 'byte %s' % at
        judge(scenario, kind, at, outcome, where, old)
        if outcome == 'completed' and not (kind.endswith('snapshot') or kind == 'none'):
            rep.bad('harness-fault-not-reached', 'seed %d %s %s at %s: the fault never fired'
                    % (seed, scenario, kind, at), None)
        return n

    if case.get('only'):
        attempt(*case['only'])
        return
    rnd = random.Random(seed)
    for scenario in ('replace', 'no-old-file', 'rename-fails-once', 'rename-fails-always',
                     'symlink-target'):
        attempt(scenario, 'none')
        # the file system as a process dying at each LINE event leaves it, in one run
        nlines = attempt(scenario, 'line-snapshot')
        rep.stat('crash_line_events_listed', nlines)
        for i in range(1, nlines + 1):
            attempt(scenario, 'line-raise', i)
        for i in rnd.sample(range(1, nlines + 1), 2):      # cross-check with a real os._exit
            attempt(scenario, 'line-exit', i)
        if scenario in ('replace', 'no-old-file', 'symlink-target'):
            L = len(N)
            rep.stat('crash_output_bytes', L)
            pts = sorted({0, 1, 2, L // 2, L - 2, L - 1, L} | {rnd.randrange(L) for _ in range(40)})
            attempt(scenario, 'write-snapshot', pts)
            for j in rnd.sample(pts, 8) + [L]:
                attempt(scenario, 'write-enospc', j)
            attempt(scenario, 'write-exit', rnd.choice(pts))
            attempt(scenario, 'open-eacces', 0)
    shutil.rmtree(d, ignore_errors=True)


def s1_emit(ffi, spec, target):
    (ffi.emit_c_code if spec['src'] is not None else ffi.emit_python_code)(target)


OPS = {'det': op_det, 'idem': op_idem, 'crash': op_crash}


# ---------------------------------------------------------------------------
# strace: SIGKILL on entry of every syscall of the write window (parent side)

WORKER = ("import sys, os; from props import c23; a = sys.argv; "
          "s = c23.make_spec(int(a[1]), int(a[2])); f = c23.build_ffi(s); "
          "sys.stdout = open(os.devnull, 'w'); c23.s1_emit(f, s, a[3]); os.write(1, b'DONE\\n')")
R_CALL = re.compile(r'^(?:\d+\s+)?(\w+)\((.*)$')


def norm(args):
    args = re.split(r' <unfinished|\) += ', args)[0]
    args = re.sub(r'\.~\d+', '.~PID', args)
    return re.sub(r'0x[0-9a-f]+', 'P', args).rstrip(')')


def quiet_pkg(ctx):
    """A private copy of the modules the worker imports.  importlib re-lists a
    sys.path directory whose mtime changes while the process runs; /verif changes
    all the time (other checks, lock files), which shifts syscall ordinals between
    the listing run and the injected runs."""
    pkg = os.path.join(ctx.tmp, 'quietpkg')
    if not os.path.isdir(pkg):
        os.makedirs(os.path.join(pkg, 'props'))
        shutil.copytree(os.path.join(core.VERIF, 'vlib'), os.path.join(pkg, 'vlib'),
                        ignore=shutil.ignore_patterns('__pycache__'))
        for fn in ('__init__.py', 'c23.py'):
            shutil.copy(os.path.join(core.VERIF, 'props', fn), os.path.join(pkg, 'props', fn))
    return pkg


def worker(ctx, seed, variant, target, strace=None, timeout=120):
    env = build.child_env('plain')
    pkg = quiet_pkg(ctx)
    env['PYTHONPATH'] = os.pathsep.join(
        [x if os.path.abspath(x) != os.path.abspath(core.VERIF) else pkg
         for x in env['PYTHONPATH'].split(os.pathsep)])
    cmd = (strace or []) + build.python_cmd('plain') + ['-c', WORKER, str(seed), str(variant),
                                                         target]
    try:
        p = subprocess.run(cmd, env=env, cwd=pkg, stdout=subprocess.PIPE,
                           stderr=subprocess.PIPE, timeout=timeout)
    except subprocess.TimeoutExpired:
        return None
    return p


def parse_trace(path):
    calls = []
    with open(path, errors='replace') as f:
        for line in f:
            m = R_CALL.match(line)
            if m and 'resumed>' not in line:
                calls.append((m.group(1), m.group(2).rstrip('\n')))
    return calls


def strace_seed(ctx, seed, exe, only=None):
    d = os.path.join(ctx.tmp, 'strace%d' % seed)
    os.makedirs(d, exist_ok=True)
    ext = '.c' if make_spec(seed)['src'] is not None else '.py'
    refs = []
    for v in (0, 1):
        p = worker(ctx, seed, v, os.path.join(d, 'ref%d%s' % (v, ext)))
        if p is None or p.returncode != 0:
            ctx.inconclusive('strace reference worker failed: %s' %
                             (p.stderr.decode(errors='replace')[-300:] if p else 'timeout'))
            return
        refs.append(rd(os.path.join(d, 'ref%d%s' % (v, ext))))
    O, N = refs

    def run_point(tag, opts):
        pd = os.path.join(d, tag)
        shutil.rmtree(pd, ignore_errors=True)
        os.makedirs(pd)
        target = os.path.join(pd, 'out' + ext)
        wr(target, O)
        log = os.path.join(pd + '.trace')
        p = worker(ctx, seed, 1, target, [exe, '-f', '-o', log] + opts)
        return p, target, log, pd

    p, target, log, pd = run_point('listing', [])
    if p is None or rd(target) != N or b'DONE' not in p.stdout:
        ctx.inconclusive('strace listing run did not regenerate the target')
        return
    calls = parse_trace(log)
    first = [i for i, (nm, a) in enumerate(calls) if nm in ('openat', 'open') and target in a]
    last = [i for i, (nm, a) in enumerate(calls) if nm == 'write' and a.startswith('1, "DONE')]
    if not first or not last:
        ctx.inconclusive('strace listing: write window not found')
        return
    points = []
    seen = {}
    for i, (nm, a) in enumerate(calls):
        seen[nm] = seen.get(nm, 0) + 1
        if first[0] <= i <= last[0]:
            points.append({'name': nm, 'ordinal': seen[nm], 'args': norm(a).replace(pd, 'DIR'),
                           'pos': i - first[0]})
    ctx.count('strace_window_syscalls_listed', len(points))
    if only is not None:
        points = [q for q in points if q['pos'] == only]
    elif not ctx.thorough:        # quick: allocator calls inside the window are skipped
        points = [q for q in points if q['name'] not in ('mmap', 'munmap', 'brk', 'madvise',
                                                         'mremap')]

    # Ordinals are re-measured with the same '-e trace=NAME' filter the injected runs use
    # (a fully traced process runs much slower, and start-up makes a few more or fewer
    # stat/open calls depending on timing): per syscall name one filtered listing run, whose
    # calls are matched to the window entries by their arguments.
    def remeasure(name):
        p, target, log, pd = run_point('filt_' + name, ['-e', 'trace=' + name])
        if p is None or b'DONE' not in p.stdout:
            return
        got = [norm(a).replace(pd, 'DIR') for nm, a in parse_trace(log) if nm == name]
        mine = [q for q in points if q['name'] == name]
        # the window entries are the last calls of that name before the end, in order
        j = len(got)
        for q in reversed(mine):
            k = j - 1
            while k >= 0 and not (got[k].startswith(q['args']) or q['args'].startswith(got[k])):
                k -= 1
            if k < 0:
                return
            q['ordinal_filtered'] = k + 1
            j = k
    with cf.ThreadPoolExecutor(8) as ex:
        list(ex.map(remeasure, sorted(set(q['name'] for q in points))))
    for q in points:
        if 'ordinal_filtered' in q:
            if q['ordinal_filtered'] != q['ordinal']:
                ctx.count('strace_ordinals_shifted_by_filtering')
            q['ordinal'] = q['ordinal_filtered']

    def one(q):
        # the ordinal of a syscall counted from process start can shift by one between
        # runs (importlib re-lists a sys.path directory whose mtime just changed): a
        # misaligned run says nothing about cffi and is repeated
        for attempt in range(4):
            r = one_try(q, attempt)
            if r[1] == 'aligned':
                break
        return r

    def one_try(q, attempt):
        tag = 'p%d_%d' % (q['pos'], attempt)
        p, target, log, pd = run_point(tag, [
            '-e', 'trace=' + q['name'],
            '-e', 'inject=%s:signal=KILL:when=%d' % (q['name'], q['ordinal'])])
        if p is None:
            return q, 'timeout', None, None
        with open(log, errors='replace') as f:
            text = f.read()
        got = [c for c in parse_trace(log) if c[0] == q['name']]
        killed = '+++ killed by SIGKILL +++' in text
        g = norm(got[-1][1]).replace(pd, 'DIR') if got else ''
        aligned = killed and len(got) == q['ordinal'] and b'DONE' not in p.stdout and \
            (q['args'].startswith(g) or g.startswith(q['args']))
        now = rd(target)
        state = ('old' if now == O else 'new' if now == N else 'missing' if now is None else
                 'partial' if N.startswith(now) or O.startswith(now) else 'other')
        if not aligned and os.environ.get('VERIF_C23_DEBUG'):
            sys.stderr.write('MISALIGNED %r killed=%r ngot=%d got=%r done=%r\n' % (
                q, killed, len(got), g[:200], b'DONE' in p.stdout))
        return q, ('aligned' if aligned else 'misaligned'), state, sorted(os.listdir(pd))

    with cf.ThreadPoolExecutor(8) as ex:
        results = list(ex.map(one, points))
    for q, how, state, listing in results:
        if how != 'aligned':
            ctx.count('strace_points_never_aligned_' + how)
            continue
        ctx.case(('strace', seed, q['pos']), sample={'seed': seed, 'kill_on_entry_of': q['name'],
                                                     'args': q['args'][:80], 'target': state})
        ctx.count('strace_kill_on_entry_' + q['name'])
        ctx.count('strace_target_' + state)
        if state not in ('old', 'new'):
            ctx.violation('crash:target-%s:sigkill' % state,
                          'seed %d: SIGKILL on entry of syscall #%d of the write window, %s(%s): '
                          'target is %s; directory holds %r' % (seed, q['pos'], q['name'],
                                                                q['args'][:200], state, listing),
                          {'op': 'strace', 'seed': seed, 'pos': q['pos']})
    bad = sum(1 for r in results if r[1] != 'aligned')
    if results and bad * 4 > len(results):
        ctx.inconclusive('strace: %d of %d injected runs did not stop at the listed syscall'
                         % (bad, len(results)))
    shutil.rmtree(d, ignore_errors=True)


# ---------------------------------------------------------------------------
# parent (children run from worker threads; every ctx update happens in the main thread)

def raw_children(ctx, cases, hs='0', nproc=None):
    return core.run_cases(ctx, 'c23', None, cases, variant='plain', nproc=nproc, shard_size=1,
                          timeout=900, extra_env={'PYTHONHASHSEED': str(hs)})


def absorb_all(ctx, cases, obs):
    good = []
    for c, o in zip(cases, obs):
        if core.std_obs_check(ctx, c, o):
            core.absorb(ctx, c, o, lambda detail: detail)
            good.append((c, o))
    return good


def run_children(ctx, cases, hs='0', nproc=None):
    return absorb_all(ctx, cases, raw_children(ctx, cases, hs, nproc))


def chunks(seq, n):
    return [seq[i:i + n] for i in range(0, len(seq), n)]


def det_cases(seeds, oseed, per=40):
    order = list(seeds)
    random.Random(oseed).shuffle(order)
    return [{'op': 'det', 'seeds': ch} for ch in chunks(order, per)]


def det_judge(ctx, results):
    """results: list of ((label, hashseed, order seed), [(case, obs)])"""
    table = {}                           # seed -> label -> (hash, hashseed, chunk)
    shown = [0]
    for (label, hs, _), good in results:
        for c, o in good:
            for s, h in o.get('h', {}).items():
                table.setdefault(int(s), {})[label] = (h, hs, c['seeds'])
    for seed, row in sorted(table.items()):
        ctx.count('det_specs_compared_across_processes')
        ctx.count('det_process_outputs_compared', len(row))
        if len(set(v[0] for v in row.values())) <= 1:
            continue
        labels = sorted(row)
        a = labels[0]
        b = [l for l in labels if row[l][0] != row[a][0]][0]
        mech = 'determinism:across-hashseeds' if row[a][1] != row[b][1] else \
            'determinism:across-process-history'
        runs = [{'hs': row[l][1], 'seeds': row[l][2][:row[l][2].index(seed) + 1]} for l in (a, b)]
        ctx.violation(mech, 'seed %d: generated source differs between process %s (PYTHONHASHSEED='
                      '%s) and process %s (PYTHONHASHSEED=%s): sha256 %s vs %s; %s' % (
                          seed, a, row[a][1], b, row[b][1], row[a][0], row[b][0],
                          det_diff(ctx, seed, runs) if shown[0] < 4 else
                          'first difference not looked up (see the first violations; --replay)'),
                      {'op': 'detpair', 'seed': seed, 'runs': runs})
        shown[0] += 1


def det_diff(ctx, seed, runs):
    texts = []
    for r in runs:
        good = run_children(ctx, [{'op': 'det', 'seeds': r['seeds'], 'want_text': True}], r['hs'], 1)
        texts.append(good[0][1].get('h', {}).get('text', '').encode() if good else None)
    if texts[0] == texts[1]:
        return 'not reproduced on re-run'
    return 'first difference at ' + where_differs(texts[0], texts[1])


def run(ctx):
    rng = ctx.rng('gen')
    exe = shutil.which('strace')
    n_det, n_idem = ctx.scale(320, 2400), ctx.scale(320, 2400)
    n_crash, n_strace = ctx.scale(6, 50), ctx.scale(1, 6)
    seeds = [rng.getrandbits(40) for _ in range(n_det)]
    rand_hs = str(rng.randrange(4, 2 ** 32))
    settings = [('h0', '0', 1), ('h1', '1', 2), ('h2', '2', 3), ('h3', '3', 4), ('hr', rand_hs, 5),
                ('h0b', '0', 6)]
    ctx.extra['hash_seeds'] = [s[1] for s in settings]
    ctx.tmp
    jobs = [(st, det_cases(seeds, st[2]), st[1], 2) for st in settings]
    jobs.append(('idem', [{'op': 'idem', 'seeds': ch} for ch in chunks(seeds[:n_idem], 30)], '0', 3))
    jobs.append(('crash', [{'op': 'crash', 'seeds': [s]} for s in seeds[:n_crash]], '0', 4))
    with cf.ThreadPoolExecutor(len(jobs)) as ex:
        futs = [ex.submit(raw_children, ctx, cases, hs, nproc) for _, cases, hs, nproc in jobs]
        if exe:
            for s in seeds[:n_strace]:
                strace_seed(ctx, s, exe)
        else:
            ctx.inconclusive('strace is not installed: no SIGKILL crash points')
        results = [(job[0], absorb_all(ctx, job[1], f.result())) for job, f in zip(jobs, futs)]
    det_judge(ctx, [r for r in results if isinstance(r[0], tuple)])
    if not ctx.counters.get('contract_evaluations'):
        ctx.inconclusive('the postcondition on _make_c_or_py_source was never evaluated')


def replay(ctx, data):
    case = data['case']
    op = case['op']
    if op == 'strace':
        strace_seed(ctx, case['seed'], shutil.which('strace'), only=case['pos'])
    elif op == 'detpair':
        hs = []
        for r in case['runs']:
            good = run_children(ctx, [{'op': 'det', 'seeds': r['seeds']}], r['hs'], 1)
            hs.append(good[0][1]['h'].get(str(case['seed'])) if good else None)
        print('hashes:', hs)
        if hs[0] != hs[1]:
            ctx.violation(data['mechanism'], 'seed %d: %s' % (
                case['seed'], det_diff(ctx, case['seed'], case['runs'])), case)
    else:
        run_children(ctx, [case], case.get('hs') or '0', 1)
