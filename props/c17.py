"""C17 -- cdata equality, ordering and hashing are mutually consistent.

Monitors over generated pairs (a, b), at least one a cdata:
  * a == b  =>  hash(a) == hash(b)  (also through dict/set membership);
  * pointer-like cdata compare like their addresses (uintptr_t);
  * primitive cdata compare and hash like the Python value they convert to
    (obtained independently by storing the cdata in memory and reading it).
"""
import sys, os, math, struct
from vlib import gen, core

RULE = ("case = pair (a, b) with at least one cdata; a/b drawn from: primitive cdata of every "
        "integer type, _Bool, enums, char/wchar_t/char16_t/char32_t, float/double/long double, "
        "complex, with values chosen so that pairs are often numerically equal across types "
        "(shared small pool, boundaries, -0.0, NaN, 2**53+1), pointer/array/struct/function cdata "
        "at shared and distinct addresses (same address through different types), and Python "
        "ints/floats/bools/bytes/str; distinct = (repr a, repr b); non-trivial = the two operands "
        "are not the same object")
ASSUMPTIONS = ["long double cdata have no Python value: only the eq=>hash implication is checked for them",
               "wide-character cdata are generated with valid code points only"]

INTT = [t[0] for t in gen.INT_TYPES[:18]] + ['enum e1', 'enum e2']
CDEF = "enum e1 { A1 = -1, B1 = 7 }; enum e2 { A2 = 0, B2 = 4000000000 }; struct s { int a; int b; }; union u { int a; char c; };"
OPS = [('==', lambda a, b: a == b), ('!=', lambda a, b: a != b), ('<', lambda a, b: a < b),
       ('<=', lambda a, b: a <= b), ('>', lambda a, b: a > b), ('>=', lambda a, b: a >= b)]


def generate(ctx):
    rng = ctx.rng('gen')
    n = ctx.scale(150000, 3000000)
    per = 5000
    return None, [{'seed': rng.getrandbits(48), 'n': per} for _ in range(n // per)]


def child_setup(setup, wd):
    from cffi import FFI
    ffi = FFI()
    ffi.cdef(CDEF)
    mem = ffi.new('char[]', 64)
    return {'ffi': ffi, 'mem': mem}


POOL_INTS = [0, 1, -1, 2, 7, 65, 97, 127, 128, 255, 256, -128, 32767, 65535, 65536, 2 ** 31 - 1,
             2 ** 31, -2 ** 31, 2 ** 32 - 1, 2 ** 53, 2 ** 53 + 1, 2 ** 63 - 1, -2 ** 63,
             2 ** 64 - 1, 4000000000]
POOL_FLOATS = [0.0, -0.0, 1.0, -1.0, 0.5, 65.0, 2.0 ** 31, 2.0 ** 53, 2.0 ** 63, 1e300, 1.5,
               float('inf'), float('-inf'), float('nan'), 16777217.0, 0.1]


def make_operand(ffi, mem, rnd):
    """returns (object, pyvalue-or-None, kind, address-or-None)"""
    r = rnd.random()
    if r < 0.30:
        T = rnd.choice(INTT)
        v = rnd.choice(POOL_INTS) if rnd.random() < 0.7 else gen.rand_int(rnd, 64)
        c = ffi.cast(T, v)
        return c, 'prim', None
    if r < 0.36:
        return ffi.cast('_Bool', rnd.choice([0, 1, 2])), 'prim', None
    if r < 0.44:
        T = rnd.choice(['char', 'wchar_t', 'char16_t', 'char32_t'])
        if T == 'char':
            v = rnd.choice([0, 65, 97, 127, 128, 255, rnd.randrange(256)])
        else:
            v = rnd.choice([65, 97, 0xe9, 0x20ac, 0xffff if T != 'char16_t' else 0xfffd,
                            0x1f600 if T != 'char16_t' else 0x41, 0])
        return ffi.cast(T, v), 'prim', None
    if r < 0.56:
        T = rnd.choice(['float', 'double'])
        v = rnd.choice(POOL_FLOATS) if rnd.random() < 0.7 else float(rnd.choice(POOL_INTS))
        return ffi.cast(T, v), 'prim', None
    if r < 0.60:
        v = rnd.choice(POOL_FLOATS + [float(x) for x in POOL_INTS[:8]])
        return ffi.cast('long double', v), 'longdouble', None
    if r < 0.64:
        T = rnd.choice(['float _Complex', 'double _Complex'])
        z = complex(rnd.choice(POOL_FLOATS[:8]), rnd.choice([0.0, 0.0, 1.0, -0.0]))
        return ffi.cast(T, z), 'prim', None
    if r < 0.84:
        off = rnd.choice([0, 0, 4, 8, 8, 16])
        addr = int(ffi.cast('uintptr_t', mem)) + off
        k = rnd.randrange(8)
        if k == 0:
            c = ffi.cast('void *', addr)
        elif k == 1:
            c = ffi.cast('int *', addr)
        elif k == 2:
            c = ffi.cast('struct s *', addr)[0]
        elif k == 3:
            c = ffi.cast('int(*)[3]', addr)[0]
        elif k == 4:
            c = ffi.cast('int(*)(int)', addr)
        elif k == 5:
            c = ffi.cast('union u *', addr)[0]
        elif k == 6:
            a2 = rnd.choice([0, 1, 2 ** 63, 2 ** 64 - 1, 2 ** 63 - 1, 2 ** 47])
            c, addr = ffi.cast('char *', a2), a2
        else:
            c = ffi.cast('struct s *', addr)
        return c, 'ptr', addr
    # plain Python values
    k = rnd.randrange(6)
    if k == 0:
        return rnd.choice(POOL_INTS), 'py', None
    if k == 1:
        return rnd.choice(POOL_FLOATS), 'py', None
    if k == 2:
        return rnd.choice([True, False]), 'py', None
    if k == 3:
        return bytes([rnd.choice([0, 65, 97, 127, 128, 255])]), 'py', None
    if k == 4:
        return chr(rnd.choice([65, 97, 0xe9, 0x20ac, 0x1f600, 0])), 'py', None
    return rnd.choice([None, 'ab', b'', (1,), complex(1, 0), complex(0.5, 0)]), 'py', None


def pyvalue(ffi, c):
    """the Python value a primitive cdata converts to, via memory"""
    t = ffi.typeof(c)
    p = ffi.new(ffi.getctype(t, '*'), c)
    return p[0]


def outcome(f, a, b):
    try:
        return ('ok', f(a, b))
    except Exception as e:
        return ('exc', type(e).__name__)


def same_outcome(x, y):
    return x == y


def child_case(st, case):
    import random
    ffi, mem = st['ffi'], st['mem']
    rnd = random.Random(case['seed'])
    rep = core.ChildRep()
    for _ in range(case['n']):
        a, ka, aa = make_operand(ffi, mem, rnd)
        b, kb, ab = make_operand(ffi, mem, rnd)
        if ka == 'py' and kb == 'py':
            continue
        if rnd.random() < 0.03:
            b, kb, ab = a, ka, aa
        ra, rb = repr(a), repr(b)
        rep.case((ra, rb), nontrivial=a is not b, sample={'a': ra, 'b': rb})
        rep.stat('pair_%s_%s' % (ka, kb))
        detail = case['seed']
        # 1. eq => hash
        eq = outcome(lambda x, y: x == y, a, b)
        if eq == ('ok', True):
            rep.stat('equal_pairs')
            try:
                ha, hb = hash(a), hash(b)
            except TypeError:
                ha = hb = None
            if ha != hb:
                rep.bad('eq-without-equal-hash', '%s == %s but hash %r != %r' % (ra, rb, ha, hb),
                        detail)
            elif ha is not None:
                d = {a: 1}
                if b not in d or len({a, b}) != 1:
                    rep.bad('eq-but-distinct-dict-keys', '%s == %s but they are distinct dict/set '
                            'keys' % (ra, rb), detail)
        # 2. pointer-like: as addresses
        if ka == 'ptr' and kb == 'ptr':
            rep.stat('pointer_pairs')
            for name, f in OPS:
                got = outcome(f, a, b)
                exp = ('ok', f(aa, ab))
                if got != exp:
                    rep.bad('pointer-compare', '%s %s %s -> %r, addresses %#x %s %#x -> %r' %
                            (ra, name, rb, got, aa, name, ab, exp), detail)
            if int(ffi.cast('uintptr_t', a if ffi.typeof(a).kind not in ('struct', 'union')
                            else ffi.addressof(a))) != aa:
                rep.bad('harness-address', 'address bookkeeping wrong for %s' % ra, detail)
        # 3. primitive: as the Python value
        if (ka == 'prim' or kb == 'prim') and 'longdouble' not in (ka, kb) and \
                'ptr' not in (ka, kb):
            try:
                va = pyvalue(ffi, a) if ka == 'prim' else a
                vb = pyvalue(ffi, b) if kb == 'prim' else b
            except Exception as e:
                rep.bad('harness-pyvalue', 'cannot obtain python value of %s / %s: %s' % (ra, rb, e),
                        detail)
                continue
            rep.stat('primitive_pairs')
            for name, f in OPS:
                got = outcome(f, a, b)
                exp = outcome(f, va, vb)
                if got != exp:
                    rep.bad('primitive-compare', '%s %s %s -> %r, but python values %r %s %r -> %r'
                            % (ra, name, rb, got, va, name, vb, exp), detail)
            for c, v, k in ((a, va, ka), (b, vb, kb)):
                if k == 'prim':
                    if v != v:
                        continue    # hash(nan) depends on object identity since Python 3.10
                    hc = outcome(lambda x, y: hash(x), c, None)
                    hv = outcome(lambda x, y: hash(x), v, None)
                    if hc != hv:
                        rep.bad('primitive-hash', 'hash(%r) -> %r, hash(%r) -> %r' %
                                (c, hc, v, hv), detail)
        if ka == 'ptr' and kb in ('prim', 'py', 'longdouble') or \
                kb == 'ptr' and ka in ('prim', 'py', 'longdouble'):
            # mixed: never equal, ordering is a TypeError like unrelated Python objects
            if eq != ('ok', False):
                rep.bad('pointer-vs-primitive-eq', '%s == %s -> %r' % (ra, rb, eq), detail)
    return rep.result()


def judge(ctx, setup, case, obs):
    core.absorb(ctx, case, obs, lambda seed: case)
