"""C17 -- cdata equality, ordering and hashing are mutually consistent.

Monitors over generated pairs (a, b), at least one a cdata:
  * a == b  =>  hash(a) == hash(b)  (also through dict/set membership);
  * pointer-like cdata compare like their addresses (uintptr_t);
  * primitive cdata compare and hash like the Python value they convert to
    (obtained independently by storing the cdata in memory and reading it);
  * the same through sorted()/min()/max()/count()/index()/in over operand lists;
  * pointer-like vs non-pointer: == False, != True, ordering TypeError (or one consistent order);
  * primitive cdata whose conversion raises: comparisons and hash raise the same exception;
  * history: hash / set membership of pointer-like cdata survive changes of the pointed-to memory.
Pointer-like operands come from plain casts and from a 'zoo' of every creation route
(build_zoo) whose addresses are known from the recipe.
"""
import sys, os, math, struct
from vlib import gen, core

RULE = ("case = pair (a, b) with at least one cdata; a/b drawn from: primitive cdata of every "
        "integer type, _Bool, enums, char/wchar_t/char16_t/char32_t, float/double/long double, "
        "complex, with values chosen so that pairs are often numerically equal across types "
        "(shared small pool, boundaries, -0.0, NaN, 2**53+1), pointer/array/struct/function cdata "
        "at shared and distinct addresses (same address through different types), and Python "
        "ints/floats/bools/bytes/str; pointer-like operands also come from a per-case 'zoo' of "
        "differently created cdata over shared memory regions (ffi.new pointers/arrays/structs, "
        "owning struct returned by value from a dlopen()ed function, p[0], ffi.addressof of "
        "items/fields, pointer arithmetic, array slices of several lengths, pointers read back "
        "from memory, ffi.from_buffer over bytearray/memoryview/bytes, ffi.gc wrappers, custom and "
        "default allocators, new_handle, callbacks, dlopen()ed functions, NULL of several types) "
        "with zeroed or random contents; primitive cdata also made by cast-from-cdata routes, and "
        "wide-char cdata whose conversion to a Python value fails (error path of compare/hash); "
        "Python operands include ints beyond 64 bits, Fraction, Decimal, int/float subclasses, "
        "bytearray, memoryview; per case also sorted()/count()/index() over operand lists and a "
        "mutate-memory-then-look-up history for hash stability; distinct = (repr a, repr b, "
        "creation tags); non-trivial = the two operands are not the same object")
ASSUMPTIONS = ["long double cdata have no Python value: only the eq=>hash implication is checked for them",
               "wide-character cdata holding a unit that is no code point (conversion to a Python value "
               "raises ValueError) have no Python value: their comparisons with non-pointers and their "
               "hash are required to raise that same exception type, nothing else is judged for them",
               "a pointer-like cdata against a non-pointer: == must be False, != its negation, and "
               "the ordering operators must either raise TypeError or answer like a consistent total "
               "order (the property gives such a pair no address to order by)",
               "hash stability: the hash of a pointer-like cdata must not change when only the "
               "pointed-to memory changes (its address, which defines ==, did not change)"]

INTT = [t[0] for t in gen.INT_TYPES] + ['enum e1', 'enum e2']
CDEF = "enum e1 { A1 = -1, B1 = 7 }; enum e2 { A2 = 0, B2 = 4000000000 }; struct s { int a; int b; }; union u { int a; char c; }; struct big { int x; struct s in[2]; int arr[3]; };"
CDEF_LIB = "size_t strlen(const char *); typedef struct { int quot; int rem; } div_t; div_t div(int, int); void *malloc(size_t); void free(void *);"
OPS = [('==', lambda a, b: a == b), ('!=', lambda a, b: a != b), ('<', lambda a, b: a < b),
       ('<=', lambda a, b: a <= b), ('>', lambda a, b: a > b), ('>=', lambda a, b: a >= b)]


def generate(ctx):
    rng = ctx.rng('gen')
    n = ctx.scale(150000, 3000000)
    per = 5000
    return None, [{'seed': rng.getrandbits(48), 'n': per} for _ in range(n // per)]


class _MyInt(int):
    pass


class _MyFloat(float):
    pass


def _ident(x):
    return x


def _nop(x):
    pass


def child_setup(setup, wd):
    from cffi import FFI
    ffi = FFI()
    ffi.cdef(CDEF + CDEF_LIB)
    mem = ffi.new('char[]', 64)
    try:
        lib = ffi.dlopen(None)
        lib.strlen, lib.div, lib.malloc, lib.free
    except Exception:
        lib = None
    return {'ffi': ffi, 'mem': mem, 'lib': lib, 'cb': ffi.callback('int(int)', _ident)}


POOL_INTS = [0, 1, -1, 2, 7, 65, 97, 127, 128, 255, 256, -128, 32767, 65535, 65536, 2 ** 31 - 1,
             2 ** 31, -2 ** 31, 2 ** 32 - 1, 2 ** 53, 2 ** 53 + 1, 2 ** 63 - 1, -2 ** 63,
             2 ** 64 - 1, 4000000000]
POOL_FLOATS = [0.0, -0.0, 1.0, -1.0, 0.5, 65.0, 2.0 ** 31, 2.0 ** 53, 2.0 ** 63, 1e300, 1.5,
               float('inf'), float('-inf'), float('nan'), 16777217.0, 0.1]
POOL_BIGINTS = [2 ** 64, 2 ** 64 + 1, -2 ** 63 - 1, -2 ** 64, 2 ** 100, -2 ** 100, 2 ** 64 + 255,
                2 ** 1000]


def exotic_py(rnd):
    """Python operands of less common types that still compare equal to numbers/bytes"""
    from fractions import Fraction
    from decimal import Decimal
    k = rnd.randrange(8)
    if k == 0:
        return rnd.choice(POOL_BIGINTS), 'bigint'
    if k == 1:
        return rnd.choice([Fraction(1, 2), Fraction(3, 2), Fraction(0), Fraction(1), Fraction(-1),
                           Fraction(65), Fraction(1, 10), Fraction(2 ** 53 + 1),
                           Fraction(2 ** 63), Fraction(255)]), 'fraction'
    if k == 2:
        return rnd.choice([Decimal('0.5'), Decimal(0), Decimal(1), Decimal(-1), Decimal('0.1'),
                           Decimal(65), Decimal('-0'), Decimal(2 ** 53 + 1), Decimal('Infinity'),
                           Decimal('1.5'), Decimal(2 ** 64 - 1)]), 'decimal'
    if k == 3:
        return _MyInt(rnd.choice(POOL_INTS)), 'intsubclass'
    if k == 4:
        return _MyFloat(rnd.choice(POOL_FLOATS)), 'floatsubclass'
    if k == 5:
        return bytearray([rnd.choice([0, 65, 97, 127, 128, 255])]), 'bytearray'
    if k == 6:
        return memoryview(bytes([rnd.choice([0, 65, 97, 127, 128, 255])])), 'memoryview'
    return rnd.choice([b'AB', 'A€', frozenset(), 1.5 + 0j, complex(65, 0), complex(0, 1),
                       NotImplemented, Ellipsis]), 'otherobj'


def build_zoo(st, rnd):
    """pointer-like cdata created in every way the API offers, over a few shared memory
    regions so that many of them have equal addresses.  Entry = (object, address, tag); the
    address comes from the creation recipe (base + offset arithmetic in Python)."""
    ffi, lib = st['ffi'], st['lib']
    Z, keep, fillers = [], [], []
    U = lambda x: int(ffi.cast('uintptr_t', x))

    def add(obj, addr, tag):
        Z.append((obj, addr, tag))

    # -- region 1: int[8] from ffi.new
    arr = ffi.new('int[8]')
    A = U(arr)
    keep.append(arr)
    fillers.append(lambda r: [arr.__setitem__(i, r.randrange(-2 ** 31, 2 ** 31)) for i in range(8)])
    add(arr, A, 'new_array')
    for k in (0, 1, 2, 4):
        add(arr + k, A + 4 * k, 'ptr_arith')
        add(ffi.addressof(arr, k), A + 4 * k, 'addressof_item')
        add(ffi.cast('void *', arr + k), A + 4 * k, 'cast_of_owner')
        add(ffi.cast('char *', arr) + 4 * k, A + 4 * k, 'ptr_arith')
        add(ffi.cast('struct s *', arr + k), A + 4 * k, 'cast_of_owner')
        add(ffi.cast('struct s *', arr + k)[0], A + 4 * k, 'deref_struct')
        add(ffi.cast('int(*)(int)', arr + k), A + 4 * k, 'cast_of_owner')
    add((arr + 4) - 3, A + 4, 'ptr_arith')
    for k, n in ((0, 2), (0, 3), (0, 8), (1, 2), (1, 1), (2, 1), (4, 4), (0, 0)):
        add(arr[k:k + n], A + 4 * k, 'array_slice')
    add(ffi.cast('int(*)[2]', arr)[0], A, 'deref_array')
    add(ffi.cast('int(*)[5]', arr)[0], A, 'deref_array')
    add(ffi.cast('int(*)[2]', arr + 2)[0], A + 8, 'deref_array')
    add(ffi.cast('char(*)[4]', arr + 1)[0], A + 4, 'deref_array')
    add(ffi.gc(arr, _nop), A, 'gc')
    add(ffi.gc(arr + 1, _nop), A + 4, 'gc')
    add(ffi.gc(ffi.cast('struct s *', arr), _nop)[0], A, 'gc')
    # -- region 2: struct s[4]
    sarr = ffi.new('struct s[4]')
    S = U(sarr)
    keep.append(sarr)

    def fill_sarr(r):
        for i in range(4):
            sarr[i].a = r.randrange(-5, 5)
            sarr[i].b = r.randrange(-5, 5)
    fillers.append(fill_sarr)
    add(sarr, S, 'new_array')
    for k in range(4):
        add(sarr[k], S + 8 * k, 'array_item_struct')
        add(sarr + k, S + 8 * k, 'ptr_arith')
        add(ffi.addressof(sarr[k]), S + 8 * k, 'addressof_struct')
        add(ffi.addressof(sarr, k), S + 8 * k, 'addressof_item')
        add(ffi.addressof(sarr[k], 'a'), S + 8 * k, 'addressof_field')
        add(ffi.addressof(sarr[k], 'b'), S + 8 * k + 4, 'addressof_field')
        add(ffi.cast('union u *', sarr + k)[0], S + 8 * k, 'deref_struct')
    add(sarr[1:3], S + 8, 'array_slice')
    # -- region 3: struct pointers from ffi.new, nested members
    sp = ffi.new('struct s *')
    P = U(sp)
    keep.append(sp)
    fillers.append(lambda r: (setattr(sp, 'a', r.randrange(-5, 5)), setattr(sp, 'b', r.randrange(-5, 5))))
    add(sp, P, 'new_pointer')
    add(sp[0], P, 'new_struct')
    add(ffi.addressof(sp[0]), P, 'addressof_struct')
    add(ffi.addressof(sp, 'b'), P + 4, 'addressof_field')
    add(ffi.addressof(sp[0], 'a'), P, 'addressof_field')
    ip = ffi.new('int *')
    keep.append(ip)
    add(ip, U(ip), 'new_pointer')
    add(ip + 0, U(ip), 'ptr_arith')
    big = ffi.new('struct big *')
    B = U(big)
    keep.append(big)
    o_in, o_arr = ffi.offsetof('struct big', 'in'), ffi.offsetof('struct big', 'arr')

    add(big, B, 'new_pointer')
    add(big[0], B, 'new_struct')
    add(ffi.addressof(big, 'x'), B, 'addressof_field')
    bin_ = getattr(big, 'in')
    add(bin_, B + o_in, 'field_array')
    add(bin_[1], B + o_in + 8, 'nested_struct')
    add(bin_[0], B + o_in, 'nested_struct')
    add(ffi.addressof(bin_[1], 'b'), B + o_in + 12, 'addressof_field')
    add(ffi.addressof(big, 'in'), B + o_in, 'addressof_field')
    add(ffi.addressof(big[0], 'in', 1), B + o_in + 8, 'addressof_field')
    add(big.arr, B + o_arr, 'field_array')
    add(big.arr + 1, B + o_arr + 4, 'ptr_arith')
    add(ffi.addressof(big, 'arr'), B + o_arr, 'addressof_field')

    def fill_big2(r):
        big.x = r.randrange(-5, 5)
        for i in range(2):
            bin_[i].a = r.randrange(-5, 5)
            bin_[i].b = r.randrange(-5, 5)
        for i in range(3):
            big.arr[i] = r.randrange(-5, 5)
    fillers.append(fill_big2)
    # -- region 4: from_buffer
    ba = bytearray(32)
    fb = ffi.from_buffer(ba)
    F = U(fb)
    try:
        import ctypes
        ct = (ctypes.c_char * 32).from_buffer(ba)
        if ctypes.addressof(ct) != F:
            add(fb, ctypes.addressof(ct), 'from_buffer')   # reported as harness-address below
        del ct
    except ImportError:
        pass
    keep.append(ba)
    fillers.append(lambda r: [ba.__setitem__(i, r.randrange(256)) for i in range(32)])
    add(fb, F, 'from_buffer')
    add(ffi.from_buffer('int[]', ba), F, 'from_buffer')
    add(ffi.from_buffer('struct s[]', ba), F, 'from_buffer')
    add(ffi.from_buffer('int *', ba), F, 'from_buffer')
    add(ffi.from_buffer(memoryview(ba)[4:]), F + 4, 'from_buffer')
    add(ffi.from_buffer('int[2]', memoryview(ba)[8:16]), F + 8, 'from_buffer')
    add(fb + 4, F + 4, 'ptr_arith')
    add(ffi.cast('int *', fb), F, 'cast_of_owner')
    add(ffi.from_buffer('struct s[]', ba)[1], F + 8, 'array_item_struct')
    bb = bytes(16)
    fbb = ffi.from_buffer(bb)
    keep.append(bb)
    add(fbb, U(fbb), 'from_buffer')
    add(ffi.from_buffer(bb), U(fbb), 'from_buffer')
    # -- region 5: handles
    hobj = [1, 2]
    h = ffi.new_handle(hobj)
    keep += [hobj, h]
    H = U(h)
    add(h, H, 'handle')
    add(ffi.cast('void *', h), H, 'cast_of_owner')
    add(ffi.cast('struct s *', h), H, 'cast_of_owner')
    # -- region 6: callbacks
    for cb in (st['cb'], ffi.callback('int(int)', _ident)):
        C = U(cb)
        keep.append(cb)
        add(cb, C, 'callback')
        add(ffi.cast('void *', cb), C, 'cast_of_owner')
        add(ffi.cast('int(*)(int)', cb), C, 'cast_of_owner')
        add(ffi.cast('long(*)(void)', cb), C, 'cast_of_owner')
    # -- region 7: NULL of several types
    add(ffi.NULL, 0, 'null')
    add(ffi.cast('int *', 0), 0, 'null')
    add(ffi.cast('int(*)(int)', 0), 0, 'null')
    add(ffi.cast('struct s *', 0), 0, 'null')
    add(ffi.cast('int *', ffi.NULL) + 0, 0, 'null')
    # -- region 8: pointers read back from memory
    pp = ffi.new('int *[4]', [arr, arr + 1, ffi.NULL, arr + 4])
    keep.append(pp)
    Q = U(pp)
    add(pp, Q, 'new_array')
    add(pp[0], A, 'ptr_from_memory')
    add(pp[1], A + 4, 'ptr_from_memory')
    add(pp[2], 0, 'ptr_from_memory')
    add(pp[3], A + 16, 'ptr_from_memory')
    add(pp + 1, Q + 8, 'ptr_arith')
    add(ffi.addressof(pp, 1), Q + 8, 'addressof_item')
    # -- region 9: allocators
    a1 = ffi.new_allocator(should_clear_after_alloc=False)('int[4]')
    for i in range(4):
        a1[i] = 0
    keep.append(a1)
    fillers.append(lambda r: [a1.__setitem__(i, r.randrange(100)) for i in range(4)])
    add(a1, U(a1), 'allocator_default')
    add(a1 + 1, U(a1) + 4, 'ptr_arith')
    # -- region 10: dlopen()ed library objects
    if lib is not None:
        fn = lib.strlen
        L = U(fn)
        add(fn, L, 'lib_function')
        add(lib.strlen, L, 'lib_function')
        add(ffi.cast('void *', fn), L, 'cast')
        add(ffi.cast('int(*)(int)', fn), L, 'cast')
        d = lib.div(7, 2)
        keep.append(d)
        D = U(ffi.addressof(d))
        fillers.append(lambda r: setattr(d, 'quot', r.randrange(100)))
        add(d, D, 'returned_struct')
        add(ffi.addressof(d), D, 'addressof_struct')
        add(ffi.addressof(d)[0], D, 'deref_struct')
        add(ffi.addressof(d, 'rem'), D + 4, 'addressof_field')
        add(ffi.cast('void *', ffi.addressof(d)), D, 'cast_of_owner')
        d2 = lib.div(7, 2)
        keep.append(d2)
        add(d2, U(ffi.addressof(d2)), 'returned_struct')
        a2 = ffi.new_allocator(lib.malloc, lib.free)('int[4]')
        keep.append(a2)
        fillers.append(lambda r: [a2.__setitem__(i, r.randrange(100)) for i in range(4)])
        add(a2, U(a2), 'allocator_custom')
        add(ffi.cast('int *', a2), U(a2), 'cast_of_owner')
        a3 = ffi.new_allocator(lib.malloc, lib.free)('struct s *')
        keep.append(a3)
        add(a3, U(a3), 'allocator_custom')
        add(a3[0], U(a3), 'deref_struct')
        add(ffi.addressof(a3, 'b'), U(a3) + 4, 'addressof_field')
    by_addr = {}
    for e in Z:
        by_addr.setdefault(e[1], []).append(e)
    return {'Z': Z, 'keep': keep, 'fillers': fillers, 'by_addr': by_addr}


def address_of(ffi, x):
    if ffi.typeof(x).kind in ('struct', 'union'):
        x = ffi.addressof(x)
    return int(ffi.cast('uintptr_t', x))


def make_operand(st, zoo, rnd):
    """returns (object, kind, address-or-None, tag)"""
    ffi, mem = st['ffi'], st['mem']
    r = rnd.random()
    if r < 0.30:
        T = rnd.choice(INTT)
        v = rnd.choice(POOL_INTS) if rnd.random() < 0.7 else gen.rand_int(rnd, 64)
        route = rnd.random()
        f = rnd.choice([0.0, 1.0, -1.0, 3.7, -3.7, 65.0, 255.0, 1e10, 2.0 ** 53])
        T2 = rnd.choice(INTT)
        try:
            if 0.85 <= route < 0.90:    # cast from another primitive cdata
                return ffi.cast(T, ffi.cast(T2, v)), 'prim', None, 'cast_cdata'
            if 0.90 <= route < 0.94:    # cast from a float (truncation)
                return ffi.cast(T, f), 'prim', None, 'cast_float'
            if 0.94 <= route < 0.97:    # cast from a pointer cdata
                return ffi.cast(T, ffi.cast('void *', v & (2 ** 64 - 1))), 'prim', None, 'cast_pointer'
            if 0.97 <= route:
                return ffi.cast(T, bytes([v & 255])), 'prim', None, 'cast_bytes'
        except (TypeError, OverflowError, ValueError):
            pass
        return ffi.cast(T, v), 'prim', None, 'cast_int'
    if r < 0.36:
        return ffi.cast('_Bool', rnd.choice([0, 1, 2])), 'prim', None, 'bool'
    if r < 0.44:
        T = rnd.choice(['char', 'wchar_t', 'char16_t', 'char32_t'])
        if T == 'char':
            v = rnd.choice([0, 65, 97, 127, 128, 255, rnd.randrange(256)])
        else:
            v = rnd.choice([65, 97, 0xe9, 0x20ac, 0xffff if T != 'char16_t' else 0xfffd,
                            0x1f600 if T != 'char16_t' else 0x41, 0])
        q = rnd.random()
        if q < 0.10 and T in ('wchar_t', 'char32_t'):
            # a unit that is no code point: converting it to a Python value raises
            return ffi.cast(T, rnd.choice([0x110000, 0xffffffff, 0x7fffffff])), 'unconv', None, \
                'wchar_invalid'
        if q < 0.25:
            return ffi.cast(T, bytes([v]) if T == 'char' else chr(v)), 'prim', None, 'cast_str'
        return ffi.cast(T, v), 'prim', None, 'char'
    if r < 0.56:
        T = rnd.choice(['float', 'double'])
        v = rnd.choice(POOL_FLOATS) if rnd.random() < 0.7 else float(rnd.choice(POOL_INTS))
        if rnd.random() < 0.1:
            return ffi.cast(T, ffi.cast('double', v)), 'prim', None, 'cast_cdata'
        return ffi.cast(T, v), 'prim', None, 'float'
    if r < 0.60:
        v = rnd.choice(POOL_FLOATS + [float(x) for x in POOL_INTS[:8]])
        return ffi.cast('long double', v), 'longdouble', None, 'longdouble'
    if r < 0.64:
        T = rnd.choice(['float _Complex', 'double _Complex'])
        z = complex(rnd.choice(POOL_FLOATS[:8]), rnd.choice([0.0, 0.0, 1.0, -0.0]))
        return ffi.cast(T, z), 'prim', None, 'complex'
    if r < 0.84:
        if rnd.random() < 0.55:
            obj, addr, tag = rnd.choice(zoo['Z'])
            return obj, 'ptr', addr, tag
        off = rnd.choice([0, 0, 4, 8, 8, 16])
        addr = int(ffi.cast('uintptr_t', mem)) + off
        k = rnd.randrange(8)
        if k == 0:
            c = ffi.cast('void *', addr)
        elif k == 1:
            c = ffi.cast('int *', addr)
        elif k == 2:
            c = ffi.cast('struct s *', addr)[0]
        elif k == 3:
            c = ffi.cast('int(*)[3]', addr)[0]
        elif k == 4:
            c = ffi.cast('int(*)(int)', addr)
        elif k == 5:
            c = ffi.cast('union u *', addr)[0]
        elif k == 6:
            a2 = rnd.choice([0, 1, 2 ** 63, 2 ** 64 - 1, 2 ** 63 - 1, 2 ** 47])
            c, addr = ffi.cast('char *', a2), a2
        else:
            c = ffi.cast('struct s *', addr)
        return c, 'ptr', addr, 'cast'
    # plain Python values
    if rnd.random() < 0.25:
        v, tag = exotic_py(rnd)
        return v, 'py', None, tag
    k = rnd.randrange(6)
    if k == 0:
        return rnd.choice(POOL_INTS), 'py', None, 'int'
    if k == 1:
        return rnd.choice(POOL_FLOATS), 'py', None, 'float'
    if k == 2:
        return rnd.choice([True, False]), 'py', None, 'bool'
    if k == 3:
        return bytes([rnd.choice([0, 65, 97, 127, 128, 255])]), 'py', None, 'bytes'
    if k == 4:
        return chr(rnd.choice([65, 97, 0xe9, 0x20ac, 0x1f600, 0])), 'py', None, 'str'
    return rnd.choice([None, 'ab', b'', (1,), complex(1, 0), complex(0.5, 0)]), 'py', None, 'otherobj'


def pyvalue(ffi, c):
    """the Python value a primitive cdata converts to, via memory"""
    t = ffi.typeof(c)
    p = ffi.new(ffi.getctype(t, '*'), c)
    return p[0]


def outcome(f, a, b):
    try:
        return ('ok', f(a, b))
    except Exception as e:
        return ('exc', type(e).__name__)


def same_outcome(x, y):
    return x == y


def srepr(ffi, x, kind):
    if kind == 'unconv':        # repr() itself converts and raises
        return '<cdata %r unit %#x (no code point)>' % (ffi.typeof(x).cname, int(x))
    return repr(x)


def check_pair(rep, ffi, A, B, detail):
    a, ka, aa, ta = A
    b, kb, ab, tb = B
    ra, rb = srepr(ffi, a, ka), srepr(ffi, b, kb)
    rep.case((ra, rb, ta, tb), nontrivial=a is not b, sample={'a': ra, 'b': rb})
    rep.stat('pair_%s_%s' % (ka, kb))
    for k, t in ((ka, ta), (kb, tb)):
        rep.stat({'ptr': 'ptr_made_by_', 'py': 'py_type_'}.get(k, 'prim_made_by_') + t)
    res = dict((name, outcome(f, a, b)) for name, f in OPS)
    # 1. eq => hash
    eq = res['==']
    if eq == ('ok', True):
        rep.stat('equal_pairs')
        try:
            ha, hb = hash(a), hash(b)
        except TypeError:
            ha = hb = None
        except Exception as e:
            ha, hb = None, 'raises %s' % type(e).__name__
        if ha != hb:
            rep.bad('eq-without-equal-hash', '%s == %s but hash %r != %r' % (ra, rb, ha, hb),
                    detail)
        elif ha is not None:
            d = {a: 1}
            if b not in d or len({a, b}) != 1:
                rep.bad('eq-but-distinct-dict-keys', '%s == %s but they are distinct dict/set '
                        'keys' % (ra, rb), detail)
    # 2. pointer-like: as addresses
    if ka == 'ptr' and kb == 'ptr':
        rep.stat('pointer_pairs')
        if aa == ab:
            rep.stat('pointer_pairs_same_address')
        for name, f in OPS:
            got = res[name]
            exp = ('ok', f(aa, ab))
            if got != exp:
                rep.bad('pointer-compare', '%s [%s] %s %s [%s] -> %r, addresses %#x %s %#x -> %r' %
                        (ra, ta, name, rb, tb, got, aa, name, ab, exp), detail)
        for x, xa, rx in ((a, aa, ra), (b, ab, rb)):
            if address_of(ffi, x) != xa:
                rep.bad('harness-address', 'address bookkeeping wrong for %s' % rx, detail)
    # 3. primitive: as the Python value
    if (ka == 'prim' or kb == 'prim') and 'longdouble' not in (ka, kb) and \
            'ptr' not in (ka, kb) and 'unconv' not in (ka, kb):
        try:
            va = pyvalue(ffi, a) if ka == 'prim' else a
            vb = pyvalue(ffi, b) if kb == 'prim' else b
        except Exception as e:
            rep.bad('harness-pyvalue', 'cannot obtain python value of %s / %s: %s' % (ra, rb, e),
                    detail)
            return
        rep.stat('primitive_pairs')
        for name, f in OPS:
            got = res[name]
            exp = outcome(f, va, vb)
            if got != exp:
                rep.bad('primitive-compare', '%s %s %s -> %r, but python values %r %s %r -> %r'
                        % (ra, name, rb, got, va, name, vb, exp), detail)
        for c, v, k in ((a, va, ka), (b, vb, kb)):
            if k == 'prim':
                if v != v:
                    continue    # hash(nan) depends on object identity since Python 3.10
                hc = outcome(lambda x, y: hash(x), c, None)
                hv = outcome(lambda x, y: hash(x), v, None)
                if hc != hv:
                    rep.bad('primitive-hash', 'hash(%r) -> %r, hash(%r) -> %r' %
                            (c, hc, v, hv), detail)
    # 4. primitive whose conversion to a Python value raises: there is no value to compare or
    #    hash as, so every comparison with a non-pointer and hash() raise the same exception
    if 'unconv' in (ka, kb) and 'ptr' not in (ka, kb) and 'longdouble' not in (ka, kb):
        convs = [outcome(lambda x, y: pyvalue(ffi, x), x, None)
                 for x, k in ((a, ka), (b, kb)) if k == 'unconv']
        if any(c[0] == 'ok' for c in convs) or len(set(convs)) != 1:
            rep.stat('unconvertible_but_converted')
        else:
            rep.stat('unconvertible_pairs')
            for name, f in OPS:
                if res[name] != convs[0]:
                    rep.bad('unconvertible-compare', '%s %s %s -> %r although converting the '
                            'operand to a Python value -> %r' % (ra, name, rb, res[name], convs[0]),
                            detail)
            for x, k, rx in ((a, ka, ra), (b, kb, rb)):
                if k == 'unconv':
                    hx = outcome(lambda x, y: hash(x), x, None)
                    if hx != convs[0]:
                        rep.bad('unconvertible-hash', 'hash(%s) -> %r although converting it to a '
                                'Python value -> %r' % (rx, hx, convs[0]), detail)
    if ka == 'ptr' and kb in ('prim', 'py', 'longdouble', 'unconv') or \
            kb == 'ptr' and ka in ('prim', 'py', 'longdouble', 'unconv'):
        # mixed: never equal; != is the negation; ordering is a TypeError like unrelated Python
        # objects (or, if it answers at all, answers like one consistent total order)
        rep.stat('mixed_pairs')
        if eq != ('ok', False):
            rep.bad('pointer-vs-primitive-eq', '%s == %s -> %r' % (ra, rb, eq), detail)
        elif res['!='] != ('ok', True):
            rep.bad('mixed-ne-not-negation-of-eq', '%s == %s -> %r but != -> %r' %
                    (ra, rb, eq, res['!=']), detail)
        order = [res[n] for n in ('<', '<=', '>', '>=')]
        if all(o == ('exc', 'TypeError') for o in order):
            rep.stat('mixed_ordering_typeerror')
        else:
            lt, le, gt, ge = order
            ok = all(o[0] == 'ok' and isinstance(o[1], bool) for o in order) and \
                eq[0] == 'ok' and (lt[1] + gt[1] + bool(eq[1]) == 1) and \
                le[1] == (lt[1] or bool(eq[1])) and ge[1] == (gt[1] or bool(eq[1]))
            if not ok:
                rep.bad('mixed-ordering-inconsistent', '%s vs %s: == %r < %r <= %r > %r >= %r is '
                        'neither TypeError nor a consistent order' % (ra, rb, eq, lt, le, gt, ge),
                        detail)


def check_lists(rep, st, zoo, rnd, detail):
    """sorted()/count()/index()/min()/max() over operand lists: the sequence protocol reaches
    == and < through PyObject_RichCompare, and must agree with addresses / Python values"""
    ffi = st['ffi']
    for _ in range(6):
        L = []
        while len(L) < 24:
            x = make_operand(st, zoo, rnd)
            if x[1] == 'ptr':
                L.append(x)
        objs = [x[0] for x in L]
        addrs = [x[2] for x in L]
        rep.stat('pointer_lists')
        got = outcome(lambda o, _: sorted(range(len(o)), key=lambda i: o[i]), objs, None)
        exp = ('ok', sorted(range(len(L)), key=lambda i: addrs[i]))
        if got != exp:
            rep.bad('pointer-sort-order', 'sorted() of %r gives index order %r, addresses %r give %r'
                    % (objs, got, ['%#x' % v for v in addrs], exp), detail)
        for f, nm in ((min, 'min'), (max, 'max')):
            g = outcome(lambda o, _: address_of(ffi, f(o)), objs, None)
            if g != ('ok', f(addrs)):
                rep.bad('pointer-sort-order', '%s() of %r -> %r, addresses say %#x' %
                        (nm, objs, g, f(addrs)), detail)
        probe_addr = rnd.choice(addrs)
        probe = ffi.cast('char *', probe_addr)
        g = outcome(lambda o, p: (o.count(p), o.index(p), p in o), objs, probe)
        e = ('ok', (addrs.count(probe_addr), addrs.index(probe_addr), True))
        if g != e:
            rep.bad('pointer-list-membership', 'count/index/in of %r in %r -> %r, addresses say %r'
                    % (probe, objs, g, e), detail)
    for _ in range(6):
        L = []
        while len(L) < 24:
            x = make_operand(st, zoo, rnd)
            if x[1] == 'prim' and x[3] not in ('char', 'cast_str', 'complex') and \
                    ffi.typeof(x[0]).cname != 'char':
                L.append(x)
        objs = [x[0] for x in L]
        try:
            vals = [pyvalue(ffi, o) for o in objs]
        except Exception as e:
            rep.bad('harness-pyvalue', 'cannot obtain python values: %s' % e, detail)
            continue
        rep.stat('primitive_lists')
        got = outcome(lambda o, _: sorted(range(len(o)), key=lambda i: o[i]), objs, None)
        exp = outcome(lambda o, _: sorted(range(len(o)), key=lambda i: o[i]), vals, None)
        if got != exp:
            rep.bad('primitive-sort-order', 'sorted() of %r gives index order %r, python values %r '
                    'give %r' % (objs, got, vals, exp), detail)
        pv = rnd.choice(vals)
        g = outcome(lambda o, p: (o.count(p), o.index(p), p in o), objs, pv)
        e = outcome(lambda o, p: (o.count(p), o.index(p), p in o), vals, pv)
        if g != e and pv == pv:
            rep.bad('primitive-list-membership', 'count/index/in of %r in %r -> %r, python values '
                    '%r say %r' % (pv, objs, g, vals, e), detail)


def check_stability(rep, st, zoo, rnd, detail):
    """history: hash and set membership of pointer-like cdata recorded, then only the
    pointed-to memory is changed; the same objects (and fresh cdata at the same addresses)
    must still be found"""
    ffi = st['ffi']
    Z = zoo['Z']
    before = [hash(e[0]) for e in Z]
    members = set(e[0] for e in Z)
    for fill in zoo['fillers']:
        fill(rnd)
    for (obj, addr, tag), h0 in zip(Z, before):
        rep.stat('stability_probes')
        h1 = hash(obj)
        if h1 != h0:
            rep.bad('hash-not-stable', 'hash(%r) [%s] was %r and is %r after the pointed-to memory '
                    'changed' % (obj, tag, h0, h1), detail)
        elif obj not in members or ffi.cast('char *', addr) not in members:
            rep.bad('eq-but-distinct-dict-keys', '%r [%s] (or a char* at its address) is no longer '
                    'found in a set it was put in before the pointed-to memory changed' %
                    (obj, tag), detail)


def child_case(st, case):
    import random
    ffi = st['ffi']
    rnd = random.Random(case['seed'])
    rep = core.ChildRep()
    detail = case['seed']
    zoo = build_zoo(st, rnd)
    for obj, addr, tag in zoo['Z']:
        if outcome(lambda x, y: address_of(ffi, x), obj, None) != ('ok', addr):
            rep.bad('harness-address', 'zoo address bookkeeping wrong for %r [%s]' % (obj, tag),
                    detail)
    if rnd.random() < 0.5:
        rep.stat('cases_random_memory_content')
        for fill in zoo['fillers']:
            fill(rnd)
    else:
        rep.stat('cases_zeroed_memory_content')
    for _ in range(case['n']):
        A = make_operand(st, zoo, rnd)
        B = make_operand(st, zoo, rnd)
        if A[1] == 'py' and B[1] == 'py':
            continue
        r = rnd.random()
        if A[1] == 'ptr' and B[1] != 'ptr' and rnd.random() < 0.4:
            while B[1] != 'ptr':        # more pointer/pointer pairs
                B = make_operand(st, zoo, rnd)
        if r < 0.03:
            B = A
        elif A[1] == 'ptr' and B[1] == 'ptr' and r < 0.30 and A[2] in zoo['by_addr']:
            # another differently created cdata at the same address
            e = rnd.choice(zoo['by_addr'][A[2]])
            B = (e[0], 'ptr', e[1], e[2])
        check_pair(rep, ffi, A, B, detail)
    check_lists(rep, st, zoo, rnd, detail)
    check_stability(rep, st, zoo, rnd, detail)
    return rep.result()


def judge(ctx, setup, case, obs):
    core.absorb(ctx, case, obs, lambda seed: case)
