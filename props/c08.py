"""C08 -- C type names round-trip through getctype / typeof.

Model + differential: per random declaration context (the C07 contexts) the
same cdef is loaded in an in-line FFI and in the imported emit_python_code()
module (C-level FFI).  Every ctype T that a C07 grammar string denotes is
taken through, on both FFIs,
  (a) typeof(getctype(T)) is T,
  (b) typeof(getctype(T, x)) is the ctype that a small interpreter of the
      abstract declarator text x builds from T with the backend constructors
      (new_pointer_type / new_array_type / new_function_type),
  (c) getctype(T, 'v_i') lines, compiled by gcc after the context's C
      declarations, must be accepted and sizeof(v_i) == ffi.sizeof(T).

Audit extension: (1) the contexts also declare aggregates and enums that have
no tag of their own (named only through a typedef), opaque structs, a pointer
typedef to an opaque struct, pointer typedefs to a struct / enum that has no
name at all ('typedef struct {..} *p;': class 'anonymous-base'), and FILE; (2) the declarator text is passed with
every kind of surrounding white space (blank, tab, newline, several) and
either positionally or as replace_with=; (3) the same request is also made
through the other entry point, getctype(<type string>, x); (4) the plain name
is asked again after all other requests on T; (5) gcc is also given
declarations built from a *named* declarator ('*w', 'w[2]', '(*w)[3]',
'*w[2]', '(*w)(void)') whose size follows from C alone.
"""
import os, sys, re, random, subprocess
from vlib import core, cc, gen_cdef as GC, gen_tstr as TS

RULE = ("case = (declaration context, ctype T denoted by a C07-grammar type string, FFI "
        "in-line|compiled, declarator text x); x = '' (plain name) or a random abstract "
        "declarator: 0-2 '*', optional nested grouping parentheses, '[N]' / '[]' / '(args)' "
        "suffixes with random blanks, args from primitives and the context's typedef/struct/"
        "union/enum names; plus one 'v_i' declaration per (T, FFI) for gcc; distinct = (context, "
        "T name, FFI, x); non-trivial = T is not a bare primitive/aggregate or x is nested.  "
        "Every context also has typedef-only-named struct/union/enum, opaque struct, pointer-to-opaque, "
        "pointer-to-nameless-struct/enum typedefs and FILE; x is wrapped in random white space (blank/tab/newline/several) and passed "
        "positionally or by keyword; a third of the requests is repeated as getctype(type string, x); "
        "every other (T, FFI) also gives gcc one declaration made from a named declarator")
ASSUMPTIONS = ["x is read as an abstract declarator applied to T as if T were a typedef name (C 6.7.7); "
               "when that type does not exist in C / cffi (function returning array, array of "
               "incomplete type, a bare function type) nothing is demanded",
               "directly nested grouping parentheses '((' in x are generated rarely and their rejection by the "
               "C parser of the compiled FFI is only counted (it rejects them in any type string: recorded "
               "C07 finding nested-grouping-parens); the in-line FFI must handle them",
               "the in-line FFI runs pycparser per new string: it gets the plain name and the first "
               "NSUF_INLINE declarator texts of each type, the compiled FFI all NSUF",
               "gcc is asked only about ctypes that are C types: not when the source string is rejected by "
               "gcc as a parameter declaration, nor when a function type in T has a 'void' parameter "
               "among others (both parsers accept that; C07 ill-formed-string classes)",
               "argument types inside x come from a fixed parenthesis-free pool; their own parsing is C07's business",
               "gcc probe: objects larger than 4096 bytes and incomplete types are declared 'extern' "
               "(acceptance of the declaration is still checked; sizeof only for complete types)",
               "getctype(s, x) with a type string s is the same request as getctype(typeof(s), x): its "
               "result must re-parse to the same expected ctype (the text itself may differ)",
               "a T whose source string uses a pointer typedef to a nameless struct / enum is judged like "
               "any other T (the property quantifies over every ctype); all its mechanisms carry the one "
               "class 'anonymous-base', decided from the source string and not from the name cffi gives",
               "named declarators for gcc: getctype(T, '*w') etc. is read like (b) with the identifier "
               "inside; only shapes that are C types for that T are used ('w[2]' and '(*w)[3]' only for "
               "complete T, '(*w)(void)' not for array T); the expected size is sizeof(void *) or "
               "2 * ffi.sizeof(T)"]
NSUF = 8                # declarator texts per type on the compiled FFI
NSUF_INLINE = 3         # ... of which on the in-line FFI (each costs a pycparser run)
SAN_DECIDES = False     # see judge(): only reports in the name-building path decide


def generate(ctx):
    rng = ctx.rng('gen')
    nctx = ctx.scale(20, 500)
    per = 2
    seeds = [rng.getrandbits(40) for _ in range(nctx)]
    return None, [{'seeds': seeds[i:i + per], 'ntypes': 100} for i in range(0, nctx, per)]


def make_ctx(seed):
    rnd = random.Random(seed)
    return GC.Ctx(rnd, prefix='g%d_' % (seed % 100000), nd=rnd.choice([4, 8, 12]), funcs=False,
                  globals_=False)


def extra_decls(seed):
    """declarations every context gets on top of gen_cdef's: types that have no tag
    of their own (their ctype is named by the typedef), opaque types"""
    p = 'g%d_' % (seed % 100000)
    P = p.upper()
    lines = ['typedef struct { int a; char b; } %sas1;' % p,
             'typedef union { long long u; char c[3]; } %sau1;' % p,
             'typedef enum { %sAE1_A, %sAE1_B = 5 } %sae1;' % (P, P, p),
             'typedef struct %soq1s %soq1;' % (p, p),
             'typedef struct %soq2s *%sop2;' % (p, p),
             'typedef struct { %sas1 inner; double d[2]; } %sas2;' % (p, p),
             # the aggregate / enum has no name at all: cffi calls it '$<number>'
             'typedef struct { short h; } *%sanp;' % p,
             'typedef enum { %sAE2_A = 1 } *%saep;' % (P, p)]
    return '\n'.join(lines) + '\n', [p + n for n in ('as1', 'au1', 'ae1', 'oq1', 'op2', 'as2', 'anp',
                                                     'aep')]


def names_of(c):
    aggs = [d for d in c.items if d['kind'] == 'agg']
    consts = [d['name'] for d in c.consts if 0 < d['value'] < 5000] + \
        [en for e in c.enums for en, v in e['values'] if 0 < v < 5000]
    return dict(typedefs=[d['name'] for d in c.typedefs],
                structs=[d['name'] for d in aggs if d['agg']['kind'] == 'struct'],
                unions=[d['name'] for d in aggs if d['agg']['kind'] == 'union'],
                enums=[d['name'] for d in c.enums], consts=consts)


def child_setup(setup, wd):
    import warnings
    warnings.simplefilter('ignore')
    sys.path.insert(0, wd)
    import _cffi_backend
    return {'wd': wd, 'B': _cffi_backend}


# ---- declarator texts -------------------------------------------------------

PRIM_ARGS = ['int', 'char', 'double', 'unsigned long', 'float', 'short', 'long long', '_Bool',
             'signed char', 'char *', 'void *', 'int * *', 'double *']
FIXED = ['*', '**', '[N]', '[]', '(*)(args)', '*[N]', '(*)[N]', '(*)', '(**)', '(*[N])(args)',
         '[N][N]', '**[N]', '(*(*)(args))[N]', '*(*)(args)', '(*)[]', '(*(*))(args)']


def gen_args(rnd, pool):
    r = rnd.random()
    if r < 0.2:
        return rnd.choice(['void', '', ' void '])
    a = [rnd.choice(pool) for _ in range(rnd.choice([1, 1, 2, 3]))]
    if rnd.random() < 0.2:
        a.append('...')
    return rnd.choice([', ', ',', ' , ']).join(a)


def gen_decl(rnd, pool, depth=0, need=False):
    """text of a random abstract declarator; need: non-empty (inside grouping parens)"""
    sp = lambda: rnd.choice(['', '', '', ' '])
    nptr = rnd.choice([0, 1, 1, 2])
    core = ''
    if depth < 2 and rnd.random() < (0.45 if depth == 0 else 0.25):
        core = '(' + sp() + gen_decl(rnd, pool, depth + 1, True) + sp() + ')'
    if need and not nptr and (not core or rnd.random() < 0.9):
        nptr = 1        # '((' directly nested grouping parentheses: rare (see child_case)
    arr = lambda: '[' + sp() + rnd.choice(['', '0', '1', '2', '3', '7', '10', '64', '255']) + sp() + ']'
    fn = lambda: '(' + gen_args(rnd, pool) + ')'
    r = rnd.random()
    if r < 0.08:        # unrestricted combination (often not a C type at all)
        sufs = [rnd.choice([arr, fn])() for _ in range(rnd.choice([1, 2, 3]))]
    elif core and r < 0.55:
        sufs = [fn()]
    else:
        sufs = [arr() for _ in range(rnd.choice([0, 0, 1, 1, 2]))]
    if not nptr and not core and not sufs:
        nptr = 1
    return sp().join(['*'] * nptr + ([core] if core else []) + sufs)


def fixed_decl(rnd, pool, shape):
    x = re.sub('N', lambda m: rnd.choice(['1', '3', '8', '100']), shape)
    return re.sub('args', lambda m: gen_args(rnd, pool).strip() or 'void', x)


def shape_of(x):
    s = re.sub(r'\s+', '', x)
    s = re.sub(r'\((?![*(])[^()]*\)', '(args)', s)
    return re.sub(r'\d+', 'N', s)


def xclass(x):
    s = shape_of(x)
    if not s:
        return 'empty'
    lead = {'*': 'star', '[': 'array', '(': 'paren'}[s[0]]
    return lead + ('+nested' if '(' in s[1:] else '')


class Invalid(Exception):
    pass


class Interp(object):
    """x applied to T: pointers, then the suffixes right to left, then the
    parenthesised inner declarator.  A function type that is not (yet) pointed
    to is the tuple ('fn', args, result, ellipsis)."""

    def __init__(self, B, argmap):
        self.B, self.argmap = B, argmap

    def run(self, x, T):
        self.s, self.i = x, 0
        node = self.decl()
        if self.peek() != '':
            raise ValueError('interpreter: trailing text in %r' % x)
        try:
            r = self.apply(node, T)
        except (TypeError, ValueError, NotImplementedError, OverflowError) as e:
            raise Invalid(str(e))
        if isinstance(r, tuple):
            raise Invalid('bare function type')
        return r

    def peek(self):
        while self.s[self.i:self.i + 1].isspace():
            self.i += 1
        return self.s[self.i:self.i + 1]

    def decl(self):
        n, core, sufs = 0, None, []
        while self.peek() == '*':
            n += 1
            self.i += 1
        if self.peek() == '(' and self.s[self.i + 1:].lstrip()[:1] in ('*', '('):
            self.i += 1
            core = self.decl()
            if self.peek() != ')':
                raise ValueError('interpreter: unbalanced %r' % self.s)
            self.i += 1
        while self.peek() in ('[', '('):
            op = self.s[self.i]
            j = self.s.index(']' if op == '[' else ')', self.i)
            body = self.s[self.i + 1:j].strip()
            self.i = j + 1
            if op == '[':
                sufs.append(('arr', int(body) if body else None))
            else:
                parts = [p.strip() for p in body.split(',')] if body else []
                ell = parts[-1:] == ['...']
                parts = parts[:-1] if ell else parts
                sufs.append(('fn', [] if parts == ['void'] else parts, ell))
        return n, core, sufs

    def apply(self, node, T):
        B = self.B
        n, core, sufs = node
        for _ in range(n):
            T = B.new_function_type(T[1], T[2], T[3]) if isinstance(T, tuple) \
                else B.new_pointer_type(T)
        for s in reversed(sufs):
            if isinstance(T, tuple):
                raise Invalid('array of functions / function returning function')
            if s[0] == 'arr':
                T = B.new_array_type(B.new_pointer_type(T), s[1])
            else:
                T = ('fn', tuple(self.arg(a) for a in s[1]), T, s[2])
        return self.apply(core, T) if core else T

    def arg(self, text):
        t = self.argmap[text]
        if t.kind == 'array':           # parameters of array type are pointers
            t = self.B.new_pointer_type(t.item)
        if t.kind == 'void':
            raise Invalid('void parameter')
        return t


# ---- child ----------------------------------------------------------------

def tkind(t):
    k = t.kind
    if k == 'pointer' and t.item.kind == 'array':
        return 'pointer-to-array'
    if k == 'array' and t.item.kind == 'function':
        return 'array-of-function-pointers'
    return k


def has_void_param(t):
    if t.kind in ('pointer', 'array'):
        return has_void_param(t.item)
    if t.kind == 'function':
        return has_void_param(t.result) or any(a.kind == 'void' or has_void_param(a)
                                               for a in t.args)
    return False


def base_of(t):
    while True:
        if t.kind in ('pointer', 'array'):
            t = t.item
        elif t.kind == 'function':
            t = t.result
        else:
            return t


def origin_class(B, T):
    """how the innermost named type of T got its name"""
    b = base_of(T)
    if b.kind in ('struct', 'union', 'enum'):
        how = 'nothing' if '$' in b.cname else 'tag' if b.cname.startswith(b.kind + ' ') else \
            'typedef_only'
        try:
            B.sizeof(b)      # (not b.fields: aborts on an opaque struct of a compiled FFI)
        except (TypeError, ValueError):
            return 'opaque_%s_named_by_%s' % (b.kind, how)
        return '%s_named_by_%s' % (b.kind, how)
    return None


LEAD = ['', '', '', ' ', ' ', '\t', '\n', '  ', ' \t ', '\r\n']
TRAIL = ['', '', '', ' ', '\t', '\n', '  ']
# named declarators for gcc: (format, needs complete T, not for array T, size: number of
# pointers, or None = 2 * sizeof(T))
NAMED = [('*%s', False, False, 1), ('%s[2]', True, False, None), ('(*%s)[3]', True, False, 1),
         ('*%s[2]', False, False, 2), ('(*%s)(void)', False, True, 1), (' * %s', False, False, 1)]


def request(f, T, xt, kw):
    """one getctype request in one of the equivalent call forms"""
    if kw == 0:
        return f.getctype(T, xt)
    if kw == 1:
        return f.getctype(T, replace_with=xt)
    return f.getctype(cdecl=T, replace_with=xt)


def child_case(st, case):
    import importlib
    from cffi import FFI
    B = st['B']
    rep = core.ChildRep()
    decls = {}
    only = case.get('only')
    for seed in case['seeds']:
        c = make_ctx(seed)
        xtext, xnames = extra_decls(seed)
        text = c.cdef_text() + xtext
        try:
            ffi1 = FFI()
            ffi1.cdef(text)
            fb = FFI()
            fb.cdef(text)
            modname = '_c08_%d' % seed
            fb.set_source(modname, None)
            fb.emit_python_code(os.path.join(st['wd'], modname + '.py'))
            ffi2 = importlib.import_module(modname).ffi
        except Exception as e:
            rep.bad('harness-setup', 'context setup failed: %s: %s :: %s' %
                    (type(e).__name__, e, text[:300]), [seed, None])
            continue
        rep.stat('contexts')
        nm = names_of(c)
        ctxargs = nm['typedefs'] + ['struct ' + x for x in nm['structs']] + \
            ['struct %s *' % x for x in nm['structs']] + ['union %s *' % x for x in nm['unions']] + \
            ['enum ' + x for x in nm['enums']]
        pool = PRIM_ARGS + ctxargs
        # more typedef names for T (not as parameter types inside x)
        nm['typedefs'] = nm['typedefs'] + xnames + ['FILE']
        ffis = []
        for label, f in (('inline', ffi1), ('compiled', ffi2)):
            am = {}
            for a in PRIM_ARGS:
                w = a.replace(' ', '')
                t = B.new_void_type() if w.startswith('void') else \
                    B.new_primitive_type(a.rstrip(' *'))
                for _ in range(w.count('*')):
                    t = B.new_pointer_type(t)
                am[a] = t
            for a in ctxargs:
                am[a] = f.typeof(a)
            ffis.append((label, f, Interp(B, am)))
        psize = B.sizeof(B.new_pointer_type(B.new_void_type()))
        rnd = random.Random(seed ^ 0x2545f491)
        g = TS.TGen(rnd, **nm)
        seen = set()
        lines = decls.setdefault(str(seed), [])
        ti = tries = 0
        while ti < case['ntypes'] and tries < 40 * case['ntypes']:
            tries += 1
            s, toks = g.string()
            try:
                ts = [ffi1.typeof(s), ffi2.typeof(s)]
            except Exception:
                rep.stat('strings_rejected_by_a_parser')       # C07's business
                continue
            if ts[0] in seen:
                rep.stat('strings_denoting_a_type_already_taken')
                continue
            seen.add(ts[0])
            ti += 1
            if only is not None and ti != only:
                continue
            rep.stat('types')
            if ts[0] is ts[1]:
                rep.stat('types_shared_by_both_ffis')
            elif ffi1.getctype(ts[0]) != ffi2.getctype(ts[1]):
                # in-line: aggregate displayed under its typedef name (recorded C11 finding);
                # each name must still round-trip on its own FFI, and gcc takes both
                rep.stat('plain_name_differs_between_ffis')
            r2 = random.Random(seed * 1000003 + ti)
            xs = ['']
            for j in range(NSUF):
                xs.append(fixed_decl(r2, pool, r2.choice(FIXED)) if r2.random() < 0.4
                          else gen_decl(r2, pool))
            anon_base = any(t in xnames[-2:] for t in toks)
            for fi, ((label, f, interp), T) in enumerate(zip(ffis, ts)):
                kd = tkind(T)
                rep.stat('T_' + kd)
                if anon_base:
                    # built on a type that has no C name at all (anonymous aggregate / enum reached
                    # through a pointer typedef; decided from the source string, not from what
                    # cffi calls it): one classifier for everything about it
                    kd = 'anonymous-base'
                    rep.stat('T_on_anonymous_base_' + label)
                    if '$' in T.cname:
                        rep.stat('T_on_anonymous_base_named_with_dollar_' + label)
                oc = origin_class(B, T)
                if oc:
                    rep.stat('T_base_' + oc)
                name0 = None
                for x in (xs if label == 'compiled' else xs[:1 + NSUF_INLINE]):
                    lead = r2.choice(LEAD)
                    xt = lead + x + r2.choice(TRAIL)
                    kw = r2.choice([0, 0, 1, 2])
                    if not x and r2.random() < 0.5:
                        xt = None            # the one-argument form
                    elif lead not in ('', ' '):
                        rep.stat('x_led_by_tab_newline_or_several_blanks')
                    if xt is not None and kw:
                        rep.stat('x_passed_by_keyword')
                    det = [seed, ti]
                    key = (seed, T.cname, label, x)
                    cls = '%s:%s' % (label, kd) if kd == 'anonymous-base' else \
                        '%s:%s:%s' % (label, kd, xclass(x))
                    where = '%s FFI, T = %r (from %r), x = %r [shape %s]' % (
                        label, T, s, xt, shape_of(x))
                    try:
                        name = f.getctype(T) if xt is None else request(f, T, xt, kw)
                    except Exception as e:
                        rep.case(key)
                        rep.bad('getctype-raised:' + cls, '%s: getctype raised %s: %s' %
                                (where, type(e).__name__, e), det)
                        continue
                    if not x:
                        expected = T
                        name0 = name
                        if name != T.cname:
                            rep.stat('plain_name_differs_from_cname')
                    else:
                        try:
                            expected = interp.run(x, T)
                        except Invalid:
                            rep.stat('x_denotes_no_type_for_T')
                            try:
                                f.typeof(name)
                                rep.stat('x_denotes_no_type_but_name_accepted')
                            except Exception:
                                pass
                            continue
                    rep.case(key, nontrivial=kd not in ('primitive', 'struct', 'union', 'enum')
                             or '(' in x, sample={'ffi': label, 'T': T.cname, 'x': xt,
                                                  'getctype': name})
                    rep.stat('x_' + xclass(x))
                    rep.stat('checked_' + label)
                    try:
                        got = f.typeof(name)
                    except Exception as e:
                        if label == 'compiled' and '((' in shape_of(x):
                            # directly nested grouping parentheses: the C parser does not take
                            # them anywhere (recorded C07 finding nested-grouping-parens)
                            rep.stat('nested_grouping_parens_rejected_by_c_parser')
                            continue
                        rep.bad('reparse-rejected:' + cls, '%s: getctype -> %r, typeof raised '
                                '%s: %s (expected %r)' % (where, name, type(e).__name__, e,
                                                          expected), det)
                        continue
                    if got is not expected:
                        rep.bad('reparse-other-type:' + cls, '%s: getctype -> %r re-parses to %r, '
                                'expected %r' % (where, name, got, expected), det)
                        continue
                    # the other entry point: the type given as a string
                    if x and r2.random() >= 0.35:
                        continue
                    rep.stat('string_entry_requests')
                    try:
                        name_s = f.getctype(s) if xt is None else request(f, s, xt, kw)
                    except Exception as e:
                        rep.bad('string-entry-raised:' + cls, '%s: getctype(%r, %r) raised %s: %s, '
                                'getctype(typeof(...), ...) gave %r' % (where, s, xt, type(e).__name__,
                                                                       e, name), det)
                        continue
                    if name_s == name:
                        rep.stat('string_entry_same_text')
                        continue
                    rep.stat('string_entry_other_text')
                    try:
                        got = f.typeof(name_s)
                    except Exception as e:
                        got = '%s: %s' % (type(e).__name__, e)
                    if got is not expected:
                        rep.bad('string-entry-other-type:' + cls, '%s: getctype(%r, %r) -> %r re-parses '
                                'to %r, expected %r (getctype(typeof(...), ...) gave %r)' %
                                (where, s, xt, name_s, got, expected, name), det)
                # the plain name once more, after every other request on T: (a) must hold at
                # that point of the history too
                if name0 is not None:
                    rep.stat('plain_name_asked_again')
                    try:
                        again = f.getctype(T)
                        got = T if again == name0 else f.typeof(again)
                    except Exception as e:
                        again = got = '%s: %s' % (type(e).__name__, e)
                    if again != name0:
                        rep.stat('plain_name_asked_again_other_text')
                    if got is not T:
                        rep.bad('plain-name-changed-after-use:%s:%s' % (label, kd),
                                '%s FFI, T = %r: getctype(T) gave %r, and after the other requests %r '
                                'which re-parses to %r' % (label, T, name0, again, got), [seed, ti])
                # (c) a declaration for gcc
                if has_void_param(T):
                    # 'f(int, void)' is taken by both parsers but is not a C type
                    rep.stat('gcc_skipped_T_has_a_void_parameter')
                    continue
                var = 'v_%d_%s' % (ti, label[0])
                try:
                    line = f.getctype(T, var)
                except Exception as e:
                    rep.bad('getctype-raised:%s:%s:name' % (label, kd), 'getctype(%r, %r) raised '
                            '%s: %s' % (T, var, type(e).__name__, e), [seed, ti])
                    continue
                size = None
                if kd != 'void':
                    try:
                        size = f.sizeof(T)
                    except Exception:
                        pass
                lines.append([ti, label, kd, var, line, size, s])
                rep.stat('gcc_declarations')
                # ... and one from a named declarator, every other (T, FFI)
                if (ti + fi) % 2:
                    continue
                ok = [n for n in NAMED if not (n[1] and size is None)
                      and not (n[2] and T.kind == 'array')]
                fmt, _, _, np = r2.choice(ok)
                var = 'w_%d_%s' % (ti, label[0])
                kd2 = kd if kd == 'anonymous-base' else '%s:%s' % (kd, (fmt % 'w').replace(' ', ''))
                try:
                    line = f.getctype(T, fmt % var)
                except Exception as e:
                    rep.bad('getctype-raised:%s:%s:name' % (label, kd2), 'getctype(%r, %r) raised '
                            '%s: %s' % (T, fmt % var, type(e).__name__, e), [seed, ti])
                    continue
                lines.append([ti, label, kd2, var, line, psize * np if np else 2 * size, s])
                rep.stat('gcc_declarations_from_named_declarator')
                rep.stat('gcc_named_declarator_' + (fmt % 'w').replace(' ', ''))
    res = rep.result()
    res['decls'] = decls
    return res


# ---- parent: gcc probe ----------------------------------------------------

DECLS = {}
NAMEPATH = re.compile(r'getctype|getcname|_combine_type_name|ctypedescr_new_on_top|fb_build_name')
INTERNAL = re.compile(r'\b_cffi_(float|double)_complex_t\b')
CCONV = '#define __cdecl\n#define __stdcall\n'
COMPLEX_TD = ('typedef float _Complex _cffi_float_complex_t;\n'
              'typedef double _Complex _cffi_double_complex_t;\n')


def judge(ctx, setup, case, obs):
    core.absorb(ctx, case, obs, lambda d: {'seeds': [d[0]], 'ntypes': case['ntypes'],
                                           'only': d[1]})
    # sanitizer reports decide only when they are in the name-building path
    # (module import / parser reports belong to C11 / C30)
    for kind, frame, block in core.split_reports(obs.get('_san', '')):
        if NAMEPATH.search(block):
            ctx.violation('sanitizer-in-name-path:%s@%s' % (kind, frame), block[:1500], case)
    for seed, lines in obs.get('decls', {}).items():
        DECLS.setdefault((int(seed), case['ntypes']), []).extend(lines)


def probe(tmp, prelude, lines, retry=True):
    """compile the declarations after `prelude`, run, return (sizes, rejected {k: message});
    sizes is None when gcc rejects something else than one of the declarations.  Keys
    3000000+k of rejected: the *source* type string of T is itself not valid C."""
    rejected = {}
    while True:
        src, body = [cc.PRELUDE, prelude], []
        for k, (ti, label, kd, var, line, size, s) in enumerate(lines):
            if k in rejected or 3000000 + k in rejected:
                continue
            src.append('#line %d\nvoid p_%d(%s);' % (3000000 + k, k, s))
            src.append('#line %d\n%s%s;' % (1000000 + k, '' if size is not None and size <= 4096
                                           else 'extern ', line))
            if size is not None:
                body.append('#line %d\nprintf("%s %%zu\\n", sizeof(%s));' % (2000000 + k, var, var))
        src.append('#line 5\nint main(void) {\n%s\n#line 7\nreturn 0; }\n' % '\n'.join(body))
        exe = os.path.join(tmp, 'c08_%d_%d' % (os.getpid(), next(cc._counter)))
        rc, msg = cc.compile_c(tmp, '\n'.join(src), exe)
        if rc == 0:
            rc, out, err = cc.run_exe(exe)
            os.unlink(exe)
            if rc != 0:
                return None, {'run': err[-500:]}
            return dict((ln.split()[0], int(ln.split()[1])) for ln in out.splitlines()), rejected
        before = len(rejected)
        for m in re.finditer(r':([123]\d{6}):\d+: error: (.*)', msg):
            n = int(m.group(1))
            rejected.setdefault(n if n >= 3000000 else n % 1000000, m.group(2))
        if len(rejected) == before:
            return None, {'compile': msg[-1500:]}
        if not retry:
            return {}, rejected


def finalize(ctx, setup):
    import concurrent.futures as cf
    todo = sorted(DECLS.items())
    DECLS.clear()
    ctx.note('children finished after %.1f s' % ctx.elapsed())

    def work(item):
        (seed, ntypes), lines = item
        src = make_ctx(seed).c_source() + extra_decls(seed)[0]
        internal = [ln for ln in lines if INTERNAL.search(ln[4])]
        try:
            return (probe(ctx.tmp, CCONV + COMPLEX_TD + src, lines),
                    probe(ctx.tmp, CCONV + src, internal, False) if internal else None)
        except subprocess.TimeoutExpired:
            return (None, 'gcc timeout'), None
    with cf.ThreadPoolExecutor(8) as ex:
        results = list(ex.map(work, todo))
    for ((seed, ntypes), lines), ((sizes, rejected), internal) in zip(todo, results):
        ctx.count('gcc_probes')
        if sizes is None:
            ctx.inconclusive('gcc probe of context %d failed outside the declarations: %s' %
                             (seed, rejected))
            continue
        for k, (ti, label, kd, var, line, size, s) in enumerate(lines):
            rp = {'seeds': [seed], 'ntypes': ntypes, 'only': ti}
            if 3000000 + k in rejected:
                ctx.count('gcc_skipped_source_string_is_not_valid_c')
                ctx.note('not valid C (so its ctype is not given to gcc): %r: %s' %
                         (s, rejected[3000000 + k]))
                continue
            ctx.case((seed, var), True, sample={'declaration': line, 'sizeof': size})
            if k in rejected:
                ctx.violation('gcc-rejects-declaration:%s:%s' % (label, kd),
                              '%s FFI: getctype(T, %r) -> %r is rejected by gcc: %s' %
                              (label, var, line, rejected[k]), rp)
                continue
            ctx.count('gcc_accepted_declarations')
            if var.startswith('w_'):
                ctx.count('gcc_accepted_declarations_from_named_declarator')
            if size is None:
                ctx.count('gcc_incomplete_types_declared_extern')
            else:
                ctx.count('gcc_sizeof_compared')
                if sizes.get(var) != size:
                    ctx.violation('gcc-sizeof-differs:%s:%s' % (label, kd),
                                  '%s FFI: %r: gcc sizeof %s, ffi.sizeof(T) %s' %
                                  (label, line, sizes.get(var), size), rp)
        # names that only cffi's own generated C header declares
        if internal is not None:
            sizes2, rej2 = internal
            ilines = [ln for ln in lines if INTERNAL.search(ln[4])]
            if sizes2 is None:
                ctx.inconclusive('gcc probe (internal names) of context %d failed: %s' % (seed, rej2))
                continue
            for k, msg in sorted(rej2.items()):
                if k >= 3000000 or 3000000 + k in rej2 or not INTERNAL.search(msg):
                    continue
                ti, label, kd, var, line, size, s = ilines[k]
                ctx.count('gcc_rejects_cffi_internal_complex_name')
                ctx.violation('gcc-rejects-declaration:complex-named-by-cffi-internal-typedef',
                              '%s FFI: getctype(T, %r) -> %r: without the typedefs of cffi\'s own '
                              '_cffi_include.h gcc says: %s' % (label, var, line, msg),
                              {'seeds': [seed], 'ntypes': ntypes, 'only': ti})
