"""C29 -- callback closures stay distinct and bound to their own function.

History + model: random create / drop / churn / failed-create / gc steps over
ffi.callback() objects of a small signature set, in one ASan'd process per
shard so that the closure allocator's state (malloc_closure.h free list,
mmapped blocks) is carried from history to history.  The model knows for every
live callback its id, signature and address; monitors: addresses of live
callbacks pairwise distinct (incrementally at creation + full re-scans), a
call through the cdata / through a compiled C caller / through the integer
address runs exactly that callback's Python function once and returns its id
and the echo of the arguments, dropped callbacks' functions die after
gc.collect() (also when function <-> callback form a reference cycle).
"""
import os, sys, math
from vlib import core, modbuild

RULE = ("case = one step of a history (seed, peak, creation budget): grow burst (1..peak-live "
        "callbacks at once), drop burst (LIFO / FIFO / random order), churn (drop one, create "
        "one), failing creation (variadic / bitfield-struct type after the closure was "
        "allocated, bad error= before), gc.collect(), sweep; signatures int(void), int(int), "
        "long long(long long,int), double(double,double), void(int*,int), struct pt(short,"
        "unsigned char); created through cffi.FFI() or the compiled module's ffi, 1/8 of them in "
        "a cycle function.cb = callback; histories of one process sorted by (noisy) peak so the "
        "allocator's high-water mark rises through the more_core boundaries up to 20000 alive; "
        "after each step a sample of live callbacks (all new ones of small bursts) is called "
        "through cdata / C caller / integer address; distinct = (seed, step); non-trivial = at "
        "least one monitored call with >= 2 callbacks alive")
ASSUMPTIONS = ["closure memory is mmapped, so ASan cannot see it: distinctness is decided by the "
               "address monitor, ASan only covers the backend's malloc'ed objects (infotuple, cdata)",
               "a failing ffi.callback() (NotImplementedError / TypeError) is outside the statement; "
               "only its effect on the other callbacks and on the function's lifetime is monitored"]
VARIANT = 'asan'

# name, result type, parameter types
SIGDEF = [('v', 'int', []), ('i', 'int', ['int']), ('q', 'long long', ['long long', 'int']),
          ('d', 'double', ['double', 'double']), ('p', 'void', ['int *', 'int']),
          ('s', 'struct pt', ['short', 'unsigned char'])]
SIGW = ['v', 'i', 'i', 'i', 'q', 'q', 'd', 'd', 'p', 's', 's']
PMAX = 20000
CLOSURE = 56          # only used for coverage counters (block starts), never for verdicts


def fptr(ret, params):
    return '%s(*)(%s)' % (ret, ', '.join(params) or 'void')


def module_spec(d):
    decl, src = ['struct pt { int id; int x; };'], ['struct pt { int id; int x; };']
    for name, ret, params in SIGDEF:
        ps = ''.join(', %s a%d' % (t, i) for i, t in enumerate(params))
        args = ', '.join('a%d' % i for i in range(len(params)))
        head = '%s call_%s(%s (*cb)(%s)%s)' % (ret, name, ret, ', '.join(params) or 'void', ps)
        decl.append(head + ';')
        src.append('%s { %scb(%s); }' % (head, '' if ret == 'void' else 'return ', args))
    return {'name': '_c29mod', 'kind': 'api', 'cdef': '\n'.join(decl), 'source': '\n'.join(src),
            'dir': d}


def build_setup(ctx):
    d = os.path.join(ctx.tmp, 'mod')
    res = modbuild.build_modules(ctx, [module_spec(d)])['_c29mod']
    if not res['ok']:
        raise core.Inconclusive('helper module build failed: ' + res['error'] + res.get('log', ''))
    return {'dir': d}


def plan(rng, nhist, small_hi, top=PMAX):
    """[seed, peak, budget] per history of one process: many small ones and a
    ladder of big ones, ordered by noisy peak."""
    ladder = [p for p in (1200, 2600, 5200, 10000, PMAX) if p <= top]
    hs = []
    for _ in range(max(1, nhist - len(ladder))):
        peak = int(math.exp(rng.uniform(math.log(20), math.log(small_hi))))
        hs.append([peak * math.exp(rng.gauss(0, 0.5)), peak, int(peak * rng.uniform(1.5, 3)) + 20])
    for p in ladder:
        peak = min(PMAX, int(p * rng.uniform(0.9, 1.1)))
        hs.append([peak, peak, int(peak * rng.uniform(1.35, 1.6 if p > 5000 else 2.2))])
    hs.sort()
    return [[rng.getrandbits(48), h[1], h[2]] for h in hs]


def generate(ctx):
    rng = ctx.rng('gen')
    nchild, nhist, small_hi = (10, 500, 200) if ctx.thorough else (1, 100, 700)
    nhist = ctx.scale(nhist, nhist)
    # every second process of the thorough tier stops the ladder at 5200 alive
    return build_setup(ctx), [{'hist': plan(rng, nhist, small_hi, 5200 if i % 2 else PMAX)}
                              for i in range(nchild)]


def replay_setup(ctx, case):
    return build_setup(ctx)


# ---------------------------------------------------------------------------
# child side

def child_setup(setup, wd):
    sys.path.insert(0, setup['dir'])
    import _c29mod
    from cffi import FFI
    mffi, lib = _c29mod.ffi, _c29mod.lib
    pffi = FFI()
    st = {'mffi': mffi, 'lib': lib, 'pffi': pffi, 'U': mffi.typeof('uintptr_t'),
          'T': {n: mffi.typeof(fptr(r, p)) for n, r, p in SIGDEF},
          'call': {n: getattr(lib, 'call_' + n) for n, r, p in SIGDEF},
          'out': mffi.new('int[2]'), 'log': [], 'next_id': 0, 'seen': set()}
    bffi = st['bf_ffi'] = FFI()
    bffi.cdef('struct bf { int a:3; int b; };')
    st['fail_types'] = {'variadic': mffi.typeof('int(*)(int, ...)'),
                        'bitfield-struct': bffi.typeof('int(*)(struct bf)')}
    return st


def make_fn(sig, k, log):
    if sig == 'v':
        def f():
            log.append(k)
            return k
    elif sig == 'i':
        def f(x):
            log.append(k)
            return k + (x << 20)
    elif sig == 'q':
        def f(a, b):
            log.append(k)
            return k + (a << 20) + (b << 44)
    elif sig == 'd':
        def f(a, b):
            log.append(k)
            return k + a * 1048576.0 + b * 68719476736.0
    elif sig == 'p':
        def f(out, x):
            log.append(k)
            out[0] = k
            out[1] = x
    else:
        def f(a, b):
            log.append(k)
            return (k, a * 256 + b)
    return f


def args_expect(sig, k, rnd):
    if sig == 'v':
        return (), k
    if sig == 'i':
        x = rnd.randrange(-1024, 1024)
        return (x,), k + (x << 20)
    if sig == 'q':
        a, b = rnd.randrange(-1 << 23, 1 << 23), rnd.randrange(1 << 17)
        return (a, b), k + (a << 20) + (b << 44)
    if sig == 'd':
        a, b = float(rnd.randrange(65536)), float(rnd.randrange(65536))
        return (a, b), k + a * 1048576.0 + b * 68719476736.0
    if sig == 'p':
        x = rnd.randrange(-1 << 31, 1 << 31)
        return (x,), (k, x)
    a, b = rnd.randrange(-32768, 32768), rnd.randrange(256)
    return (a, b), (k, a * 256 + b)


class Rec(object):
    __slots__ = ('cb', 'sig', 'addr', 'wr', 'cyc', 'pos')


class History(object):
    def __init__(self, st, rep, rnd, idx, seed, peak):
        self.st, self.rep, self.rnd, self.idx, self.seed, self.peak = st, rep, rnd, idx, seed, peak
        self.live, self.ids, self.by_addr = {}, [], {}
        import collections
        self.order = collections.deque()
        self.zombies = {}        # addr -> weakref of the function of a dropped cyclic callback
        self.pending = []        # (weakref, how): must be dead after gc.collect()
        self.created = 0
        self.last_freed = None
        self.oplog = []

    def bad(self, mech, msg):
        self.rep.bad(mech, '%s | history #%d seed %d peak %d, %d alive, last steps %r' %
                     (msg, self.idx, self.seed, self.peak, len(self.live), self.oplog[-4:]),
                     self.idx)

    # ---- operations ----------------------------------------------------
    def create(self):
        import weakref
        st, rnd, rep = self.st, self.rnd, self.rep
        sig = rnd.choice(SIGW)
        k = st['next_id'] = (st['next_id'] + 1) & 0xFFFFF
        f = make_fn(sig, k, st['log'])
        r = Rec()
        r.sig, r.wr, r.cyc = sig, weakref.ref(f), rnd.random() < 0.125
        if sig != 's' and rnd.random() < 0.5:
            r.cb = st['pffi'].callback(st['T'][sig], f)
            rep.stat('created_via_cffi.FFI')
        else:
            r.cb = st['mffi'].callback(st['T'][sig], f)
            rep.stat('created_via_module_ffi')
        if r.cyc:
            f.cb = r.cb
        del f
        a = r.addr = int(st['mffi'].cast(st['U'], r.cb))
        self.created += 1
        rep.stat('created_sig_' + sig)
        if a in self.by_addr:
            o = self.live[self.by_addr[a]]
            self.bad('address-shared:two-live-callbacks', 'new %s callback id %d has address '
                     '0x%x, which live %s callback id %d already has' %
                     (sig, k, a, o.sig, self.by_addr[a]))
        z = self.zombies.pop(a, None)
        if z is not None and z() is not None:
            self.bad('address-shared:uncollected-callback', 'new callback id %d has address 0x%x '
                     'of a dropped callback whose cycle is not collected yet' % (k, a))
        seen = st['seen']
        if a in seen:
            rep.stat('address_reused')
            if a == self.last_freed:
                rep.stat('address_reused_lifo')
        else:
            rep.stat('address_fresh')
            if (a + CLOSURE) not in seen and (a - CLOSURE) not in seen:
                rep.stat('mmap_block_first_use')
            seen.add(a)
        self.last_freed = None
        self.by_addr[a] = k
        r.pos = len(self.ids)
        self.ids.append(k)
        self.live[k] = r
        self.order.append(k)
        return k

    def drop(self, mode):
        live, order = self.live, self.order
        if mode == 'lifo':
            while order[-1] not in live:
                order.pop()
            k = order.pop()
        elif mode == 'fifo':
            while order[0] not in live:
                order.popleft()
            k = order.popleft()
        else:
            k = self.rnd.choice(self.ids)
        r = live.pop(k)
        last = self.ids.pop()
        if last != k:
            self.ids[r.pos] = last
            live[last].pos = r.pos
        del self.by_addr[r.addr]
        r.cb = None                      # the only reference
        self.rep.stat('dropped_' + mode)
        if r.wr() is None:
            self.rep.stat('function_freed_by_refcount')
            self.last_freed = r.addr
        elif r.cyc:
            self.zombies[r.addr] = r.wr
            self.pending.append((r.wr, 'cycle'))
        else:
            self.pending.append((r.wr, 'plain'))

    def fail(self):
        import weakref
        st, rnd = self.st, self.rnd
        kind = rnd.choice(['variadic', 'variadic', 'bitfield-struct', 'bad-error-value'])
        f = make_fn('i', -1, st['log'])
        wr = weakref.ref(f)
        try:
            if kind == 'bad-error-value':
                st['mffi'].callback(st['T']['i'], f, error='x')
            else:
                ffi = st['bf_ffi'] if kind == 'bitfield-struct' else \
                    rnd.choice([st['mffi'], st['pffi']])
                ffi.callback(st['fail_types'][kind], f)
            self.bad('harness-failed-create-succeeded', 'ffi.callback(%s) did not fail' % kind)
        except (NotImplementedError, TypeError):
            pass
        del f
        self.rep.stat('failed_create_' + kind)
        if wr() is not None:
            self.pending.append((wr, 'failed-create'))

    def collect(self):
        import gc
        gc.collect()
        self.rep.stat('gc_collect')
        for wr, how in self.pending:
            if wr() is not None:
                self.bad('function-not-collectable:' + how, 'Python function of a dropped '
                         'callback (%s) is still alive after gc.collect()' % how)
            else:
                self.rep.stat('function_freed_by_gc_' + how)
        self.pending = []
        self.zombies = {}

    # ---- monitors --------------------------------------------------------
    def selfdrop(self):
        """a callback whose last reference is dropped *while it runs* (it is called
        through a raw function pointer), after which new callbacks reuse the freed
        closure: the running call must still finish as itself - own result
        conversion, own error value"""
        st, rnd = self.st, self.rnd
        ffi = st['mffi'] if rnd.random() < 0.5 else st['pffi']
        E = rnd.randint(-10 ** 6, 10 ** 6)
        mode = rnd.choice(['return', 'raise', 'raise', 'badvalue'])
        use_onerror = rnd.random() < 0.4
        holder, fresh, ran, onerr = [], [], [], []

        def f(x):
            ran.append(x)
            del holder[:]                      # the only reference to the callback object
            for j in range(rnd.choice([1, 3, 8])):
                fresh.append(ffi.callback('int(int)', lambda y: y - 5, error=-77))
            if mode == 'raise':
                raise ZeroDivisionError('selfdrop')
            if mode == 'badvalue':
                return 'not an int'
            return x * 3 + 1
        kw = {'error': E}
        if use_onerror:
            kw['onerror'] = lambda e, v, tb: onerr.append(e.__name__)
        holder.append(ffi.callback('int(int)', f, **kw))
        addr = int(ffi.cast('intptr_t', holder[0]))
        raw = st['mffi'].cast(st['T']['i'], addr)
        x = rnd.randint(-1000, 1000)
        old_hook = sys.unraisablehook
        sys.unraisablehook = lambda u: None
        try:
            got = st['call']['i'](raw, x) if rnd.random() < 0.6 else raw(x)
        finally:
            sys.unraisablehook = old_hook
        exp = x * 3 + 1 if mode == 'return' else E
        self.rep.stat('selfdrop_' + mode)
        self.rep.stat('selfdrop_calls')
        if ran != [x] or got != exp or holder:
            self.bad('selfdrop-call-finished-as-another-callback:' + mode, 'int(int) callback '
                     'with error=%d, dropped by its own function which then created %d new '
                     'callbacks and %s: function ran with %r, C caller got %r, expected %r' %
                     (E, len(fresh), {'return': 'returned', 'raise': 'raised',
                                      'badvalue': 'returned a str'}[mode], ran, got, exp))
        if use_onerror and mode != 'return' and len(onerr) != 1:
            self.bad('selfdrop-onerror-not-own', 'the onerror handler of the self-dropping '
                     'callback ran %d times' % len(onerr))
        for c in fresh[:2]:
            if c(10) != 5:
                self.bad('selfdrop-new-callback-wrong', 'a callback created during the call '
                         'returned %r for 10, expected 5' % (c(10),))
        del fresh[:]

    def check_call(self, k, path=None):
        st, rnd = self.st, self.rnd
        r = self.live[k]
        sig = r.sig
        path = path or rnd.choice(['cdata', 'c', 'c', 'addr'])
        args, exp = args_expect(sig, k, rnd)
        log = st['log']
        del log[:]
        if st['mffi'].typeof(r.cb) is not st['T'][sig]:
            self.bad('type-changed', 'callback id %d created as %s is now %s' %
                     (k, st['T'][sig], st['mffi'].typeof(r.cb)))
        if path == 'c':
            fn, pre = st['call'][sig], (r.cb,)
        elif path == 'cdata':
            fn, pre = r.cb, ()
        else:
            fn, pre = st['mffi'].cast(st['T'][sig], r.addr), ()
        if sig == 'p':
            out = st['out']
            out[0] = out[1] = -1
            fn(*(pre + (out,) + args))
            got = (out[0], out[1])
        else:
            got = fn(*(pre + args))
            if sig == 's':
                got = (got.id, got.x)
        self.rep.stat('calls_via_' + path)
        self.rep.stat('calls_sig_' + sig)
        if log != [k] or got != exp:
            mech = ('call-ran-no-function:' if not log else 'call-ran-other-function:'
                    if log != [k] else 'call-wrong-result:') + path
            self.bad(mech, '%s callback id %d at 0x%x called via %s with %r: functions run %r, '
                     'result %r, expected %r' % (sig, k, r.addr, path, args, log[:5], got, exp))
        return 1

    def scan(self):
        """re-read every live address from the cdata; pairwise distinct"""
        cast, U = self.st['mffi'].cast, self.st['U']
        addrs = set()
        for k, r in self.live.items():
            a = int(cast(U, r.cb))
            if a != r.addr:
                self.bad('address-changed', 'callback id %d moved from 0x%x to 0x%x' %
                         (k, r.addr, a))
            addrs.add(a)
        if len(addrs) != len(self.live):
            self.bad('address-shared:two-live-callbacks', '%d live callbacks have only %d '
                     'distinct addresses' % (len(self.live), len(addrs)))
        self.rep.stat('full_address_scans')
        self.rep.stat('addresses_rescanned', len(addrs))

    def sweep(self, limit=None):
        ks = self.ids if limit is None or len(self.ids) <= limit else \
            self.rnd.sample(self.ids, limit)
        n = 0
        for k in list(ks):
            n += self.check_call(k)
        self.rep.stat('sweeps')
        return n

    # ---- one step --------------------------------------------------------
    def burst(self, gap):
        r = self.rnd.random()
        if r < 0.1:
            return max(1, gap)                   # all the way to the target
        if r < 0.25:
            return self.rnd.randint(40, 160)     # about one or two pages of closures
        return self.rnd.choice([1, 2, self.rnd.randint(1, 12)])

    def step(self, target):
        rnd, peak = self.rnd, self.peak
        n = len(self.live)
        r = rnd.random()
        new, calls = [], 0
        if r < 0.03:
            op = ('gc',)
            self.collect()
            for _ in range(rnd.choice([0, 1, 2])):
                self.selfdrop()
        elif r < 0.06 and n:
            op = ('sweep',)
            if n <= 5000 or rnd.random() < 0.2:
                self.scan()
            calls += self.sweep(2000)
        elif r < 0.12:
            op = ('fail',)
            for _ in range(rnd.choice([1, 1, 3])):
                self.fail()
        elif n and (r < 0.30 or n == target):
            k = rnd.choice([1, 2, rnd.randint(1, 12), rnd.randint(1, 60)])
            mode = rnd.choice(['lifo', 'random'])
            op = ('churn', k, mode)
            for _ in range(k):
                self.drop(mode)
                new.append(self.create())
        elif n < target or n == 0:
            k = min(peak - n, self.burst(target - n))
            op = ('grow', k)
            for _ in range(k):
                new.append(self.create())
        else:
            k = min(n, self.burst(n - target))
            mode = rnd.choice(['lifo', 'fifo', 'random', 'random'])
            op = ('drop', k, mode)
            for _ in range(k):
                self.drop(mode)
        self.oplog.append(op)
        # sample monitor: the new ones (all of a small burst) and old ones
        if self.live:
            if len(new) > 12:
                new = rnd.sample(new, 6 + len(new) // 8)
            for k in new:
                if k in self.live:
                    calls += self.check_call(k)
            for _ in range(min(len(self.live), 6 + len(new) // 2)):
                calls += self.check_call(rnd.choice(self.ids))
        return op, calls


def run_history(st, rep, idx, seed, peak, budget):
    import random, gc
    rnd = random.Random(seed)
    h = History(st, rep, rnd, idx, seed, peak)
    auto_gc = rnd.random() < 0.5
    (gc.enable if auto_gc else gc.disable)()
    rep.stat('histories')
    rep.stat('histories_auto_gc' if auto_gc else 'histories_gc_disabled')
    target, stepno, at_peak = peak, 0, False
    while h.created < budget and not rep.nbad:
        if rnd.random() < 0.15:
            target = rnd.choice([0, peak // 4, peak // 2, peak, peak, rnd.randint(0, peak)])
        op, calls = h.step(target)
        stepno += 1
        n = len(h.live)
        rep.case((seed, stepno), nontrivial=calls > 0 and n >= 2,
                 sample={'seed': seed, 'peak': peak, 'step': stepno, 'op': list(op), 'alive': n})
        rep.stat('steps_' + op[0])
        if n > st.get('max_alive', 0):
            st['max_alive'] = n
        if n >= peak and not at_peak:      # everything alive at the peak is scanned and called
            at_peak = True
            h.scan()
            h.sweep()
            rep.stat('full_sweeps_at_peak')
    if not rep.nbad:
        h.scan()
        h.sweep(4000)
        while h.live and not rep.nbad:
            h.drop(rnd.choice(['lifo', 'fifo', 'random']))
        h.collect()
    gc.enable()


def child_case(st, case):
    rep = core.ChildRep()
    for idx, (seed, peak, budget) in enumerate(case['hist']):
        try:
            run_history(st, rep, idx, seed, peak, budget)
        except Exception:
            import traceback
            rep.bad('harness-exception', traceback.format_exc()[-900:], idx)
        if rep.nbad:
            break
    rep.stats['max_alive_at_once'] = st.get('max_alive', 0)
    rep.stats['closure_addresses_seen'] = len(st['seen'])
    return rep.result()


# ---------------------------------------------------------------------------
# parent side

def judge(ctx, setup, case, obs):
    peak = {}
    for k in ('max_alive_at_once', 'closure_addresses_seen'):     # maxima, not sums
        peak[k] = max(ctx.counters.get(k, 0), obs['stats'].pop(k, 0))
    core.absorb(ctx, case, obs, lambda idx: {'hist': case['hist'][:idx + 1]})
    ctx.counters.update(peak)


def run(ctx):
    setup, cases = generate(ctx)
    obs = core.run_cases(ctx, 'c29', setup, cases, variant=VARIANT, nproc=1, shard_size=1,
                         timeout=900)
    for c, o in zip(cases, obs):
        if core.std_obs_check(ctx, c, o):
            judge(ctx, setup, c, o)
