"""C29 -- callback closures stay distinct and bound to their own function.

History + model: random create / drop / churn / failed-create / gc steps over
ffi.callback() objects of a small signature set (every entry point of
ffi.callback(), several callable kinds, shared callables, own error= / onerror=,
ffi.gc() keepers, finalizers that create callbacks), in one ASan'd process per
shard so that the closure allocator's state (malloc_closure.h free list,
mmapped blocks) is carried from history to history.  The model knows for every
live callback its id, signature and address; monitors: addresses of live
callbacks pairwise distinct (incrementally at creation + full re-scans), a
call through the cdata / through a compiled C caller / through the integer
address runs exactly that callback's Python function once and returns its id
and the echo of the arguments, dropped callbacks' functions die after
gc.collect() (also when function <-> callback form a reference cycle).
"""
import os, sys, math
from vlib import core, modbuild

RULE = ("case = one step of a history (seed, peak, creation budget): grow burst (1..peak-live "
        "callbacks at once), drop burst (LIFO / FIFO / random order), churn (drop one, create "
        "one), failing creation (variadic / bitfield-struct type after the closure was "
        "allocated, also through the decorator form; bad error=, non-callable function or onerror "
        "before), noise on a live callback (repr, ffi.release / with -> refused, weakref, bool, "
        "hash, ==, typeof), gc.collect(), sweep; signatures int(void), int(int), long long(long "
        "long,int), double(double,double), void(int*,int), struct pt(short,unsigned char), "
        "short(short,signed char), int(9 x int), void*(void*,unsigned char); entry points: ctype "
        "object, 'R(*)(A)' string, 'R(A)' string, decorator form (ctype / string), keyword "
        "arguments, one decorator object per (ffi, signature) used again and again for the whole "
        "process (with and without error=); through cffi.FFI() or the compiled module's ffi; "
        "callable kinds function / bound method / callable instance / functools.partial / lambda / "
        "the very callable object of another live callback; 35% with an error= value derived from "
        "the callback's id, 16% with an onerror handler of their own (returning None or a value "
        "derived from the id); 1/8 in a cycle function.cb = callback, 8% kept alive only by an "
        "ffi.gc() copy whose destructor calls the callback, 8% with a weakref finalizer (on the "
        "cdata / on the function) that creates a new callback in the middle of the deallocation; "
        "histories of one process sorted by (noisy) peak so the allocator's high-water mark rises "
        "through the more_core boundaries up to 20000 alive; after each step a sample of live "
        "callbacks (all new ones of small bursts) is called through cdata / C caller / integer "
        "address (rarely from a second Python thread): 90% plain calls, 6% calls whose function "
        "raises or returns an unconvertible value (caller must see the callback's own error value "
        "/ own onerror result, own onerror handler runs once), 4% chains of 2-4 nested calls "
        "(callback function calls another live callback or itself, each level succeeding or "
        "failing on its own, optionally dropping and creating other callbacks in the middle); "
        "distinct = (seed, step); non-trivial = at least one monitored call with >= 2 callbacks "
        "alive")
ASSUMPTIONS = ["closure memory is mmapped, so ASan cannot see it: distinctness is decided by the "
               "address monitor, ASan only covers the backend's malloc'ed objects (infotuple, cdata)",
               "a failing ffi.callback() (NotImplementedError / TypeError) is outside the statement; "
               "only its effect on the other callbacks and on the function's lifetime is monitored",
               "'its own signature' includes the callback's own error= value and onerror handler "
               "(they are stored next to the function in the closure's user data): a failing call "
               "is judged by the value the C caller receives, value conversion as such is C14's",
               "two ffi.callback() calls with the same callable and type are two callbacks "
               "(distinct addresses, each with its own error value)",
               "whether the destructor of an ffi.gc() copy runs at all is not judged here (counter "
               "gc_destructor_not_run_at_drop), only what a call made from it does"]
VARIANT = 'asan'

# name, result type, parameter types
SIGDEF = [('v', 'int', []), ('i', 'int', ['int']), ('q', 'long long', ['long long', 'int']),
          ('d', 'double', ['double', 'double']), ('p', 'void', ['int *', 'int']),
          ('s', 'struct pt', ['short', 'unsigned char']),
          ('h', 'short', ['short', 'signed char']), ('m', 'int', ['int'] * 9),
          ('u', 'void *', ['void *', 'unsigned char'])]
SIGW = ['v', 'i', 'i', 'i', 'q', 'q', 'd', 'd', 'p', 's', 's', 'h', 'm', 'u']
PMAX = 20000
CLOSURE = 56          # only used for coverage counters (block starts), never for verdicts


def fptr(ret, params):
    return '%s(*)(%s)' % (ret, ', '.join(params) or 'void')


def module_spec(d):
    decl, src = ['struct pt { int id; int x; };'], ['struct pt { int id; int x; };']
    for name, ret, params in SIGDEF:
        ps = ''.join(', %s a%d' % (t, i) for i, t in enumerate(params))
        args = ', '.join('a%d' % i for i in range(len(params)))
        head = '%s call_%s(%s (*cb)(%s)%s)' % (ret, name, ret, ', '.join(params) or 'void', ps)
        decl.append(head + ';')
        src.append('%s { %scb(%s); }' % (head, '' if ret == 'void' else 'return ', args))
    return {'name': '_c29mod', 'kind': 'api', 'cdef': '\n'.join(decl), 'source': '\n'.join(src),
            'dir': d}


def build_setup(ctx):
    d = os.path.join(ctx.tmp, 'mod')
    res = modbuild.build_modules(ctx, [module_spec(d)])['_c29mod']
    if not res['ok']:
        raise core.Inconclusive('helper module build failed: ' + res['error'] + res.get('log', ''))
    return {'dir': d}


def plan(rng, nhist, small_hi, top=PMAX):
    """[seed, peak, budget] per history of one process: many small ones and a
    ladder of big ones, ordered by noisy peak."""
    ladder = [p for p in (1200, 2600, 5200, 10000, PMAX) if p <= top]
    hs = []
    for _ in range(max(1, nhist - len(ladder))):
        peak = int(math.exp(rng.uniform(math.log(20), math.log(small_hi))))
        hs.append([peak * math.exp(rng.gauss(0, 0.5)), peak, int(peak * rng.uniform(1.5, 3)) + 20])
    for p in ladder:
        peak = min(PMAX, int(p * rng.uniform(0.9, 1.1)))
        hs.append([peak, peak, int(peak * rng.uniform(1.35, 1.6 if p > 5000 else 2.2))])
    hs.sort()
    return [[rng.getrandbits(48), h[1], h[2]] for h in hs]


def generate(ctx):
    rng = ctx.rng('gen')
    nchild, nhist, small_hi = (10, 500, 200) if ctx.thorough else (1, 100, 700)
    nhist = ctx.scale(nhist, nhist)
    # every second process of the thorough tier stops the ladder at 5200 alive
    return build_setup(ctx), [{'hist': plan(rng, nhist, small_hi, 5200 if i % 2 else PMAX)}
                              for i in range(nchild)]


def replay_setup(ctx, case):
    return build_setup(ctx)


# ---------------------------------------------------------------------------
# child side

def child_setup(setup, wd):
    sys.path.insert(0, setup['dir'])
    import _c29mod
    from cffi import FFI
    mffi, lib = _c29mod.ffi, _c29mod.lib
    pffi = FFI()
    st = {'mffi': mffi, 'lib': lib, 'pffi': pffi, 'U': mffi.typeof('uintptr_t'),
          'T': {n: mffi.typeof(fptr(r, p)) for n, r, p in SIGDEF},
          'call': {n: getattr(lib, 'call_' + n) for n, r, p in SIGDEF},
          'VP': mffi.typeof('void *'), 'log': [], 'onerr': [], 'ctl': [None], 'decs': {},
          'unraisable': [], 'next_id': 0, 'seen': set(),
          'S_ptr': {n: fptr(r, p) for n, r, p in SIGDEF},
          'S_fn': {n: '%s(%s)' % (r, ', '.join(p) or 'void') for n, r, p in SIGDEF}}

    def quiet(u, keep=st['unraisable']):
        keep[:] = ['%s: %.150r' % (u.err_msg, u.exc_value)]
    sys.unraisablehook = quiet
    bffi = st['bf_ffi'] = FFI()
    bffi.cdef('struct bf { int a:3; int b; };')
    st['fail_types'] = {'variadic': mffi.typeof('int(*)(int, ...)'),
                        'bitfield-struct': bffi.typeof('int(*)(struct bf)')}
    return st


class Boom(Exception):
    pass


BAD = 'not a number'       # unconvertible result for every result type (void included)


def make_fn(sig, k, st):
    """The Python function of one callback: logs its id, then (only while a
    failing / nested call is being monitored: ctl[0] is the history's hook) runs
    the hook, which may call further callbacks, raise, or hand back a value that
    cannot be converted; then returns id + echo of the arguments."""
    log, ctl = st['log'], st['ctl']
    if sig == 'v':
        def f():
            log.append(k)
            if ctl[0] is not None:
                x = ctl[0](k)
                if x is not None:
                    return x
            return k
    elif sig == 'i':
        def f(x):
            log.append(k)
            if ctl[0] is not None:
                y = ctl[0](k)
                if y is not None:
                    return y
            return k + (x << 20)
    elif sig == 'q':
        def f(a, b):
            log.append(k)
            if ctl[0] is not None:
                y = ctl[0](k)
                if y is not None:
                    return y
            return k + (a << 20) + (b << 44)
    elif sig == 'd':
        def f(a, b):
            log.append(k)
            if ctl[0] is not None:
                y = ctl[0](k)
                if y is not None:
                    return y
            return k + a * 1048576.0 + b * 68719476736.0
    elif sig == 'p':
        def f(out, x):
            log.append(k)
            if ctl[0] is not None:
                y = ctl[0](k)
                if y is not None:
                    return y
            out[0] = k
            out[1] = x
    elif sig == 'h':
        def f(a, b):
            log.append(k)
            if ctl[0] is not None:
                y = ctl[0](k)
                if y is not None:
                    return y
            return (k + a + 3 * b) % 30000
    elif sig == 'm':
        def f(*a):
            log.append(k)
            if ctl[0] is not None:
                y = ctl[0](k)
                if y is not None:
                    return y
            return k + (sum((i + 1) * v for i, v in enumerate(a)) << 20)
    elif sig == 'u':
        cast, U, VP = st['mffi'].cast, st['U'], st['VP']

        def f(a, b):
            log.append(k)
            if ctl[0] is not None:
                y = ctl[0](k)
                if y is not None:
                    return y
            return cast(VP, k + (int(cast(U, a)) << 20) + (b << 44))
    else:
        def f(a, b):
            log.append(k)
            if ctl[0] is not None:
                y = ctl[0](k)
                if y is not None:
                    return y
            return (k, a * 256 + b)
    return f


class Holder(object):
    """callable kinds other than a plain function: bound method, instance"""
    def __init__(self, f):
        self.f = f

    def meth(self, *a):
        return self.f(*a)

    def __call__(self, *a):
        return self.f(*a)


def make_onerror(key, onlog, ret):
    def onerror(exc, val, tb):
        onlog.append(key)
        return ret
    return onerror


def args_expect(sig, k, rnd):
    """(arguments in model form, expected observation) of a successful call of
    the function with id k"""
    if sig == 'v':
        return (), k
    if sig == 'i':
        x = rnd.randrange(-1024, 1024)
        return (x,), k + (x << 20)
    if sig == 'q':
        a, b = rnd.randrange(-1 << 23, 1 << 23), rnd.randrange(1 << 17)
        return (a, b), k + (a << 20) + (b << 44)
    if sig == 'd':
        a, b = float(rnd.randrange(65536)), float(rnd.randrange(65536))
        return (a, b), k + a * 1048576.0 + b * 68719476736.0
    if sig == 'p':
        x = rnd.randrange(-1 << 31, 1 << 31)
        return (x,), (k, x)
    if sig == 'h':
        a, b = rnd.randrange(-3000, 3000), rnd.randrange(-128, 128)
        return (a, b), (k + a + 3 * b) % 30000
    if sig == 'm':
        a = tuple(rnd.randrange(16) for _ in range(9))
        return a, k + (sum((i + 1) * v for i, v in enumerate(a)) << 20)
    if sig == 'u':
        x, b = rnd.randrange(1 << 24), rnd.randrange(256)
        return (x, b), k + (x << 20) + (b << 44)
    a, b = rnd.randrange(-32768, 32768), rnd.randrange(256)
    return (a, b), (k, a * 256 + b)


def err_forms(st, sig, n):
    """an error value derived from the integer n: (what is passed as error= / returned
    by onerror, what the caller of the failing callback must observe)"""
    if sig in ('v', 'i', 'm'):
        return -(n + 1), -(n + 1)
    if sig == 'q':
        return -(n + 1) - (1 << 40), -(n + 1) - (1 << 40)
    if sig == 'h':
        return -((n % 30000) + 1), -((n % 30000) + 1)
    if sig == 'd':
        return -(n + 0.5), -(n + 0.5)
    if sig == 'u':
        return st['mffi'].cast(st['VP'], (n << 4) | 1), (n << 4) | 1
    if sig == 's':
        return rnd_struct_form(n), (n, -7)
    raise AssertionError(sig)


def rnd_struct_form(n):
    return [(n, -7), [n, -7], {'id': n, 'x': -7}][n % 3]


ZERO = {'v': 0, 'i': 0, 'm': 0, 'q': 0, 'h': 0, 'd': 0.0, 'u': 0, 's': (0, 0), 'p': (-1, -1)}
KINDS = ['function'] * 5 + ['method', 'partial', 'instance', 'lambda']
HOWS = ['ctype'] * 4 + ['str-ptr', 'str-fn', 'decorator', 'decorator-str', 'shared-decorator',
                        'shared-decorator', 'keywords']


class Rec(object):
    __slots__ = ('cb', 'sig', 'addr', 'wr', 'cyc', 'pos', 'key', 'fid', 'err', 'onerr', 'fexp',
                 'wr_on', 'keep', 'twin')


class History(object):
    def __init__(self, st, rep, rnd, idx, seed, peak):
        self.st, self.rep, self.rnd, self.idx, self.seed, self.peak = st, rep, rnd, idx, seed, peak
        self.live, self.ids, self.by_addr = {}, [], {}
        import collections
        self.order = collections.deque()
        self.zombies = {}        # addr -> weakref of the function of a dropped cyclic callback
        self.pending = []        # (weakref, how): must be dead after gc.collect()
        self.created = 0
        self.last_freed = None
        self.oplog = []
        self.fn_users = {}       # function id -> number of live callbacks around that callable
        self.fins = {}           # key -> weakref(callback cdata, finalizer)
        self.spawnq = []         # callbacks created inside finalizers, not yet in the model
        self.gc_done = {}        # key -> outcome of the ffi.gc destructor's call
        self.levels, self.cursor, self.protected = [], 0, ()
        self.closing = False

    def bad(self, mech, msg):
        self.rep.bad(mech, '%s | history #%d seed %d peak %d, %d alive, last steps %r' %
                     (msg, self.idx, self.seed, self.peak, len(self.live), self.oplog[-4:]),
                     self.idx)

    # ---- operations ----------------------------------------------------
    def _make(self, twin_of=None, simple=False):
        """create one callback (not yet known to the model).  simple: called from a
        finalizer at a moment the history does not control - no random draws."""
        import weakref, functools
        st, rnd, rep = self.st, self.rnd, self.rep
        r = Rec()
        k = r.key = st['next_id'] = (st['next_id'] + 1) & 0xFFFFF
        r.cyc, r.err, r.onerr, r.wr_on, r.keep, r.twin = False, None, None, None, 'direct', False
        fin = None
        if twin_of is not None:          # a second callback around the same callable object
            sig, call, r.fid, r.twin = twin_of.sig, twin_of.wr(), twin_of.fid, True
            twin_of.twin = True
            inner = None
            rep.stat('created_callable_shared_with_live_callback')
        else:
            sig = SIGW[k % len(SIGW)] if simple else rnd.choice(SIGW)
            inner = call = make_fn(sig, k, st)
            r.fid = k
            kind = 'function' if simple else rnd.choice(KINDS)
            if kind == 'method':
                call = Holder(inner).meth
            elif kind == 'instance':
                call = Holder(inner)
            elif kind == 'partial':
                call = functools.partial(inner)
            elif kind == 'lambda':
                call = (lambda g: lambda *a: g(*a))(inner)
            rep.stat('created_callable_' + kind)
            if not simple:
                r.cyc = rnd.random() < 0.125
                x = rnd.random()
                fin = 'fn' if x < 0.04 else 'cdata' if x < 0.08 else None
        r.sig = sig
        r.wr = weakref.ref(call, self._spawn_raw) if fin == 'fn' else weakref.ref(call)
        # ---- error= / onerror= of its own
        kw = {}
        if not simple:
            if sig != 'p' and rnd.random() < 0.35:
                kw['error'], r.err = err_forms(st, sig, k)
            x = rnd.random()
            if x < 0.16:
                ret = None
                r.onerr = 'none'
                if sig != 'p' and x < 0.08:
                    ret, r.err = err_forms(st, sig, k + 7777 + (1 << 20))
                    r.onerr = 'value'
                h = kw['onerror'] = make_onerror(k, st['onerr'], ret)
                r.wr_on = weakref.ref(h)
                del h
        # ---- entry point
        use_p = sig != 's' and (k & 1 if simple else rnd.random() < 0.5)
        ffi = st['pffi'] if use_p else st['mffi']
        how = 'ctype' if simple else rnd.choice(HOWS)
        T = st['T'][sig]
        if how == 'ctype':
            cb = ffi.callback(T, call, **kw)
        elif how == 'str-ptr':
            cb = ffi.callback(st['S_ptr'][sig], call, **kw)
        elif how == 'str-fn':
            cb = ffi.callback(st['S_fn'][sig], call, **kw)
        elif how == 'decorator':
            cb = ffi.callback(T, **kw)(call)
        elif how == 'decorator-str':
            cb = ffi.callback(rnd.choice([st['S_ptr'], st['S_fn']])[sig], None, **kw)(call)
        elif how == 'keywords':
            cb = ffi.callback(cdecl=T, python_callable=call, **kw)
        else:
            # one decorator object per (ffi, signature, with/without error=), used again
            # and again over the whole life of the process
            variant = 1 if (sig != 'p' and rnd.random() < 0.5) else 0
            dk = (use_p, sig, variant)
            dec = st['decs'].get(dk)
            if dec is None:
                dkw = {'error': err_forms(st, sig, 424242)[0]} if variant else {}
                dec = st['decs'][dk] = ffi.callback(T, **dkw)
                rep.stat('shared_decorators_made')
            cb = dec(call)
            r.err, r.onerr, r.wr_on = (err_forms(st, sig, 424242)[1] if variant else None), None, None
            kw = {}
        rep.stat('created_how_' + how)
        rep.stat('created_via_cffi.FFI' if use_p else 'created_via_module_ffi')
        if 'error' in kw:
            rep.stat('created_with_error')
        if 'onerror' in kw:
            rep.stat('created_with_onerror_' + r.onerr)
        kw = None
        r.fexp = r.err if r.err is not None else ZERO[sig]
        if fin == 'cdata':
            self.fins[k] = weakref.ref(cb, self._spawn_raw)
            rep.stat('created_with_cdata_finalizer')
        elif fin == 'fn':
            rep.stat('created_with_function_finalizer')
        if r.cyc:
            (inner if inner is not None else call).cb = cb
        elif not simple and twin_of is None and rnd.random() < 0.08:
            # the only reference is the ffi.gc() copy; its destructor calls the callback
            r.keep = 'gc'
            cb = rnd.choice([st['pffi'], st['mffi']]).gc(cb, self._destructor(k, sig, r.fid))
            rep.stat('created_kept_by_ffi.gc')
        r.cb = cb
        return r

    def _destructor(self, key, sig, fid):
        def destructor(cb0):
            # runs while the callback is being dropped: it is still alive here
            st, log, ctl = self.st, self.st['log'], self.st['ctl']
            n, saved = len(log), ctl[0]
            ctl[0] = None
            try:
                args, exp = args_expect(sig, fid, self.rnd)
                got = self._observe(sig, cb0, (), args)
                ran = log[n:]
                self.gc_done[key] = None if (ran == [fid] and got == exp) else \
                    'functions run %r, result %r, expected [%d] and %r' % (ran, got, fid, exp)
            except Exception as e:
                self.gc_done[key] = 'exception %r' % (e,)
            finally:
                del log[n:]
                ctl[0] = saved
        return destructor

    def _spawn_raw(self, _wr):
        """weakref callback of a callback cdata / of its function: runs in the middle
        of cdataowninggc_dealloc (or of a cyclic collection); creates a callback right
        there, the model learns about it at the next safe point (adopt)"""
        if self.closing or self.rep.nbad:
            return
        try:
            self.spawnq.append(self._make(simple=True))
            self.rep.stat('created_inside_finalizer')
        except Exception:
            import traceback
            self.rep.bad('harness-exception', traceback.format_exc()[-900:], self.idx)

    def adopt(self):
        while self.spawnq:
            self._register(self.spawnq.pop(0))

    def create(self):
        self.adopt()
        r0 = None
        if self.ids and self.rnd.random() < 0.06:
            r0 = self.live[self.rnd.choice(self.ids)]
            if r0.cyc or r0.wr() is None:
                r0 = None
        return self._register(self._make(twin_of=r0))

    def _register(self, r):
        st, rep = self.st, self.rep
        k, sig = r.key, r.sig
        a = r.addr = int(st['mffi'].cast(st['U'], r.cb))
        self.created += 1
        rep.stat('created_sig_' + sig)
        if a in self.by_addr:
            o = self.live[self.by_addr[a]]
            self.bad('address-shared:two-live-callbacks', 'new %s callback id %d has address '
                     '0x%x, which live %s callback id %d already has' %
                     (sig, k, a, o.sig, self.by_addr[a]))
        z = self.zombies.pop(a, None)
        if z is not None and z() is not None:
            self.bad('address-shared:uncollected-callback', 'new callback id %d has address 0x%x '
                     'of a dropped callback whose cycle is not collected yet' % (k, a))
        seen = st['seen']
        if a in seen:
            rep.stat('address_reused')
            if a == self.last_freed:
                rep.stat('address_reused_lifo')
        else:
            rep.stat('address_fresh')
            if (a + CLOSURE) not in seen and (a - CLOSURE) not in seen:
                rep.stat('mmap_block_first_use')
            seen.add(a)
        self.last_freed = None
        self.by_addr[a] = k
        r.pos = len(self.ids)
        self.ids.append(k)
        self.live[k] = r
        self.order.append(k)
        self.fn_users[r.fid] = self.fn_users.get(r.fid, 0) + 1
        return k

    def drop(self, mode):
        live, order = self.live, self.order
        if mode == 'lifo':
            while order[-1] not in live:
                order.pop()
            k = order.pop()
        elif mode == 'fifo':
            while order[0] not in live:
                order.popleft()
            k = order.popleft()
        else:
            k = self.rnd.choice(self.ids)
        self.rep.stat('dropped_' + mode)
        self.drop_key(k)

    def drop_key(self, k):
        live = self.live
        r = live.pop(k)
        last = self.ids.pop()
        if last != k:
            self.ids[r.pos] = last
            live[last].pos = r.pos
        del self.by_addr[r.addr]
        users = self.fn_users[r.fid] - 1
        if users:
            self.fn_users[r.fid] = users
        else:
            del self.fn_users[r.fid]
        r.cb = None                      # the only reference
        if r.keep == 'gc':
            res = self.gc_done.pop(k, 0)
            if res == 0:
                self.rep.stat('gc_destructor_not_run_at_drop')
            else:
                self.rep.stat('calls_from_gc_destructor')
                if res is not None:
                    self.bad('call-wrong:in-gc-destructor', '%s callback id %d called by the '
                             'destructor of its ffi.gc() copy: %s' % (r.sig, k, res))
        if users:
            self.rep.stat('dropped_callable_still_used_by_another_callback')
        elif r.wr() is None:
            self.rep.stat('function_freed_by_refcount')
            self.last_freed = r.addr
        elif r.cyc:
            self.zombies[r.addr] = r.wr
            self.pending.append((r.wr, 'cycle'))
        else:
            self.pending.append((r.wr, 'plain'))
        if r.wr_on is not None and r.wr_on() is not None:
            self.pending.append((r.wr_on, 'onerror'))
        self.adopt()

    def fail(self):
        import weakref
        st, rnd = self.st, self.rnd
        kind = rnd.choice(['variadic', 'variadic', 'bitfield-struct', 'bad-error-value',
                           'not-callable', 'bad-onerror', 'decorator-variadic'])
        f = make_fn('i', -1, st)
        wr = weakref.ref(f)
        try:
            if kind == 'bad-error-value':
                st['mffi'].callback(st['T']['i'], f, error='x')
            elif kind == 'not-callable':
                rnd.choice([st['mffi'], st['pffi']]).callback(st['T']['i'], 42)
            elif kind == 'bad-onerror':
                rnd.choice([st['mffi'], st['pffi']]).callback(st['T']['i'], f, onerror=42)
            elif kind == 'decorator-variadic':
                rnd.choice([st['mffi'], st['pffi']]).callback(st['fail_types']['variadic'])(f)
            else:
                ffi = st['bf_ffi'] if kind == 'bitfield-struct' else \
                    rnd.choice([st['mffi'], st['pffi']])
                ffi.callback(st['fail_types'][kind], f)
            self.bad('harness-failed-create-succeeded', 'ffi.callback(%s) did not fail' % kind)
        except (NotImplementedError, TypeError):
            pass
        del f
        self.rep.stat('failed_create_' + kind)
        if wr() is not None:
            self.pending.append((wr, 'failed-create'))

    def noise(self):
        """operations on a live callback object that must leave it what it is"""
        import weakref
        st, rnd = self.st, self.rnd
        r = self.live[rnd.choice(self.ids)]
        what = rnd.choice(['repr', 'release', 'with', 'weakref', 'bool-hash-eq', 'typeof'])
        if r.keep != 'direct' and what in ('release', 'with'):
            what = 'typeof'      # (releasing the ffi.gc() copy would legitimately drop the callback)
        out = 'ok'
        try:
            if what == 'repr':
                repr(r.cb)
            elif what == 'release':
                rnd.choice([st['mffi'], st['pffi']]).release(r.cb)
            elif what == 'with':
                with r.cb:
                    pass
            elif what == 'weakref':
                weakref.ref(r.cb)
            elif what == 'bool-hash-eq':
                bool(r.cb), hash(r.cb), r.cb == st['mffi'].cast(st['T'][r.sig], r.addr)
            else:
                st['pffi'].typeof(r.cb), st['mffi'].typeof(r.cb)
        except (ValueError, TypeError, NotImplementedError) as e:
            out = type(e).__name__
        self.rep.stat('noise_%s_%s' % (what, out))
        return self.check_call(r.key)

    def collect(self):
        import gc
        gc.collect()
        self.rep.stat('gc_collect')
        for wr, how in self.pending:
            if wr() is not None:
                self.bad('function-not-collectable:' + how, 'Python function of a dropped '
                         'callback (%s) is still alive after gc.collect()' % how)
            else:
                self.rep.stat('function_freed_by_gc_' + how)
        self.pending = []
        self.zombies = {}

    # ---- monitors --------------------------------------------------------
    def selfdrop(self):
        """a callback whose last reference is dropped *while it runs* (it is called
        through a raw function pointer), after which new callbacks reuse the freed
        closure: the running call must still finish as itself - own result
        conversion, own error value"""
        st, rnd = self.st, self.rnd
        ffi = st['mffi'] if rnd.random() < 0.5 else st['pffi']
        E = rnd.randint(-10 ** 6, 10 ** 6)
        mode = rnd.choice(['return', 'raise', 'raise', 'badvalue'])
        use_onerror = rnd.random() < 0.4
        holder, fresh, ran, onerr = [], [], [], []

        def f(x):
            ran.append(x)
            del holder[:]                      # the only reference to the callback object
            for j in range(rnd.choice([1, 3, 8])):
                fresh.append(ffi.callback('int(int)', lambda y: y - 5, error=-77))
            if mode == 'raise':
                raise ZeroDivisionError('selfdrop')
            if mode == 'badvalue':
                return 'not an int'
            return x * 3 + 1
        kw = {'error': E}
        if use_onerror:
            kw['onerror'] = lambda e, v, tb: onerr.append(e.__name__)
        holder.append(ffi.callback('int(int)', f, **kw))
        addr = int(ffi.cast('intptr_t', holder[0]))
        raw = st['mffi'].cast(st['T']['i'], addr)
        x = rnd.randint(-1000, 1000)
        old_hook = sys.unraisablehook
        sys.unraisablehook = lambda u: None
        try:
            got = st['call']['i'](raw, x) if rnd.random() < 0.6 else raw(x)
        finally:
            sys.unraisablehook = old_hook
        exp = x * 3 + 1 if mode == 'return' else E
        self.rep.stat('selfdrop_' + mode)
        self.rep.stat('selfdrop_calls')
        if ran != [x] or got != exp or holder:
            self.bad('selfdrop-call-finished-as-another-callback:' + mode, 'int(int) callback '
                     'with error=%d, dropped by its own function which then created %d new '
                     'callbacks and %s: function ran with %r, C caller got %r, expected %r' %
                     (E, len(fresh), {'return': 'returned', 'raise': 'raised',
                                      'badvalue': 'returned a str'}[mode], ran, got, exp))
        if use_onerror and mode != 'return' and len(onerr) != 1:
            self.bad('selfdrop-onerror-not-own', 'the onerror handler of the self-dropping '
                     'callback ran %d times' % len(onerr))
        for c in fresh[:2]:
            if c(10) != 5:
                self.bad('selfdrop-new-callback-wrong', 'a callback created during the call '
                         'returned %r for 10, expected 5' % (c(10),))
        del fresh[:]

    def _observe(self, sig, fn, pre, args, thread=False):
        """call fn (cdata / C caller / cast address) with the model arguments and bring
        the result into the comparable form of args_expect / err_forms"""
        st = self.st
        if sig == 'p':
            out = st['mffi'].new('int[2]', [-1, -1])
            cargs = pre + (out,) + args
        elif sig == 'u':
            cargs = pre + (st['mffi'].cast(st['VP'], args[0]), args[1])
        else:
            cargs = pre + args
        got = self._in_thread(fn, cargs) if thread else fn(*cargs)
        if sig == 'p':
            return (out[0], out[1])
        if sig == 's':
            return (got.id, got.x)
        if sig == 'u':
            return int(st['mffi'].cast(st['U'], got))
        return got

    def _in_thread(self, fn, cargs):
        import threading
        box = []

        def run():
            try:
                box.append((True, fn(*cargs)))
            except BaseException as e:
                box.append((False, e))
        t = threading.Thread(target=run)
        t.start()
        t.join()
        self.rep.stat('calls_from_second_python_thread')
        if not box[0][0]:
            raise box[0][1]
        return box[0][1]

    def invoke(self, r, path, final, thread=False):
        """one monitored call of callback r; final: None (the function returns
        normally), 'raise' or 'bad' (it fails: the caller must get r's own error value
        / the value of r's own onerror handler)"""
        st = self.st
        sig = r.sig
        args, exp = args_expect(sig, r.fid, self.rnd)
        if final is not None:
            exp = r.fexp
        if path == 'c':
            fn, pre = st['call'][sig], (r.cb,)
        elif path == 'cdata':
            fn, pre = r.cb, ()
        else:
            fn, pre = st['mffi'].cast(st['T'][sig], r.addr), ()
        got = self._observe(sig, fn, pre, args, thread)
        self.rep.stat('calls_via_' + path)
        self.rep.stat('calls_sig_' + sig)
        if final is not None:
            self.rep.stat('calls_failing_' + final)
            self.rep.stat('calls_failing_%s_error_%s_onerror' % (
                'shared-decorator' if r.err == err_forms(st, 'i' if sig == 'p' else sig, 424242)[1]
                else 'own' if r.err is not None else 'no', r.onerr or 'no'))
        if got != exp:
            self.bad(('call-wrong-result:' if final is None else 'call-wrong-error-result:') + path,
                     '%s callback id %d (function id %d, error %r, onerror %s) at 0x%x called via '
                     '%s with %r, its function %s: result %r, expected %r; last unraisable: %s' %
                     (sig, r.key, r.fid, r.err, r.onerr, r.addr, path, args,
                      {None: 'returns', 'raise': 'raises', 'bad': 'returns a str'}[final],
                      got, exp, st['unraisable'][-1:]))

    def hook(self, k):
        """runs inside the Python function of a callback under a failing / nested call"""
        i = self.cursor
        if i >= len(self.levels):
            return None
        self.cursor = i + 1
        r, path, final, mutate = self.levels[i]
        try:
            if mutate:
                self.mutate()
            if i + 1 < len(self.levels):
                n = self.levels[i + 1]
                self.invoke(n[0], n[1], n[2])
        except Exception:
            import traceback
            self.rep.bad('harness-exception', traceback.format_exc()[-900:], self.idx)
        if final == 'raise':
            raise Boom(k)
        if final == 'bad':
            return BAD
        return None

    def mutate(self):
        """while a callback runs: drop other callbacks, create new ones"""
        rnd = self.rnd
        for _ in range(rnd.choice([1, 2, 5])):
            if len(self.ids) > len(self.protected) + 1:
                for _try in range(8):
                    k = rnd.choice(self.ids)
                    if k not in self.protected:
                        self.drop_key(k)
                        self.rep.stat('dropped_during_a_call')
                        break
            self.create()
            self.rep.stat('created_during_a_call')

    def check_call(self, k, path=None):
        st, rnd = self.st, self.rnd
        r = self.live[k]
        paths = ['cdata', 'c', 'c', 'addr']
        path = path or rnd.choice(paths)
        x = rnd.random()
        if x < 0.90:
            levels = [(r, path, None, False)]
        elif x < 0.96:
            levels = [(r, path, rnd.choice(['raise', 'raise', 'bad']), False)]
        else:
            levels = [(r, path, rnd.choice([None, None, 'raise', 'bad']), rnd.random() < 0.15)]
            for _ in range(rnd.choice([1, 1, 2, 3])):
                o = r if rnd.random() < 0.1 else self.live[rnd.choice(self.ids)]
                levels.append((o, rnd.choice(paths), rnd.choice([None, None, 'raise', 'bad']),
                               rnd.random() < 0.15))
        thread = rnd.random() < 0.0007
        log, on = st['log'], st['onerr']
        del log[:]
        del on[:]
        if st['mffi'].typeof(r.cb) is not st['T'][r.sig]:
            self.bad('type-changed', 'callback id %d created as %s is now %s' %
                     (k, st['T'][r.sig], st['mffi'].typeof(r.cb)))
        plain = len(levels) == 1 and levels[0][2] is None
        if not plain:
            self.levels, self.cursor = levels, 0
            self.protected = set(lv[0].key for lv in levels)
            st['ctl'][0] = self.hook
        try:
            self.invoke(r, path, levels[0][2], thread)
        finally:
            st['ctl'][0] = None
            self.levels, self.protected = [], ()
        exp_log = [lv[0].fid for lv in levels]
        exp_on = [lv[0].key for lv in reversed(levels) if lv[2] is not None and lv[0].onerr]
        if len(levels) > 1:
            self.rep.stat('nested_call_chains')
            self.rep.stat('nested_call_chains_depth_%d' % len(levels))
            if any(lv[3] for lv in levels):
                self.rep.stat('nested_call_chains_with_create_drop_inside')
            if len(set(lv[0].key for lv in levels)) < len(levels):
                self.rep.stat('nested_call_chains_recursive')
        if log != exp_log:
            mech = ('call-ran-no-function:' if not log else 'call-ran-other-function:') + path
            self.bad(mech + (':nested' if len(levels) > 1 else ''),
                     '%s callback id %d at 0x%x called via %s (chain of %d nested calls, finals '
                     '%r): functions run %r, expected %r' %
                     (r.sig, k, r.addr, path, len(levels), [lv[2] for lv in levels], log[:6],
                      exp_log))
        if on != exp_on:
            self.bad('onerror-handler-not-own', '%s callback id %d at 0x%x called via %s (chain of '
                     '%d nested calls, finals %r): onerror handlers run %r, expected %r' %
                     (r.sig, k, r.addr, path, len(levels), [lv[2] for lv in levels], on[:6],
                      exp_on))
        return len(levels)

    def scan(self):
        """re-read every live address from the cdata; pairwise distinct"""
        cast, U = self.st['mffi'].cast, self.st['U']
        addrs = set()
        for k, r in list(self.live.items()):
            a = int(cast(U, r.cb))
            if a != r.addr:
                self.bad('address-changed', 'callback id %d moved from 0x%x to 0x%x' %
                         (k, r.addr, a))
            addrs.add(a)
        if len(addrs) != len(self.live):
            self.bad('address-shared:two-live-callbacks', '%d live callbacks have only %d '
                     'distinct addresses' % (len(self.live), len(addrs)))
        self.rep.stat('full_address_scans')
        self.rep.stat('addresses_rescanned', len(addrs))

    def sweep(self, limit=None):
        ks = self.ids if limit is None or len(self.ids) <= limit else \
            self.rnd.sample(self.ids, limit)
        n = 0
        for k in list(ks):
            if k in self.live:           # (a create/drop inside an earlier call may have dropped it)
                n += self.check_call(k)
        self.rep.stat('sweeps')
        return n

    # ---- one step --------------------------------------------------------
    def burst(self, gap):
        r = self.rnd.random()
        if r < 0.1:
            return max(1, gap)                   # all the way to the target
        if r < 0.25:
            return self.rnd.randint(40, 160)     # about one or two pages of closures
        return self.rnd.choice([1, 2, self.rnd.randint(1, 12)])

    def step(self, target):
        rnd, peak = self.rnd, self.peak
        self.adopt()
        n = len(self.live)
        r = rnd.random()
        new, calls = [], 0
        if r < 0.03:
            op = ('gc',)
            self.collect()
            for _ in range(rnd.choice([0, 1, 2])):
                self.selfdrop()
        elif r < 0.06 and n:
            op = ('sweep',)
            if n <= 5000 or rnd.random() < 0.2:
                self.scan()
            calls += self.sweep(2000)
        elif r < 0.12:
            op = ('fail',)
            for _ in range(rnd.choice([1, 1, 3])):
                self.fail()
        elif r < 0.15 and n:
            op = ('noise',)
            for _ in range(rnd.choice([1, 2, 4])):
                calls += self.noise()
        elif n and (r < 0.30 or n == target):
            k = rnd.choice([1, 2, rnd.randint(1, 12), rnd.randint(1, 60)])
            mode = rnd.choice(['lifo', 'random'])
            op = ('churn', k, mode)
            for _ in range(k):
                self.drop(mode)
                new.append(self.create())
        elif n < target or n == 0:
            k = min(peak - n, self.burst(target - n))
            op = ('grow', k)
            for _ in range(k):
                new.append(self.create())
        else:
            k = min(n, self.burst(n - target))
            mode = rnd.choice(['lifo', 'fifo', 'random', 'random'])
            op = ('drop', k, mode)
            for _ in range(k):
                self.drop(mode)
        self.oplog.append(op)
        # sample monitor: the new ones (all of a small burst) and old ones
        if self.live:
            if len(new) > 12:
                new = rnd.sample(new, 6 + len(new) // 8)
            for k in new:
                if k in self.live:
                    calls += self.check_call(k)
            for _ in range(min(len(self.live), 6 + len(new) // 2)):
                calls += self.check_call(rnd.choice(self.ids))
        return op, calls


def run_history(st, rep, idx, seed, peak, budget):
    import random, gc
    rnd = random.Random(seed)
    h = History(st, rep, rnd, idx, seed, peak)
    auto_gc = rnd.random() < 0.5
    (gc.enable if auto_gc else gc.disable)()
    rep.stat('histories')
    rep.stat('histories_auto_gc' if auto_gc else 'histories_gc_disabled')
    target, stepno, at_peak = peak, 0, False
    while h.created < budget and not rep.nbad:
        if rnd.random() < 0.15:
            target = rnd.choice([0, peak // 4, peak // 2, peak, peak, rnd.randint(0, peak)])
        op, calls = h.step(target)
        stepno += 1
        n = len(h.live)
        rep.case((seed, stepno), nontrivial=calls > 0 and n >= 2,
                 sample={'seed': seed, 'peak': peak, 'step': stepno, 'op': list(op), 'alive': n})
        rep.stat('steps_' + op[0])
        if n > st.get('max_alive', 0):
            st['max_alive'] = n
        if n >= peak and not at_peak:      # everything alive at the peak is scanned and called
            at_peak = True
            h.scan()
            h.sweep()
            rep.stat('full_sweeps_at_peak')
    if not rep.nbad:
        h.adopt()
        h.scan()
        h.sweep(4000)
        for _ in range(4):               # finalizers of dropped callbacks create new ones
            while h.live and not rep.nbad:
                h.drop(rnd.choice(['lifo', 'fifo', 'random']))
            h.collect()
            h.adopt()
            if not h.live:
                break
    h.closing = True
    h.fins.clear()
    del h.spawnq[:]
    gc.enable()


def child_case(st, case):
    rep = core.ChildRep()
    for idx, (seed, peak, budget) in enumerate(case['hist']):
        try:
            run_history(st, rep, idx, seed, peak, budget)
        except Exception:
            import traceback
            rep.bad('harness-exception', traceback.format_exc()[-900:], idx)
        if rep.nbad:
            break
    rep.stats['max_alive_at_once'] = st.get('max_alive', 0)
    rep.stats['closure_addresses_seen'] = len(st['seen'])
    return rep.result()


# ---------------------------------------------------------------------------
# parent side

def judge(ctx, setup, case, obs):
    peak = {}
    for k in ('max_alive_at_once', 'closure_addresses_seen'):     # maxima, not sums
        peak[k] = max(ctx.counters.get(k, 0), obs['stats'].pop(k, 0))
    core.absorb(ctx, case, obs, lambda idx: {'hist': case['hist'][:idx + 1]})
    ctx.counters.update(peak)


def run(ctx):
    setup, cases = generate(ctx)
    obs = core.run_cases(ctx, 'c29', setup, cases, variant=VARIANT, nproc=1, shard_size=1,
                         timeout=900)
    for c, o in zip(cases, obs):
        if core.std_obs_check(ctx, c, o):
            judge(ctx, setup, c, o)
