"""C35 -- pkg-config output is translated to build keywords without loss.

A stub `pkg-config` (small C program, the only thing on PATH) answers every
`pkg-config --print-errors --cflags|--libs <name>` call from per-spec answer
files (stdout bytes, stderr bytes, exit status or signal).  The real
cffi.pkgconfig.flags_from_pkgconfig / merge_flags run against it, wrapped in
icontract postconditions (text model), and the harness compares the returned
dict with the expectation built from the generator's *structured* tokens.

Entry points driven: pkgconfig.flags_from_pkgconfig(list), FFI.set_source_pkgconfig(name, list,
source, **user keywords) (the keywords that reach set_source must be user lists + pkg-config
lists), pkgconfig.call(libname, flag[, encoding]) directly with explicit encodings, and
pkgconfig.merge_flags chains.
"""
import os, sys, re, copy, shutil, subprocess, random, types
from vlib import core

VARIANT = 'plain'
TIMEOUT = 600
KEYS = ['include_dirs', 'library_dirs', 'libraries', 'define_macros',
        'extra_compile_args', 'extra_link_args']
RULE = ("spec = (list of 0..4 package names incl. repeats, version constraints, spaces, non-ASCII; "
        "per package a --cflags and a --libs answer of 0..13 tokens (big: hundreds) drawn from "
        "-I<p> / -D<n>[=<v with further '='>] / other flags resp. -L<p> / -l<n> / other flags, "
        "payloads empty..10 chars over punctuation and non-ASCII, 'other' tokens that contain or "
        "nearly are a prefix (-Wl,-Ifoo, --I, -i/x, -L in --cflags, -I/-D in --libs), separated "
        "by mixed ASCII whitespace, empty answers); 35% error specs: exit status 1..255 / death "
        "by signal / unknown package at a random position and call, undecodable stdout, "
        "backslash in stdout, pkg-config missing / not executable / exec format error / a "
        "directory / a dangling symlink, non-zero exit together with undecodable stdout; 30% of the "
        "specs go through FFI.set_source_pkgconfig with random user keywords; 'huge' specs carry one "
        "answer of more than 64 KiB (pipe capacity); payloads also start with / consist of the "
        "prefix letters (I, L, l, D, lib...); direct pkgconfig.call() cases with encoding default / "
        "utf-8 / ascii / latin-1 / cp1252 / utf-16-le (positional or keyword) over UTF-8, "
        "target-encoded, ASCII-only and damaged output, failing exits and missing binaries; "
        "plus merge_flags chains of 2..5 random dicts; distinct = (names, answers); "
        "non-trivial = at least one token or an error spec (merge: a key shared by two dicts)")
ASSUMPTIONS = [
    "whitespace = ASCII space,\\t,\\n,\\r,\\f,\\v (what pkg-config and the shell separate on); tokens "
    "holding characters that only str.split() regards as whitespace (U+00A0, U+3000, \\x1c-\\x1f) "
    "are probed and reported as notes, not decided",
    "-I/-D are designated prefixes in --cflags output and -L/-l in --libs output (a -I in --libs "
    "or -L in --cflags is an 'other' flag kept in extra_link_args / extra_compile_args)",
    "package names are valid argv elements (no NUL, no lone surrogate); such names never reach a "
    "pkg-config run and are only probed",
    "a backslash in successful output is an error case (documented by the module)",
    "the filesystem encoding of the child is UTF-8",
    "call(libname, flag, encoding): 'undecodable' means bytes.decode(encoding) (strict) raises; a "
    "successful call must return text holding the same whitespace-separated tokens as that decoding "
    "(leading/trailing whitespace is not demanded)",
    "FFI.set_source_pkgconfig: the keywords handed to set_source are read from ffi._assigned_source[3]; "
    "per key they must be the user's list followed by the pkg-config list (documented: 'adds it to the "
    "explicitly-provided keywords'); a pure order difference is classified separately from loss"]

STUB_C = r'''
#include <stdio.h>
#include <stdlib.h>
#include <string.h>
#include <signal.h>
#include <unistd.h>
int main(int argc, char **argv) {
    const char *dir = getenv("C35_DIR");
    char path[4096], *p; const unsigned char *s; FILE *f; int rc, sig, c; long el;
    if (!dir || argc != 4 || strcmp(argv[1], "--print-errors") || strlen(argv[3]) > 100) {
        fprintf(stderr, "stub: unexpected command line (argc=%d)\n", argc); return 96; }
    snprintf(path, 3000, "%s/log", dir);
    if ((f = fopen(path, "a"))) { fprintf(f, "%s\n", argv[2]); fclose(f); }
    p = path + snprintf(path, 3000, "%s/", dir);
    for (s = (const unsigned char *)argv[3]; *s; s++) p += sprintf(p, "%02x", *s);
    snprintf(p, 100, "%s", argv[2]);
    if (!(f = fopen(path, "rb"))) { fprintf(stderr, "stub: Package %s was not found\n", argv[3]);
                                    return 97; }
    if (fscanf(f, "%d %d %ld", &rc, &sig, &el) != 3) return 98;
    fgetc(f);
    setvbuf(stderr, NULL, _IOFBF, 1 << 16);
    while (el-- > 0 && (c = fgetc(f)) != EOF) fputc(c, stderr);
    while ((c = fgetc(f)) != EOF) fputc(c, stdout);
    fflush(stdout); fflush(stderr);
    if (sig) { raise(sig); pause(); }
    return rc;
}
'''

ALPHA = 'abcxyzABZ0189' * 3 + 'IlLDib' * 2 + '/._-+=,:@%~#\'"()[]{}<>|&;$!*?^' + '/=-' * 4 + 'é日😀'
SEPS = [' '] * 6 + ['  ', '\t', '\n', ' \n', '\r\n', '\f', '\v', ' \t ']
PATHS = ['/usr/include/foo', '/opt/x-1.2/lib64', '.', '..', '/', 'rel/dir', '/a-I/b', '/a-L/-lb', '',
         'lib', 'libfoo', ':libfoo.a', 'l', 'll', 'L', 'I', 'D', 'Include', 'Lib/lib64', '-I/x', '-lfoo',
         '-L', '-D', 'DEBUG', 'stdc++', 'm']
MACROS = ['NDEBUG', 'DEBUG', 'D', 'DD', '_REENTRANT', 'ID', 'I', 'LIBl', 'lib', '-D', 'DDX']
ENCODINGS = [None, None, 'utf-8', 'ascii', 'latin-1', 'cp1252', 'utf-16-le']
OTHER = {'c': ['-pthread', '-O2', '-std=c99', '-Wl,-Ifoo', '-isystem', 'foo-I/x', '--I', '-L/usr/lib',
               '-lm', '-', '--', 'I', 'D', 'x-Dy=1', '-d', '-i/x', '-fPIC', '-UNDEBUG', '--DX', '=',
               '-mfoo=-I/y'],
         'l': ['-pthread', '-Wl,-rpath,/x', '-Wl,-L/x', '-I/inc', '-DX=1', 'foo.a', '/usr/lib/libz.so',
               '-framework', '-', '--', 'L', 'l', 'x-lfoo', '-Ox', '-i', '--l', '--L/x', '-Xlinker',
               '-Wl,-lfoo']}
NAMES = ['libfoo', 'glib-2.0', 'libbar >= 1.8.3', 'x', 'gtk+-3.0', 'python-3.12-embed', 'näme',
         'a b  c', '-weird', "q'uote", '', '--cflags', 'lib日本', 'foo = 1.0', '*']
ERRKINDS = ['exit-status', 'exit-status', 'signal', 'unknown-package', 'undecodable', 'undecodable',
            'backslash', 'backslash', 'missing-binary', 'not-executable', 'exec-format',
            'is-directory', 'dangling-symlink', 'exit-status+undecodable']
PATHKINDS = ['missing-binary', 'not-executable', 'exec-format', 'is-directory', 'dangling-symlink']
BADBYTES = [b'\xff', b'\xc3', b'\x80', b'\xe6\x97', b'\xf0\x9f\x98', b'\xed\xa0\x80', b'\xc0\xaf',
            b'\xfe\xfe', b'\xf8\x88\x80\x80\x80']


def word(rng, lo=0, hi=10):
    return ''.join(rng.choice(ALPHA) for _ in range(rng.randint(lo, hi)))


def gen_answer(rng, which, big=False):
    """One --cflags ('c') or --libs ('l') answer: (text, expected lists per keyword)."""
    exp = {k: [] for k in KEYS}
    toks = []
    for _ in range(rng.randint(10000, 22000) if big == 'huge' else rng.randint(150, 4000) if big
                   else rng.choice([0, 0, 1, 2, 3, 5, 8, 13])):
        r = rng.random()
        payload = rng.choice(PATHS) if rng.random() < 0.4 else word(rng)
        if r < 0.3:
            pre, key = ('-I', 'include_dirs') if which == 'c' else ('-L', 'library_dirs')
            toks.append(pre + payload)
            exp[key].append(payload)
        elif r < 0.55 and which == 'l':
            toks.append('-l' + payload)
            exp['libraries'].append(payload)
        elif r < 0.55:
            name = rng.choice(MACROS) if rng.random() < 0.3 else word(rng, 0, 6).replace('=', '')
            val = rng.choice([None, None, '', '1', word(rng), word(rng) + '=' + word(rng), '==',
                              '-Ix', 'a=b=c'])
            toks.append('-D' + name + ('' if val is None else '=' + val))
            exp['define_macros'].append([name, val])
        else:
            t = rng.choice(OTHER[which]) if rng.random() < 0.6 else word(rng, 1, 10)
            if t[:2] in (('-I', '-D') if which == 'c' else ('-L', '-l')):
                t = 'x' + t
            toks.append(t)
            exp['extra_compile_args' if which == 'c' else 'extra_link_args'].append(t)
    lead = rng.choice(['', '', ' ', '\n', '\t '])
    trail = rng.choice(['\n', '\n', ' \n', '', ' ', '\r\n', '\n\n'])
    return lead + ''.join(t + rng.choice(SEPS) for t in toks).rstrip(' \t\n\r\f\v') \
        + (rng.choice(SEPS) if not toks and rng.random() < 0.5 else '') + trail, exp


def gen_spec(rng, big=False):
    names = list({rng.choice(NAMES) if rng.random() < 0.8 else word(rng, 1, 12)
                  for _ in range(rng.choice([0, 1, 1, 2, 2, 3, 4]))})
    names.sort()
    rng.shuffle(names)
    if big == 'huge' and not names:
        names = ['libhuge']
    pkgs, exps = {}, {}
    hugeside = rng.choice('cl')
    for i, nm in enumerate(names):
        if big == 'huge':          # exactly one answer beyond the pipe capacity
            csize, lsize = [i == 0 and hugeside == w and 'huge' for w in 'cl']
        else:
            csize, lsize = big and rng.random() < 0.5, big and rng.random() < 0.5
        ct, ce = gen_answer(rng, 'c', csize)
        lt, le = gen_answer(rng, 'l', lsize)
        noise = rng.choice(['', '', 'warning: something\n', 'é\n']).encode()
        pkgs[nm] = {'c': {'out': ct.encode().hex(), 'err': noise.hex(), 'rc': 0, 'sig': 0},
                    'l': {'out': lt.encode().hex(), 'err': '', 'rc': 0, 'sig': 0}}
        exps[nm] = {k: ce[k] + le[k] for k in KEYS}
    libs = list(names)
    if names and rng.random() < 0.25:               # repeats
        libs += [rng.choice(names) for _ in range(rng.randint(1, 2))]
        rng.shuffle(libs)
    spec = {'libs': libs, 'pkgs': pkgs, 'path': 'stub', 'err': None, 'entry': 'flags', 'user': {},
            'exp': {k: sum((exps[nm][k] for nm in libs), []) for k in KEYS} if libs else {}}
    if rng.random() < 0.3:                          # second entry point, with the user's own keywords
        spec['entry'] = 'ffi'
        spec['user'] = gen_user_kwds(rng)
    if libs and big != 'huge' and rng.random() < 0.35:
        kind = spec['err'] = rng.choice(ERRKINDS)
        spec['exp'] = None
        victim = pkgs[rng.choice(libs)][rng.choice('cl')]
        if kind.startswith('exit-status'):
            victim['rc'] = rng.choice([1, 1, 2, 127, 255, rng.randint(1, 255)])
            victim['err'] = rng.choice([b'', b"Package foo was not found in the pkg-config search "
                                        b"path.\n", b'\xff\xfe bad bytes\n', 'fehlt: é日\n'.encode(),
                                        b'x' * 100000]).hex()
        elif kind == 'signal':
            victim['sig'] = rng.choice([9, 15, 10])
        elif kind == 'unknown-package':
            libs.insert(rng.randint(0, len(libs)), 'no-such-package')
        if kind.endswith('undecodable'):
            raw = bytearray.fromhex(victim['out'])
            pos = rng.randint(0, len(raw))
            while pos < len(raw) and raw[pos] & 0xC0 == 0x80:    # stay on a character boundary
                pos += 1
            raw[pos:pos] = rng.choice(BADBYTES) + (b' ' if rng.random() < 0.5 else b'')
            victim['out'] = bytes(raw).hex()
        elif kind == 'backslash':
            tok = rng.choice(['-I/my\\ dir', '-DX=\\"y\\"', '\\', '-lfoo\\', 'C:\\inc', '-L\\x'])
            victim['out'] = (bytes.fromhex(victim['out']).decode().rstrip() + ' ' + tok +
                             '\n').encode().hex()
        elif kind in PATHKINDS:
            spec['path'] = kind
    return spec


def gen_user_kwds(rng):
    def items(key):
        return [[word(rng, 1, 4), rng.choice([None, word(rng)])] if key == 'define_macros'
                else rng.choice(PATHS + OTHER['c']) if rng.random() < 0.5 else word(rng, 0, 6)
                for _ in range(rng.choice([0, 1, 1, 2, 3]))]
    return {k: items(k) for k in KEYS + ['sources', 'extra_objects'] if rng.random() < 0.45}


def gen_call(rng):
    """One direct pkgconfig.call(libname, flag[, encoding]) case."""
    which = rng.choice('cl')
    text, _ = gen_answer(rng, which)
    enc = rng.choice(ENCODINGS)
    r = rng.random()
    raw = text.encode('utf-8') if r < 0.4 else text.encode(enc or 'utf-8', 'ignore') if r < 0.75 \
        else text.encode('ascii', 'ignore')
    if rng.random() < 0.2:
        pos = rng.randint(0, len(raw))
        raw = raw[:pos] + rng.choice(BADBYTES + [b'\x81', b'\x8d\x90', b'\xe9', b'\xa0']) + raw[pos:]
    if rng.random() < 0.08:
        raw = raw.rstrip() + b' ' + rng.choice([b'-I/my\\ dir', b'\\', b'C:\\inc']) + b'\n'
    ans = {'out': raw.hex(), 'err': rng.choice([b'', b'', b'warning\n', b'\xff\xe9\n']).hex(),
           'rc': 0, 'sig': 0}
    r = rng.random()
    if r < 0.1:
        ans['rc'] = rng.choice([1, 2, 255, rng.randint(1, 255)])
    elif r < 0.13:
        ans['sig'] = rng.choice([9, 15])
    return {'lib': rng.choice(NAMES) if rng.random() < 0.8 else word(rng, 1, 12), 'flag': which,
            'enc': enc, 'kw': rng.random() < 0.5, 'ans': ans,
            'path': rng.choice(PATHKINDS) if rng.random() < 0.04 else 'stub'}


def _setup(ctx):
    src = os.path.join(ctx.tmp, 'c35_stub.c')
    exe = os.path.join(ctx.tmp, 'c35_stub')
    with open(src, 'w') as f:
        f.write(STUB_C)
    for static in (['-static'], []):         # static: process start is the cost of this check
        r = subprocess.run(['gcc', '-O1'] + static + ['-o', exe, src], stdout=subprocess.PIPE,
                           stderr=subprocess.STDOUT, timeout=120)
        if r.returncode == 0:
            break
    else:
        raise core.Inconclusive('cannot build the pkg-config stub: ' + r.stdout.decode()[-500:])
    return {'stub': exe}


def replay_setup(ctx, case):
    return _setup(ctx)


def generate(ctx):
    rng = ctx.rng('gen')
    nspec, nmerge, per = ctx.scale(600, 10000), ctx.scale(20000, 200000), 15
    specs = [gen_spec(rng, big=('big' if i % 300 == 7 else 'huge' if i % 300 == 157 else False))
             for i in range(nspec)]
    cases = [{'kind': 'pkg', 'specs': specs[i:i + per]} for i in range(0, nspec, per)]
    calls = [gen_call(rng) for _ in range(ctx.scale(900, 12000))]
    cases += [{'kind': 'call', 'specs': calls[i:i + 50]} for i in range(0, len(calls), 50)]
    seeds = [rng.getrandbits(48) for _ in range(nmerge)]
    cases += [{'kind': 'merge', 'seeds': seeds[i:i + 1000]} for i in range(0, nmerge, 1000)]
    cases.append({'kind': 'probe'})
    rng.shuffle(cases)
    return _setup(ctx), cases


# ---------------------------------------------------------------------------
# child side

class FlagsContract(Exception):
    pass


class MergeContract(Exception):
    pass


WS = re.compile('[ \t\n\r\f\v]+')


def model_flags(libs, answers):
    """answers: name -> (--cflags text, --libs text).  The reference translation."""
    out = {}
    for lib in libs:
        one = {k: [] for k in KEYS}
        for t in filter(None, WS.split(answers[lib][0])):
            if t[:2] == '-I':
                one['include_dirs'].append(t[2:])
            elif t[:2] == '-D':
                name, eq, val = t[2:].partition('=')
                one['define_macros'].append((name, val if eq else None))
            else:
                one['extra_compile_args'].append(t)
        for t in filter(None, WS.split(answers[lib][1])):
            key = {'-L': 'library_dirs', '-l': 'libraries'}.get(t[:2], 'extra_link_args')
            one[key].append(t if key == 'extra_link_args' else t[2:])
        for k in KEYS:
            out.setdefault(k, []).extend(one[k])
    return out


def model_merge(a, b):
    return {k: a.get(k, []) + b.get(k, []) for k in list(a) + [k for k in b if k not in a]}


def contract(fn, names, snaps, cond, err):
    try:
        import icontract
        f = icontract.ensure(cond, error=err)(fn)
        for n, s in snaps:
            f = icontract.snapshot(s, name=n)(f)
        return f, 'icontract'
    except ImportError:
        def wrapper(*a):
            old = types.SimpleNamespace(**{n: s(a[names.index(n)]) for n, s in snaps})
            r = fn(*a)
            if not (cond(*a, r, old) if snaps else cond(*a, r)):
                raise err('postcondition %s failed' % cond.__name__)
            return r
        return wrapper, 'plain-wrapper'


def child_setup(setup, wd):
    sys.path.append(os.path.join(core.VERIF, '.deps'))
    from cffi import pkgconfig
    from cffi.error import PkgConfigError
    if sys.getfilesystemencoding().lower().replace('-', '') != 'utf8':
        raise RuntimeError('filesystem encoding is not UTF-8')
    dirs = {}
    for name in ['stub'] + PATHKINDS:
        dirs[name] = os.path.join(wd, name)
        os.makedirs(dirs[name])
    shutil.copy(setup['stub'], os.path.join(dirs['stub'], 'pkg-config'))
    with open(os.path.join(dirs['not-executable'], 'pkg-config'), 'w') as f:
        f.write('#!/bin/sh\nexit 0\n')
    os.chmod(f.name, 0o644)
    with open(os.path.join(dirs['exec-format'], 'pkg-config'), 'wb') as f:
        f.write(b'\x00\x01\x02 not a program')
    os.chmod(f.name, 0o755)
    os.mkdir(os.path.join(dirs['is-directory'], 'pkg-config'))
    os.symlink(os.path.join(wd, 'nowhere', 'pkg-config'),
               os.path.join(dirs['dangling-symlink'], 'pkg-config'))
    st = {'pc': pkgconfig, 'Err': PkgConfigError, 'dirs': dirs, 'wd': wd, 'n': 0,
          'answers': None, 'evals': {'flags': 0, 'merge': 0}, 'got': None}

    def snap_cfg1(cfg1):
        return copy.deepcopy(cfg1)

    def snap_cfg2(cfg2):
        return copy.deepcopy(cfg2)

    def merge_concatenates_in_call_order(cfg1, cfg2, result, OLD):
        st['evals']['merge'] += 1
        return result == model_merge(OLD.cfg1, OLD.cfg2)

    def flags_hold_every_token_once_in_order(libs, result):
        if st['answers'] is None:          # error spec / probe: nothing to compare with
            return True
        st['evals']['flags'] += 1
        st['got'] = result
        return result == model_flags(libs, st['answers'])

    pkgconfig.merge_flags, how = contract(
        pkgconfig.merge_flags, ['cfg1', 'cfg2'], [('cfg1', snap_cfg1), ('cfg2', snap_cfg2)],
        merge_concatenates_in_call_order, MergeContract)
    pkgconfig.flags_from_pkgconfig, how = contract(
        pkgconfig.flags_from_pkgconfig, ['libs'], [], flags_hold_every_token_once_in_order,
        FlagsContract)
    st['how'] = how
    return st


def call_stubbed(st, libs, pkgs, path, entry='flags', user=None, direct=None):
    """Install the answers, run the real flags_from_pkgconfig (directly, or through
    FFI.set_source_pkgconfig, or pkgconfig.call for direct=(libname, flag, args, kwargs))
    -> (outcome, value, stub calls)."""
    st['n'] += 1
    d = os.path.join(st['wd'], 'a%d' % st['n'])
    os.mkdir(d)
    for nm, both in pkgs.items():
        for which, flag in (('c', '--cflags'), ('l', '--libs')):
            a = both[which]
            err = bytes.fromhex(a['err'])
            with open(os.path.join(d, nm.encode().hex() + flag), 'wb') as f:
                f.write(b'%d %d %d\n' % (a['rc'], a['sig'], len(err)) + err + bytes.fromhex(a['out']))
    os.environ['C35_DIR'] = d
    os.environ['PATH'] = st['dirs'][path]
    st['got'] = None
    try:
        if direct:
            res = ('returned', st['pc'].call(direct[0], direct[1], *direct[2], **direct[3]))
        elif entry == 'ffi':
            if 'FFI' not in st:
                from cffi import FFI
                st['FFI'] = FFI
            ffi = st['FFI']()
            ffi.set_source_pkgconfig('_c35_mod', list(libs), 'int c35;', **copy.deepcopy(user))
            res = ('returned', ffi._assigned_source[3])
        else:
            res = ('returned', st['pc'].flags_from_pkgconfig(list(libs)))
    except FlagsContract:
        res = ('flags-contract', st['got'])
    except MergeContract as e:
        res = ('merge-contract', e)
    except Exception as e:
        res = ('raised', e)
    try:
        with open(os.path.join(d, 'log')) as f:
            ncalls = len(f.readlines())
    except OSError:
        ncalls = 0
    shutil.rmtree(d, ignore_errors=True)
    return res[0], res[1], ncalls


def run_spec(st, rep, spec):
    libs, kind = spec['libs'], spec['err']
    entry = spec.get('entry', 'flags')
    user = {k: [tuple(x) if k == 'define_macros' else x for x in v]
            for k, v in spec.get('user', {}).items()}
    ok = kind is None
    st['answers'] = None
    if ok:
        st['answers'] = {nm: (bytes.fromhex(b['c']['out']).decode(),
                              bytes.fromhex(b['l']['out']).decode())
                         for nm, b in spec['pkgs'].items()}
        exp = {k: [tuple(x) if k == 'define_macros' else x for x in v]
               for k, v in spec['exp'].items()}
    ntok = sum(len(v) for v in spec['exp'].values()) if ok else 0
    rep.case(repr((libs, sorted(spec['pkgs'].items()), spec['path'], entry, sorted(user.items()))),
             nontrivial=bool(ntok or not ok),
             sample={'libs': libs, 'error': kind, 'entry': entry, 'user_keywords': user, 'answers': {
                 nm: [bytes.fromhex(b[w]['out']).decode(errors='replace')[:80] for w in 'cl']
                 for nm, b in list(spec['pkgs'].items())[:2]}})
    outcome, val, ncalls = call_stubbed(st, libs, spec['pkgs'], spec['path'], entry, user)
    st['answers'] = None
    flags_val = st['got'] if entry == 'ffi' else val
    rep.stat('stub_invocations', ncalls)
    rep.stat('entry:' + ('FFI.set_source_pkgconfig' if entry == 'ffi' else 'flags_from_pkgconfig'))
    rep.stat('packages_in_list_%d' % min(len(libs), 5))
    what = '%s(%r) with answers %r' % (
        'flags_from_pkgconfig' if entry != 'ffi' else
        'FFI().set_source_pkgconfig(name, source, **%r) with pkgconfig_libs=' % (user,), libs, {
        nm: [bytes.fromhex(b[w]['out'])[:300] for w in 'cl'] for nm, b in spec['pkgs'].items()})
    if outcome == 'merge-contract':
        rep.bad('merge-mismatch:inside-flags_from_pkgconfig', '%s: %s' % (what, str(val)[:300]), spec)
        return
    if not ok:
        rep.stat('error_spec:' + kind)
        if outcome == 'raised' and isinstance(val, st['Err']):
            rep.stat('raised_PkgConfigError:' + kind)
        elif outcome == 'raised':
            rep.bad('error-wrong-exception:' + kind, '%s (%s) raised %s: %s instead of PkgConfigError'
                    % (what, kind, type(val).__name__, str(val)[:200]), spec)
        else:
            rep.bad('error-not-raised:' + kind, '%s (%s) did not raise: %s -> %r' %
                    (what, kind, outcome, val), spec)
        return
    rep.stat('success_spec')
    if any(len(b[w]['out']) > 2 * 65536 for b in spec['pkgs'].values() for w in 'cl'):
        rep.stat('success_spec_with_an_answer_over_64KiB')
    rep.stat('payload_starting_with_a_prefix_letter', sum(
        1 for k in KEYS[:3] for t in exp.get(k, []) if t[:1] in ('I', 'L', 'l', 'D')) + sum(
        1 for n, v in exp.get('define_macros', []) if n[:1] in ('I', 'L', 'l', 'D')))
    if libs and ncalls == 0:
        rep.bad('harness-stub-not-used', 'the stub pkg-config was never invoked', spec)
    for k in KEYS:
        rep.stat('tokens:' + k, len(exp.get(k, [])))
    for n, v in exp.get('define_macros', []):
        rep.stat('macro_without_value' if v is None else
                 'macro_value_with_equal_sign' if '=' in v else 'macro_with_value')
    rep.stat('other_tokens_containing_a_prefix', sum(
        1 for k in KEYS[4:] for t in exp.get(k, []) if re.search('-[ILlD]', t)))
    if outcome == 'raised':
        rep.bad('success-raised:' + ('PkgConfigError' if isinstance(val, st['Err']) else
                                     'other-exception'),
                '%s raised %s: %s' % (what, type(val).__name__, str(val)[:300]), spec)
        return
    if flags_val is None:
        rep.bad('harness-entry-bypassed-the-contract', '%s: the wrapped flags_from_pkgconfig was not '
                'the one called' % what, spec)
        return
    merged, val = val, flags_val
    diffs = [k for k in KEYS if val.get(k, []) != exp.get(k, [])]
    if (outcome == 'flags-contract') != bool(diffs):
        rep.bad('harness-oracles-disagree', '%s: text model %s, structural expectation differs in %r'
                % (what, outcome, diffs), spec)
        return
    for k in diffs:
        rep.bad('flags-mismatch:' + k, '%s: %s = %r, expected %r' % (what, k, val.get(k), exp[k]),
                spec)
    if set(val) - set(KEYS):
        rep.bad('flags-unknown-key', '%s returned keys %r' % (what, sorted(set(val) - set(KEYS))), spec)
    rep.stat('translated_exactly' if not diffs else 'translated_wrongly')
    if entry != 'ffi' or outcome != 'returned':
        return
    # the keywords that reached set_source(): the user's lists followed by pkg-config's
    wrong = 0
    for k in sorted(set(KEYS) | set(user) | set(merged)):
        e, g = user.get(k, []) + exp.get(k, []), merged.get(k, [])
        rep.stat('set_source_pkgconfig_keys_with_user_and_pkgconfig_items',
                 bool(user.get(k) and exp.get(k)))
        if g != e:
            wrong += 1
            lost = not isinstance(g, list) or sorted(map(repr, g)) != sorted(map(repr, e))
            rep.bad('set_source_pkgconfig-%s:%s' % ('lost-or-added' if lost else 'order',
                                                    k if k in KEYS else 'other-keyword'),
                    '%s: set_source() received %s = %r, expected %r (user %r + pkg-config %r)' %
                    (what, k, g, e, user.get(k), exp.get(k)), spec)
    rep.stat('set_source_pkgconfig_keywords_exact' if not wrong else
             'set_source_pkgconfig_keywords_wrong')


def run_call(st, rep, c):
    """pkgconfig.call(libname, flag[, encoding]) directly."""
    a, enc = c['ans'], c['enc']
    raw = bytes.fromhex(a['out'])
    flag = '--cflags' if c['flag'] == 'c' else '--libs'
    if c['path'] != 'stub':
        want, reason = None, 'cannot-run'
    elif a['rc'] or a['sig']:
        want, reason = None, 'failing-exit'
    else:
        try:
            want, reason = raw.decode(enc or 'utf-8'), 'ok'
            if '\\' in want:
                want, reason = None, 'backslash'
        except UnicodeDecodeError:
            want, reason = None, 'undecodable'
    encname = enc or 'default'
    rep.case(repr(('call', c['lib'], flag, enc, c['kw'], c['path'], sorted(a.items()))),
             nontrivial=True, sample={'call': [c['lib'], flag, enc], 'stdout': repr(raw[:80]),
                                      'expected': reason})
    args, kw = ((), {'encoding': enc}) if c['kw'] else ((enc,), {})
    if enc is None:
        args, kw = (), {}
    st['answers'] = None
    outcome, val, ncalls = call_stubbed(st, [], {c['lib']: {'c': a, 'l': a}}, c['path'],
                                        direct=(c['lib'], flag, args, kw))
    rep.stat('stub_invocations', ncalls)
    rep.stat('entry:pkgconfig.call')
    rep.stat('call_direct:%s:%s' % (encname, reason))
    if raw and not all(b < 128 for b in raw):
        rep.stat('call_direct_non_ascii_output:' + encname)
    cls = 'explicit-encoding' if enc else 'default-encoding'
    what = 'call(%r, %r%s) with stdout %r rc=%d sig=%d PATH=%s' % (
        c['lib'], flag, '' if enc is None else ', %s%r' % ('encoding=' if c['kw'] else '', enc),
        raw[:300], a['rc'], a['sig'], c['path'])
    if want is None:
        if outcome == 'raised' and isinstance(val, st['Err']):
            rep.stat('call_direct_raised_PkgConfigError:' + reason)
        elif outcome == 'raised':
            rep.bad('call-wrong-exception:%s:%s' % (reason, cls), '%s raised %s: %s instead of '
                    'PkgConfigError' % (what, type(val).__name__, str(val)[:200]), c)
        else:
            rep.bad('call-error-not-raised:%s:%s' % (reason, cls), '%s returned %r' %
                    (what, val if not isinstance(val, str) else val[:300]), c)
        return
    if outcome != 'returned':
        rep.bad('call-success-raised:' + cls, '%s raised %s: %s (the bytes decode with %s)' %
                (what, type(val).__name__, str(val)[:300], encname), c)
    elif not isinstance(val, str):
        rep.bad('call-returned-non-text:' + cls, '%s returned %r' % (what, val), c)
    elif list(filter(None, WS.split(val))) != list(filter(None, WS.split(want))):
        rep.bad('call-output-mismatch:' + cls, '%s returned %r, expected the tokens of %r' %
                (what, val[:300], want[:300]), c)
    else:
        rep.stat('call_direct_returned_every_token')


def run_merge(st, rep, seed):
    rnd = random.Random(seed)
    keys = KEYS + ['sources', 'x']

    def items(key):
        return [(word(rnd, 1, 3), rnd.choice([None, word(rnd)])) if key == 'define_macros'
                else word(rnd, 0, 5) for _ in range(rnd.choice([0, 1, 1, 2, 3, 4]))]
    dicts = [{k: items(k) for k in keys if rnd.random() < 0.6} for _ in range(rnd.randint(2, 5))]
    orig = copy.deepcopy(dicts)
    exp = {}
    for d in orig:
        for k, v in d.items():
            exp.setdefault(k, []).extend(v)
    shared = any(k in b for i, a in enumerate(dicts) for b in dicts[i + 1:] for k in a)
    rep.case(repr(orig), nontrivial=shared, sample={'merge_chain': orig})
    rep.stat('merge_chain_of_%d' % len(dicts))
    acc = dicts[0]
    try:
        for d in dicts[1:]:
            acc = st['pc'].merge_flags(acc, d)
            rep.stat('merge_calls')
    except MergeContract as e:
        return rep.bad('merge-mismatch:step', 'merge chain %r: %s' % (orig, str(e)[:300]), seed)
    except Exception as e:
        return rep.bad('merge-raised', 'merge chain %r raised %s: %s' %
                       (orig, type(e).__name__, e), seed)
    if acc != exp:
        rep.bad('merge-mismatch:chain', 'merge chain %r -> %r, expected %r' % (orig, acc, exp), seed)
    if dicts[1:] != orig[1:]:
        rep.stat('observed_only:later_merge_mutated_a_list_of_an_earlier_cfg2')


def run_probe(st, rep):
    """Observation only (outside the decided class, see ASSUMPTIONS)."""
    notes = []

    def ans(text):
        return {w: {'out': (text if w == 'c' else '').encode().hex(), 'err': '', 'rc': 0, 'sig': 0}
                for w in 'cl'}
    st['answers'] = None
    for label, ch in (('U+3000', '\u3000'), ('U+00A0', '\xa0'), ('0x1f', '\x1f')):
        o, v, _ = call_stubbed(st, ['p'], {'p': ans('-I/opt/a%sb\n' % ch)}, 'stub')
        split = o == 'returned' and v.get('include_dirs') != ['/opt/a%sb' % ch]
        rep.stat('observed_only:token_with_%s_%s' % (label, 'split' if split else 'kept'))
        if split:
            notes.append('observation (not decided): --cflags token -I/opt/a<%s>b is split by '
                         'str.split(): include_dirs=%r extra_compile_args=%r' %
                         (label, v.get('include_dirs'), v.get('extra_compile_args')))
    for label, nm in (('NUL', 'a\0b'), ('lone-surrogate', 'a\ud800')):
        o, v, _ = call_stubbed(st, [nm], {}, 'stub')
        r = type(v).__name__ if o == 'raised' else o
        rep.stat('observed_only:package_name_with_%s:%s' % (label, r))
        if r != 'PkgConfigError':
            notes.append('observation (not decided): package name with %s -> %s' % (label, r))
    return notes


def child_case(st, case):
    rep = core.ChildRep()
    notes = []
    before = dict(st['evals'])
    for item in case.get('specs', []) + case.get('seeds', []) + [None] * (case['kind'] == 'probe'):
        try:
            if case['kind'] == 'pkg':
                run_spec(st, rep, item)
            elif case['kind'] == 'call':
                run_call(st, rep, item)
            elif case['kind'] == 'merge':
                run_merge(st, rep, item)
            else:
                notes = run_probe(st, rep)
        except Exception:
            import traceback
            rep.bad('harness-exception', traceback.format_exc()[-900:], item)
    rep.stat('contract_evaluations_flags_from_pkgconfig', st['evals']['flags'] - before['flags'])
    rep.stat('contract_evaluations_merge_flags', st['evals']['merge'] - before['merge'])
    rep.stat('cases_with_contracts_via_' + st['how'])
    obs = rep.result()
    obs['notes'] = notes
    return obs


def judge(ctx, setup, case, obs):
    for n in obs.get('notes', []):
        ctx.note(n)
    s = obs['stats']
    if (s.get('success_spec') and not s.get('contract_evaluations_flags_from_pkgconfig')) or \
            (s.get('merge_calls') and not s.get('contract_evaluations_merge_flags')):
        ctx.inconclusive('postconditions were never evaluated (decorated name not the one called)')
    core.absorb(ctx, case, obs, lambda d: {'kind': case['kind'], 'specs': [d]}
                if case['kind'] in ('pkg', 'call') else {'kind': 'merge', 'seeds': [d]})
