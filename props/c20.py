"""C20 -- ffi.new zero-fills and initializes exactly like assignment.

Three independent paths must leave the same bytes:
  A  ffi.new('X *', init)
  B  p = ffi.new('X *'); p[0] = init          (arrays: through a pointer-to-array)
  C  leaf-by-leaf attribute/item assignment into Python-allocated zero memory
     (bytearray + from_buffer), for initializers made of dicts and full lists.
Under ASan malloc'ed memory is filled with 0xbe, so a missing zero-fill shows
in A vs C.  Flexible arrays: allocation size and sizeof(p[0]).
"""
import sys, os
from vlib import core, gen_types as G

MEMCHECK_SAMPLE = 4
RULE = ("case = (aggregate or array type from the C01 generator, random nested initializer): "
        "lists/tuples shorter than the field list, dicts, bytes for char arrays, cdata "
        "structs/arrays, nested mixes, union sequences, arrays of structs, flexible-array structs "
        "with item lists or a length, and invalid initializers (too many items, unknown key, wrong "
        "type); distinct = (declaration, initializer repr); non-trivial = initializer has >= 2 "
        "leaves or is nested")
ASSUMPTIONS = ["path C only interprets dict initializers and array lists (list order across anonymous members is cffi-defined and only compared between A and B)",
               "for flexible-array structs the assignment target is allocated with a length-only initializer of the same length first (assignment never resizes)"]


def generate(ctx):
    rng = ctx.rng('gen')
    n = ctx.scale(4000, 200000)
    per = 200
    seeds = [rng.getrandbits(48) for _ in range(n)]
    cases = [{'seeds': seeds[i:i + per]} for i in range(0, n, per)]
    # deliberate probe of the recorded finding (kept in separate cases so that
    # the sanitizer report can be attributed to the mechanism)
    for k in range(3):
        cases.append({'seeds': [rng.getrandbits(48)], 'flex_overflow': True})
    return None, cases


def child_setup(setup, wd):
    return {}


def san_mechanism(case, key, block):
    if case.get('flex_overflow') and 'heap-buffer-overflow' in key and \
            'convert_array_from_object' in block:
        return 'flexible-array-assignment-overflow'
    return None


class Bad(Exception):
    pass


def prim_value(ffi, rnd, name):
    if name in ('float', 'double', 'long double'):
        return rnd.choice([0.5, -1.25, 3.0, 1e10])
    if 'Complex' in name:
        return complex(rnd.choice([1.5, -2.0]), rnd.choice([0.25, 4.0]))
    if name == '_Bool':
        return rnd.choice([True, False, 1])
    if name == 'char':
        return bytes([rnd.randrange(1, 256)])
    if name in ('wchar_t', 'char16_t', 'char32_t'):
        return chr(rnd.choice([65, 0xe9, 0x20ac]))
    size = ffi.sizeof(name)
    signed = int(ffi.cast(name, -1)) < 0
    lo, hi = (-(1 << (8 * size - 1)), (1 << (8 * size - 1)) - 1) if signed else \
        (0, (1 << (8 * size)) - 1)
    return rnd.choice([lo, hi, 1, rnd.randint(lo, hi)])


def make_init(ffi, rnd, t, aggs, depth=0, dictmode=False, stats=None):
    """random initializer for type descriptor t (see gen_types)"""
    k = t['k']
    if k == 'prim':
        return prim_value(ffi, rnd, t['name'])
    if k == 'ptr':
        return rnd.choice([ffi.NULL, ffi.cast(G.render_type(t), rnd.getrandbits(40))])
    if k == 'fnptr':
        return rnd.choice([ffi.NULL, ffi.cast(G.render_type(t), rnd.getrandbits(40))])
    if k == 'array':
        n = t['n']
        of = t['of']
        if of['k'] == 'prim' and of['name'] == 'char' and rnd.random() < 0.5 and not dictmode:
            m = rnd.randint(0, n)
            return bytes(rnd.randrange(1, 256) for _ in range(m))
        m = n if dictmode else rnd.randint(0, n)
        items = [make_init(ffi, rnd, of, aggs, depth + 1, dictmode) for _ in range(m)]
        return items if dictmode or rnd.random() < 0.7 else tuple(items)
    if k in ('agg', 'anon'):
        agg = aggs[t['name']] if k == 'agg' else t['agg']
        return make_agg_init(ffi, rnd, agg, aggs, depth, dictmode)
    raise ValueError(k)


def flat_fields(agg):
    """named fields in order, anonymous members flattened"""
    out = []
    for f in agg['fields']:
        if f['type']['k'] == 'anon':
            out.extend(flat_fields(f['type']['agg']))
        elif f['name']:
            out.append(f)
    return out


def has_anon(agg):
    return any(f['type']['k'] == 'anon' for f in agg['fields'])


def bit_value(rnd, f):
    T, w = f['type']['name'], f['bits']
    if T == '_Bool':
        return rnd.choice([0, 1])
    signed = not T.startswith('u')
    lo, hi = (-(1 << (w - 1)), (1 << (w - 1)) - 1) if signed else (0, (1 << w) - 1)
    return rnd.choice([lo, hi, rnd.randint(lo, hi)])


def make_agg_init(ffi, rnd, agg, aggs, depth, dictmode):
    fields = [f for f in flat_fields(agg)
              if not (f['type']['k'] == 'array' and f['type']['n'] is None)]
    r = rnd.random()
    if not dictmode and r < 0.12 and agg.get('name'):
        # a cdata struct of the same type, with random bytes
        tag = '%s %s' % (agg['kind'], agg['name'])
        src = ffi.new(tag + ' *')
        b = ffi.buffer(src)
        b[:] = bytes(rnd.getrandbits(8) for _ in range(len(b)))
        return src[0]

    def val(f):
        if f['bits'] is not None:
            return bit_value(rnd, f)
        return make_init(ffi, rnd, f['type'], aggs, depth + 1, dictmode)
    if dictmode or r < 0.5 or agg['kind'] == 'union' and r < 0.8:
        if agg['kind'] == 'union':
            pick = [rnd.choice(fields)] if fields else []
        else:
            pick = [f for f in fields if rnd.random() < 0.6]
        return {f['name']: val(f) for f in pick}
    if agg['kind'] == 'union':
        # a sequence sets the first member
        first = [f for f in flat_fields(agg)][:1]
        return [val(first[0])] if first and rnd.random() < 0.8 else []
    if has_anon(agg):
        # list order across anonymous unions is cffi-defined: compared A vs B only
        k = rnd.randint(0, min(2, len(fields)))
    else:
        k = rnd.randint(0, len(fields))
    vals = [val(f) for f in fields[:k]]
    return vals if rnd.random() < 0.7 else tuple(vals)


def leaf_assign(ffi, target, t, init, aggs):
    """path C: write `init` (dicts / full lists / scalars) leaf by leaf"""
    # target: cdata struct (reference) or array
    if isinstance(init, dict):
        for name, v in init.items():
            ft = find_field_type(t, name, aggs)
            if isinstance(v, (dict, list)) and ft is not None and ft['k'] in ('agg', 'anon', 'array'):
                leaf_assign(ffi, getattr(target, name), ft, v, aggs)
            else:
                setattr(target, name, v)
    elif isinstance(init, list):
        of = t['of']
        for i, v in enumerate(init):
            if isinstance(v, (dict, list)) and of['k'] in ('agg', 'anon', 'array'):
                leaf_assign(ffi, target[i], of, v, aggs)
            else:
                target[i] = v
    else:
        raise Bad('leaf_assign: unexpected %r' % (init,))


def find_field_type(t, name, aggs):
    agg = aggs[t['name']] if t['k'] == 'agg' else t['agg']
    for f in flat_fields(agg):
        if f['name'] == name:
            return None if f['bits'] is not None else f['type']
    raise Bad('no field %s' % name)


def run_path(fn):
    try:
        return ('ok', fn())
    except Bad:
        raise
    except Exception as e:
        return ('exc', type(e).__name__, str(e)[:120])


def irepr(x):
    r = repr(x)
    return r if len(r) < 300 else r[:300] + '...'


def child_case(st, case):
    import random
    from cffi import FFI
    rep = core.ChildRep()
    for seed in case['seeds']:
        rnd = random.Random(seed)
        ffi = FFI()
        g = G.Gen(rnd, prefix='t', complex_ok=True, longdouble_ok=False)
        top = g.toplevel(allow_packed=False)
        aggs = {a['name']: a for a in g.decls}
        text = '\n'.join(G.render_decl_c(a) for a in g.decls)
        try:
            ffi.cdef(text)
        except Exception as e:
            rep.bad('harness-cdef', 'cdef rejected: %s :: %s' % (e, text[:300]), seed)
            continue
        tag = '%s %s' % (top['kind'], top['name'])
        T = {'k': 'agg', 'name': top['name'], 'kind': top['kind']}
        if case.get('flex_overflow'):
            flex_overflow_probe(ffi, rnd, rep)
            continue
        try:
            if top['flex']:
                do_flex(ffi, rnd, rep, top, tag, T, aggs, text, seed)
            else:
                mode = rnd.choice(['single', 'single', 'dictmode', 'array', 'invalid', 'empty',
                                   'primarray', 'openarray'])
                do_fixed(ffi, rnd, rep, top, tag, T, aggs, text, seed, mode)
        except Bad as e:
            rep.bad('harness-model', '%s :: %s' % (e, text[:300]), seed)
    return rep.result()


def do_fixed(ffi, rnd, rep, top, tag, T, aggs, text, seed, mode):
    size = ffi.sizeof(tag)
    if mode == 'empty':
        p = ffi.new(tag + ' *')
        a = ffi.new(tag + '[3]')
        rep.case(('empty', text), nontrivial=False)
        rep.stat('mode_empty')
        if bytes(ffi.buffer(p)) != b'\0' * size or bytes(ffi.buffer(a)) != b'\0' * (3 * size):
            rep.bad('not-zero-filled', 'ffi.new(%r) without initializer is not all zero' % tag, seed)
        return
    if mode == 'primarray':
        name = rnd.choice(['int', 'short', 'unsigned char', 'double', 'char', 'long long'])
        n = rnd.randint(0, 9)
        t = {'k': 'array', 'of': {'k': 'prim', 'name': name}, 'n': n}
        init = make_init(ffi, rnd, t, aggs)
        ct = '%s[%d]' % (name, n)
        A = run_path(lambda: bytes(ffi.buffer(ffi.new(ct, init))))

        def pathB():
            pp = ffi.new('%s(*)[%d]' % (name, n))
            pp[0] = init
            return bytes(ffi.buffer(pp))
        B = run_path(pathB)
        rep.case((ct, irepr(init)), nontrivial=len(init) >= 2, sample={'type': ct, 'init': irepr(init)})
        rep.stat('mode_primarray')
        if A != B:
            rep.bad('new-vs-assign:array', '%s init %s: new -> %r, assignment -> %r' %
                    (ct, irepr(init), A, B), seed)
        if A[0] == 'ok':
            isz = ffi.sizeof(name)
            m = len(init)
            if A[1][m * isz + (isz if isinstance(init, bytes) and m < n else 0):] .strip(b'\0'):
                rep.bad('not-zero-filled', '%s init %s: tail not zero: %s' %
                        (ct, irepr(init), A[1].hex()), seed)
        return
    if mode == 'invalid':
        fields = flat_fields(top)
        kind = rnd.choice(['toomany', 'unknownkey', 'wrongtype'])
        if kind == 'toomany':
            init = [0] * (len(fields) + 1 + (1 if top['kind'] == 'union' else 0))
            if top['kind'] == 'union':
                init = [0, 0]
        elif kind == 'unknownkey':
            init = {'no_such_field_zz': 1}
        else:
            init = rnd.choice(['a string', 3.5, object(), 7])
        A = run_path(lambda: bytes(ffi.buffer(ffi.new(tag + ' *', init))))

        def pathB():
            p = ffi.new(tag + ' *')
            p[0] = init
            return bytes(ffi.buffer(p))
        B = run_path(pathB)
        rep.case((text, 'invalid', kind), sample={'decl': text[:200], 'invalid_init': irepr(init)})
        rep.stat('mode_invalid_' + kind)
        if A[0] == 'ok' or B[0] == 'ok' or A[1] != B[1]:
            if not (A[0] == 'ok' and B[0] == 'ok' and A == B and kind == 'toomany'):
                rep.bad('invalid-initializer-differs', '%s invalid init %s: new -> %r, assignment '
                        '-> %r :: %s' % (tag, irepr(init), A[:2], B[:2], text[:300]), seed)
        return
    if mode == 'openarray':
        # open-ended array created from an initializer: items that the
        # initializer only partly covers must still be zero elsewhere
        kind = rnd.choice(['agg', 'agg', 'int3', 'char8'])
        m = rnd.randint(1, 4)
        if kind == 'agg':
            ct_open = ffi.getctype(ffi.typeof(tag), '[]')
            inits = [make_agg_init(ffi, rnd, top, aggs, 0, True) for _ in range(m)]
            isz = size
        elif kind == 'int3':
            ct_open, isz = 'int[][3]', 12
            inits = [[rnd.randint(1, 9) for _ in range(rnd.randint(0, 3))] for _ in range(m)]
        else:
            ct_open, isz = 'char[][8]', 8
            inits = [bytes(rnd.randrange(1, 256) for _ in range(rnd.randint(0, 7)))
                     for _ in range(m)]
        A = run_path(lambda: bytes(ffi.buffer(ffi.new(ct_open, inits))))

        def pathB():
            arr = ffi.new(ct_open, m)
            for i, it in enumerate(inits):
                arr[i] = it
            return bytes(ffi.buffer(arr))
        B = run_path(pathB)
        rep.case((text if kind == 'agg' else kind, 'openarray', irepr(inits)),
                 sample={'type': str(ct_open), 'inits': irepr(inits)})
        rep.stat('mode_openarray_' + kind)
        if A != B:
            rep.bad('new-vs-assign:open-array', '%s init %s: new -> %r, length-only new + item '
                    'assignment -> %r :: %s' % (ct_open, irepr(inits), A, B,
                                                text[:300] if kind == 'agg' else ''), seed)
        if A[0] == 'ok' and kind == 'agg':
            mem = bytearray(isz * m)
            tgt = ffi.from_buffer(ffi.getctype(ffi.typeof(tag), '[]'), mem)
            for i, it in enumerate(inits):
                leaf_assign(ffi, tgt[i], T, it, aggs)
            if bytes(mem) != A[1]:
                rep.bad('new-vs-leafwise:open-array', '%s init %s: new -> %s, leaf-wise into zero '
                        'memory -> %s' % (ct_open, irepr(inits), A[1].hex(), bytes(mem).hex()), seed)
        return
    if mode == 'array':
        n = rnd.randint(1, 4)
        m = rnd.randint(0, n)
        inits = [make_agg_init(ffi, rnd, top, aggs, 0, False) for _ in range(m)]
        ct = ffi.getctype(ffi.typeof(tag), '[%d]' % n)
        A = run_path(lambda: bytes(ffi.buffer(ffi.new(ct, inits))))

        def pathB():
            pp = ffi.new(ffi.getctype(ffi.typeof(tag), '(*)[%d]' % n))
            pp[0] = inits
            return bytes(ffi.buffer(pp))

        def pathB2():
            arr = ffi.new(ct)
            for i, it in enumerate(inits):
                arr[i] = it
            return bytes(ffi.buffer(arr))
        B, B2 = run_path(pathB), run_path(pathB2)
        rep.case((text, 'array', n, irepr(inits)), sample={'decl': text[:200], 'n': n,
                                                           'inits': irepr(inits)})
        rep.stat('mode_array')
        if A != B or (A[0] == 'ok' and B2 != A):
            rep.bad('new-vs-assign:array-of-aggregates', '%s init %s: new -> %r, ptr-to-array '
                    'assignment -> %r, item assignment -> %r :: %s' %
                    (ct, irepr(inits), A, B, B2, text[:300]), seed)
        if A[0] == 'ok' and A[1][m * size:].strip(b'\0'):
            rep.bad('not-zero-filled', '%s: elements after the initializer are not zero' % ct, seed)
        return
    dictmode = mode == 'dictmode'
    init = make_agg_init(ffi, rnd, top, aggs, 0, dictmode)
    A = run_path(lambda: bytes(ffi.buffer(ffi.new(tag + ' *', init))))

    def pathB():
        p = ffi.new(tag + ' *')
        p[0] = init
        return bytes(ffi.buffer(p))
    B = run_path(pathB)
    nleaves = len(init) if isinstance(init, (list, tuple, dict)) else 1
    rep.case((text, irepr(init)), nontrivial=nleaves >= 2,
             sample={'decl': text[:300], 'init': irepr(init)})
    rep.stat('mode_' + mode)
    rep.stat('init_' + type(init).__name__)
    if A != B:
        rep.bad('new-vs-assign', '%s init %s: new -> %r, assignment -> %r :: %s' %
                (tag, irepr(init), A, B, text[:400]), seed)
    if dictmode and A[0] == 'ok':
        mem = bytearray(size)
        tgt = ffi.from_buffer(tag + ' *', mem)
        leaf_assign(ffi, tgt, T, init, aggs)
        rep.stat('leafwise_compared')
        if bytes(mem) != A[1]:
            rep.bad('new-vs-leafwise', '%s dict init %s: new -> %s, leaf-wise assignment into zero '
                    'memory -> %s :: %s' % (tag, irepr(init), A[1].hex(), bytes(mem).hex(),
                                            text[:400]), seed)
    if A[0] == 'ok' and isinstance(init, (list, tuple, dict)) and len(init) == 0:
        if A[1].strip(b'\0'):
            rep.bad('not-zero-filled', '%s with empty initializer is not all zero' % tag, seed)


def do_flex(ffi, rnd, rep, top, tag, T, aggs, text, seed):
    flex = top['fields'][-1]
    item = G.render_type(flex['type']['of'])
    isz = ffi.sizeof(item)
    off = ffi.offsetof(tag, flex['name'])
    base = ffi.sizeof(tag)
    k = rnd.choice([0, 1, 2, 3, 7, 20])
    uselen = rnd.random() < 0.4
    head = make_agg_init(ffi, rnd, top, aggs, 0, True)
    if not isinstance(head, dict):
        head = {}
    if uselen:
        arr = k
    else:
        arr = [make_init(ffi, rnd, flex['type']['of'], aggs) for _ in range(k)]
    init = dict(head)
    init[flex['name']] = arr
    A = run_path(lambda: ffi.new(tag + ' *', init))
    rep.case((text, 'flex', irepr(init)), sample={'decl': text[:300], 'init': irepr(init)})
    rep.stat('flex_length_init' if uselen else 'flex_items_init')
    if A[0] != 'ok':
        rep.bad('flex-new-raised', '%s init %s raised %r :: %s' % (tag, irepr(init), A[1:], text[:300]),
                seed)
        return
    p = A[1]
    want = max(base, off + k * isz)
    if ffi.sizeof(p[0]) != want or len(ffi.buffer(p)) != want:
        rep.bad('flex-allocation-size', '%s with %d flexible items: sizeof(p[0])=%d, '
                'len(buffer)=%d, expected %d :: %s' % (tag, k, ffi.sizeof(p[0]),
                                                       len(ffi.buffer(p)), want, text[:300]), seed)
    # the member's length is derived from the allocated size, so tail padding
    # of the struct can make it larger than k; it must hold at least k items
    if len(getattr(p, flex['name'])) < k:
        rep.bad('flex-length', 'flexible member has length %d, initializer had %d items' %
                (len(getattr(p, flex['name'])), k), seed)
    # path B: target allocated with a length-only initializer, then assigned
    q = ffi.new(tag + ' *', {flex['name']: k})
    B = run_path(lambda: q.__setitem__(0, init))
    if B[0] != 'ok':
        rep.bad('flex-assign-raised', '%s: p[0] = %s raised %r' % (tag, irepr(init), B[1:]), seed)
    elif bytes(ffi.buffer(q)) != bytes(ffi.buffer(p)):
        rep.bad('new-vs-assign:flex', '%s init %s: new -> %s, assignment -> %s :: %s' %
                (tag, irepr(init), bytes(ffi.buffer(p)).hex(), bytes(ffi.buffer(q)).hex(),
                 text[:300]), seed)
    # path C
    mem = bytearray(want)
    tgt = ffi.from_buffer(tag + ' *', mem)
    leaf_assign(ffi, tgt, T, head, aggs)
    if not uselen:
        fa = ffi.cast(ffi.getctype(ffi.typeof(item), '*'), ffi.cast('char *', tgt) + off)
        for i, v in enumerate(arr):
            fa[i] = v
    if bytes(mem) != bytes(ffi.buffer(p)):
        rep.bad('new-vs-leafwise:flex', '%s init %s: new -> %s, leaf-wise -> %s :: %s' %
                (tag, irepr(init), bytes(ffi.buffer(p)).hex(), bytes(mem).hex(), text[:300]), seed)


def flex_overflow_probe(ffi, rnd, rep):
    """Recorded finding: assigning more items than allocated to the flexible
    array member of an owned struct is not checked (1 item too many: lands in
    the ASan red zone)."""
    f2 = FFI2()
    q = f2.new('struct fxp *', {'a': 2})
    rep.case(('flex_overflow_probe', rnd.random()), sample={'probe': 'struct fxp {int n; short a[];}; '
                                                            "q = new(.., {'a': 2}); q.a = [1, 2, 3]"})
    rep.case(('flex_overflow_probe2', rnd.random()))
    try:
        q.a = [1, 2, 3]
        rep.stat('flex_overflow_probe_accepted')
    except Exception:
        rep.stat('flex_overflow_probe_rejected')


def FFI2():
    from cffi import FFI
    f = FFI()
    f.cdef('struct fxp { int n; short a[]; };')
    return f


def judge(ctx, setup, case, obs):
    core.absorb(ctx, case, obs, lambda seed: {'seeds': [seed]})
