"""C20 -- ffi.new zero-fills and initializes exactly like assignment.

Three independent paths must leave the same bytes:
  A  ffi.new('X *', init)
  B  p = ffi.new('X *'); p[0] = init          (arrays: through a pointer-to-array)
  C  the reference model: leaf-by-leaf attribute/item assignment (and raw byte
     copies for bytes / str / cdata initializers) into Python-allocated zero
     memory (bytearray + from_buffer).  Sequence initializers follow the order
     the property states: fields in order, anonymous structs transparent, a
     union offers its first member only.
Under ASan malloc'ed memory is filled with 0xbe, so a missing zero-fill shows
in A vs C.  Flexible arrays: allocation size and sizeof(p[0]), also through
enclosing structs.  The other entry points that reach direct_newp (ctype
object, C-level FFI.new, ffi.new_allocator() in its four configurations) must
produce the same bytes / the same allocation size as ffi.new.
"""
import sys, os
from vlib import core, gen_types as G

MEMCHECK_SAMPLE = 4
RULE = ("case = (aggregate or array type from the C01 generator, random nested initializer): "
        "lists/tuples shorter than the field list, dicts, bytes for char arrays, cdata "
        "structs/arrays, nested mixes, union sequences, arrays of structs, flexible-array structs "
        "with item lists or a length, and invalid initializers (too many items, unknown key, wrong "
        "type); bytes for every 1-byte integer item type and _Bool, str (incl. astral characters "
        "for char16_t) for wide-char arrays, cdata arrays for array fields, positional initializers "
        "across anonymous members, pointer-to-primitive types, open-ended primitive arrays from "
        "length / list / tuple / bytes / str / __index__ object, flexible members whose items are "
        "structs / arrays / pointers, flexible structs initialized positionally, from bytes / str, "
        "without the flexible key, nested in 1-2 enclosing structs (dict, positional, cdata inner), "
        "overflowing / negative / non-integer lengths, and every case class again through the "
        "alternative entry points (ctype object, C-level FFI.new, new_allocator default / "
        "no-clear / custom alloc+free / custom no-clear); distinct = (declaration, initializer "
        "repr); non-trivial = initializer has >= 2 leaves or is nested")
ASSUMPTIONS = ["a sequence initializer for an aggregate whose (possibly anonymous, nested) union starts with an unnamed bitfield has no 'first member' the property could name: such cases are only compared between A and B (counter model_unmodelled)",
               "when the reference model itself raises on a leaf value (a conversion outside C20) the case is only compared between A and B (counter model_raised)",
               "with should_clear_after_alloc=False only the allocation size is judged, except when the custom alloc() hands out zeroed memory (then the bytes must equal ffi.new's)",
               "for flexible-array structs the assignment target is allocated with a length-only initializer of the same length first (assignment never resizes)"]


def generate(ctx):
    rng = ctx.rng('gen')
    n = ctx.scale(4000, 200000)
    per = 200
    seeds = [rng.getrandbits(48) for _ in range(n)]
    cases = [{'seeds': seeds[i:i + per]} for i in range(0, n, per)]
    # deliberate probe of the recorded finding (kept in separate cases so that
    # the sanitizer report can be attributed to the mechanism)
    for k in range(3):
        cases.append({'seeds': [rng.getrandbits(48)], 'flex_overflow': True})
    # a cdata struct as the initializer of a flexible-array struct (own case:
    # one stable mechanism)
    cases.append({'seeds': [rng.getrandbits(48)], 'flex_cdata': True})
    return None, cases


def child_setup(setup, wd):
    return {}


def san_mechanism(case, key, block):
    if case.get('flex_overflow') and 'heap-buffer-overflow' in key and \
            'convert_array_from_object' in block:
        return 'flexible-array-assignment-overflow'
    return None


class Bad(Exception):
    pass


class Unmodelled(Exception):
    pass


class IndexLen(object):
    """a length given as an object with __index__"""
    def __init__(self, n):
        self.n = n

    def __index__(self):
        return self.n

    def __repr__(self):
        return 'IndexLen(%d)' % self.n


BYTE_ITEMS = ('char', 'signed char', 'unsigned char', 'int8_t', 'uint8_t', '_Bool')
WIDE = {'wchar_t': 'utf-32-le', 'char16_t': 'utf-16-le', 'char32_t': 'utf-32-le'}
WIDE_CHARS = [65, 0x7a, 0xe9, 0x20ac, 0x1f600, 0x12345]
LEAF_KINDS = ('prim', 'ptr', 'fnptr')


def prim_value(ffi, rnd, name):
    if name in ('float', 'double', 'long double'):
        return rnd.choice([0.5, -1.25, 3.0, 1e10])
    if 'Complex' in name:
        return complex(rnd.choice([1.5, -2.0]), rnd.choice([0.25, 4.0]))
    if name == '_Bool':
        return rnd.choice([True, False, 1])
    if name == 'char':
        return bytes([rnd.randrange(1, 256)])
    if name in ('wchar_t', 'char16_t', 'char32_t'):
        return chr(rnd.choice([65, 0xe9, 0x20ac]))
    size = ffi.sizeof(name)
    signed = int(ffi.cast(name, -1)) < 0
    lo, hi = (-(1 << (8 * size - 1)), (1 << (8 * size - 1)) - 1) if signed else \
        (0, (1 << (8 * size)) - 1)
    return rnd.choice([lo, hi, 1, rnd.randint(lo, hi)])


def units(name, text):
    """number of array items the str `text` occupies in an array of `name`"""
    return len(text.encode(WIDE[name], 'surrogatepass')) // (2 if name == 'char16_t' else 4)


def wide_text(rnd, name, maxunits):
    out = ''
    for _ in range(rnd.randint(0, maxunits)):
        c = chr(rnd.choice(WIDE_CHARS))
        if units(name, out + c) > maxunits:
            break
        out += c
    return out


def byte_text(rnd, name, m):
    if name == '_Bool':
        return bytes(rnd.randrange(0, 2) for _ in range(m))
    return bytes(rnd.randrange(1, 256) for _ in range(m))


def renderable(t):
    """can the type be written as a C type name (no anonymous aggregate)"""
    if t['k'] == 'anon':
        return False
    if t['k'] == 'array':
        return t['n'] is not None and renderable(t['of'])
    return True


def make_init(ffi, rnd, t, aggs, depth=0, dictmode=False, stats=None):
    """random initializer for type descriptor t (see gen_types)"""
    k = t['k']
    if k == 'prim':
        return prim_value(ffi, rnd, t['name'])
    if k == 'ptr':
        return rnd.choice([ffi.NULL, ffi.cast(G.render_type(t), rnd.getrandbits(40))])
    if k == 'fnptr':
        return rnd.choice([ffi.NULL, ffi.cast(G.render_type(t), rnd.getrandbits(40))])
    if k == 'array':
        n = t['n']
        of = t['of']
        r = rnd.random()
        if of['k'] == 'prim' and of['name'] in BYTE_ITEMS and r < 0.5 and not dictmode:
            # bytes: shorter than the array, or exactly as long (no terminator)
            m = rnd.choice([n, rnd.randint(0, n)])
            return byte_text(rnd, of['name'], m)
        if of['k'] == 'prim' and of['name'] in WIDE and r < 0.5 and not dictmode:
            return wide_text(rnd, of['name'], n)
        if not dictmode and 0.5 <= r < 0.6 and renderable(t):
            # a cdata array of exactly this type, with random bytes
            src = ffi.new(G.render_type(t))
            b = ffi.buffer(src)
            b[:] = bytes(rnd.getrandbits(8) for _ in range(len(b)))
            return src
        m = n if dictmode else rnd.randint(0, n)
        items = [make_init(ffi, rnd, of, aggs, depth + 1, dictmode) for _ in range(m)]
        return items if dictmode or rnd.random() < 0.7 else tuple(items)
    if k in ('agg', 'anon'):
        agg = aggs[t['name']] if k == 'agg' else t['agg']
        return make_agg_init(ffi, rnd, agg, aggs, depth, dictmode)
    raise ValueError(k)


def flat_fields(agg):
    """named fields in order, anonymous members flattened"""
    out = []
    for f in agg['fields']:
        if f['type']['k'] == 'anon':
            out.extend(flat_fields(f['type']['agg']))
        elif f['name']:
            out.append(f)
    return out


def ctor_fields(agg):
    """The fields a sequence initializer fills, in order: the members in
    declaration order, anonymous structs transparent, a union offering only
    its first member (C brace-initializer order).  None when the property
    does not say (a union whose first declared member is an unnamed
    bitfield)."""
    members = agg['fields']
    if agg['kind'] == 'union':
        members = members[:1]
        if members and members[0]['type']['k'] != 'anon' and not members[0]['name']:
            return None
    out = []
    for f in members:
        if f['type']['k'] == 'anon':
            sub = ctor_fields(f['type']['agg'])
            if sub is None:
                return None
            out.extend(sub)
        elif f['name']:
            out.append(f)
    return out


def is_flexfield(f):
    return f['type']['k'] == 'array' and f['type']['n'] is None


def bit_value(rnd, f):
    T, w = f['type']['name'], f['bits']
    if T == '_Bool':
        return rnd.choice([0, 1])
    signed = not T.startswith('u')
    lo, hi = (-(1 << (w - 1)), (1 << (w - 1)) - 1) if signed else (0, (1 << w) - 1)
    return rnd.choice([lo, hi, rnd.randint(lo, hi)])


def field_value(ffi, rnd, f, aggs, depth, dictmode):
    if f['bits'] is not None:
        return bit_value(rnd, f)
    return make_init(ffi, rnd, f['type'], aggs, depth + 1, dictmode)


def make_agg_init(ffi, rnd, agg, aggs, depth, dictmode, nocdata=False):
    fields = [f for f in flat_fields(agg) if not is_flexfield(f)]
    r = rnd.random()
    if not dictmode and not nocdata and r < 0.12 and agg.get('name') and not agg.get('flex') \
            and not agg.get('varwrap'):
        # a cdata struct of the same type, with random bytes
        tag = '%s %s' % (agg['kind'], agg['name'])
        src = ffi.new(tag + ' *')
        b = ffi.buffer(src)
        b[:] = bytes(rnd.getrandbits(8) for _ in range(len(b)))
        return src[0]

    def val(f):
        return field_value(ffi, rnd, f, aggs, depth, dictmode)
    cf = ctor_fields(agg)
    if cf is not None:
        cf = [f for f in cf if not is_flexfield(f)]
    if dictmode or r < 0.5 or cf is None or agg['kind'] == 'union' and r < 0.7:
        if agg['kind'] == 'union':
            pick = [rnd.choice(fields)] if fields else []
        else:
            pick = [f for f in fields if rnd.random() < 0.6]
        return {f['name']: val(f) for f in pick}
    # positional: leading fields in constructor order (for a union: its first
    # member, i.e. at most the fields of a leading anonymous struct)
    k = rnd.randint(0, len(cf))
    if agg['kind'] == 'union' and cf and rnd.random() < 0.8:
        k = max(k, 1)
    vals = [val(f) for f in cf[:k]]
    return vals if rnd.random() < 0.7 else tuple(vals)


# ---------------------------------------------------------------------------
# path C: the reference model

def raw(ffi, ptr, n):
    return ffi.buffer(ffi.cast('char *', ptr), n)


def field_by_name(agg, name):
    for f in flat_fields(agg):
        if f['name'] == name:
            return f
    raise Bad('no field %s' % name)


def model_fill(ffi, sub, t, init, aggs):
    """write initializer `init` for the aggregate / array type t into `sub`, a
    cdata reference into zeroed Python-owned memory"""
    k = t['k']
    if k == 'array':
        return model_array(ffi, sub, t['of'], init, aggs, t['n'])
    if k not in ('agg', 'anon'):
        raise Bad('model_fill: %r' % (t,))
    agg = aggs[t['name']] if k == 'agg' else t['agg']
    if isinstance(init, ffi.CData):
        n = ffi.sizeof(ffi.typeof(sub))
        raw(ffi, ffi.addressof(sub), n)[:] = bytes(raw(ffi, ffi.addressof(init), n))
        return
    if isinstance(init, dict):
        pairs = [(field_by_name(agg, name), v) for name, v in init.items()]
    elif isinstance(init, (list, tuple)):
        cf = ctor_fields(agg)
        if cf is None:
            raise Unmodelled('union-first-member-unnamed')
        if len(init) > len(cf):
            raise Bad('model: %d initializers for %d constructor fields' % (len(init), len(cf)))
        pairs = list(zip(cf, init))
    else:
        raise Bad('model_fill: unexpected %r' % (init,))
    for f, v in pairs:
        ft = f['type']
        if f['bits'] is not None or ft['k'] in LEAF_KINDS:
            setattr(sub, f['name'], v)
        elif is_flexfield(f):
            base = ffi.cast('char *', ffi.addressof(sub)) + ffi.offsetof(ffi.typeof(sub), f['name'])
            fa = ffi.cast(ffi.getctype(G.render_type(ft['of']), '*'), base)
            model_array(ffi, fa, ft['of'], v, aggs)
        else:
            model_fill(ffi, getattr(sub, f['name']), ft, v, aggs)


def model_array(ffi, sub, of, init, aggs, n=None):
    """sub: array cdata or pointer to the first item; n: declared length (None:
    open-ended, the allocation was sized from the initializer).  A bytes / str
    initializer shorter than the array carries its terminating zero item (it
    only shows when a dict initializer also sets an overlapping union member)"""
    if isinstance(init, (list, tuple)):
        for i, v in enumerate(init):
            if of['k'] in LEAF_KINDS:
                sub[i] = v
            else:
                model_fill(ffi, sub[i], of, v, aggs)
    elif isinstance(init, bytes):
        if of['k'] != 'prim' or of['name'] not in BYTE_ITEMS:
            raise Bad('model: bytes for %r' % (of,))
        if n is None or len(init) < n:
            init = init + b'\0'
        if init:
            raw(ffi, sub, len(init))[:] = init
    elif isinstance(init, str):
        enc = init.encode(WIDE[of['name']], 'surrogatepass')
        if n is None or units(of['name'], init) < n:
            enc += b'\0' * (2 if of['name'] == 'char16_t' else 4)
        if enc:
            raw(ffi, sub, len(enc))[:] = enc
    elif isinstance(init, ffi.CData):
        b = bytes(ffi.buffer(init))
        if b:
            raw(ffi, sub, len(b))[:] = b
    elif isinstance(init, (int, IndexLen)):
        pass                              # a length only: nothing is written
    else:
        raise Bad('model_array: unexpected %r' % (init,))


def run_model(ffi, ctype, size, t, init, aggs):
    """-> ('ok', bytes) | ('unmodelled', why) | ('exc', type, text)"""
    mem = bytearray(size)
    try:
        tgt = ffi.from_buffer(ctype, mem)
        if t['k'] == 'array':
            model_array(ffi, tgt, t['of'], init, aggs, t['n'])
        else:
            model_fill(ffi, tgt[0], t, init, aggs)
        del tgt
        return ('ok', bytes(mem))
    except Unmodelled as e:
        return ('unmodelled', str(e))
    except Bad:
        raise
    except Exception as e:
        return ('exc', type(e).__name__, str(e)[:120])


def judge_model(rep, suffix, A, M, what, seed):
    """A: run_path result with bytes; M: run_model result"""
    if M[0] == 'unmodelled':
        rep.stat('model_unmodelled')
        return
    if M[0] == 'exc':
        rep.stat('model_raised')
        return
    rep.stat('model_compared')
    if A[0] != 'ok':
        rep.bad('valid-initializer-rejected' + suffix, '%s: ffi.new raised %r, leaf-wise assignment '
                'of the same initializer into zero memory succeeds' % (what, A[1:]), seed)
    elif A[1] != M[1]:
        rep.bad('new-vs-leafwise' + suffix, '%s: new -> %s, leaf-wise into zero memory -> %s' %
                (what, A[1].hex(), M[1].hex()), seed)


def run_path(fn):
    try:
        return ('ok', fn())
    except Bad:
        raise
    except Exception as e:
        return ('exc', type(e).__name__, str(e)[:120])


def irepr(x):
    r = repr(x)
    return r if len(r) < 300 else r[:300] + '...'


# ---------------------------------------------------------------------------
# the other entry points that end in direct_newp

ENTRY_KINDS = ['ctype-object', 'clevel-new', 'alloc-default', 'clevel-alloc-default',
               'alloc-noclear', 'alloc-custom', 'clevel-alloc-custom',
               'alloc-custom-noclear-zeroed']


def alt_entry(ffi, rnd, rep, ctype, init, A, what, seed, noinit=False):
    """Create the same object through another entry point; A is ffi.new's
    result ('ok', bytes) / ('exc', ...).  noinit: call without initializer."""
    import _cffi_backend
    kind = rnd.choice(ENTRY_KINDS)
    ct = ffi.typeof(ctype)
    backing = []
    garbage = kind != 'alloc-custom-noclear-zeroed'

    def myalloc(n):
        b = ffi.new('char[]', n)
        if garbage and n:
            ffi.buffer(b)[:] = b'\xa5' * n
        backing.append((n, b))
        return b
    freed = []

    def myfree(b):
        freed.append(1)
    cf = _cffi_backend.FFI()
    if kind == 'ctype-object':
        fn = ffi.new
    elif kind == 'clevel-new':
        fn = cf.new
    elif kind == 'alloc-default':
        fn = ffi.new_allocator()
    elif kind == 'clevel-alloc-default':
        fn = cf.new_allocator(should_clear_after_alloc=True)
    elif kind == 'alloc-noclear':
        fn = ffi.new_allocator(should_clear_after_alloc=False)
    elif kind == 'alloc-custom':
        fn = ffi.new_allocator(myalloc, myfree)
    elif kind == 'clevel-alloc-custom':
        fn = cf.new_allocator(alloc=myalloc, free=myfree, should_clear_after_alloc=True)
    else:
        fn = ffi.new_allocator(myalloc, myfree, should_clear_after_alloc=False)
    if not kind.startswith('clevel') and isinstance(ctype, str) and rnd.random() < 0.5:
        ct = ctype                      # the Python-level wrappers also take the type as text
        rep.stat('entry_type_as_text')
    R = run_path((lambda: fn(ct)) if noinit else (lambda: fn(ct, init)))
    rep.stat('entry_' + kind)
    if A[0] != 'ok':
        if R[0] == 'ok' or R[1] != A[1]:
            rep.bad('entry-point-differs:' + kind, '%s: ffi.new -> %r, %s -> %r' %
                    (what, A[:2], kind, R[:2]), seed)
        return
    if R[0] != 'ok':
        rep.bad('entry-point-differs:' + kind, '%s: ffi.new succeeds, %s raised %r' %
                (what, kind, R[1:]), seed)
        return
    obj = R[1]
    if backing:
        n, b = backing[-1]
        got = bytes(ffi.buffer(b))
        if n != len(A[1]):
            rep.bad('entry-point-allocation-size:' + kind, '%s: alloc() was asked for %d bytes, '
                    'ffi.new allocates %d' % (what, n, len(A[1])), seed)
            return
    else:
        got = bytes(ffi.buffer(obj))
        if len(got) != len(A[1]):
            rep.bad('entry-point-allocation-size:' + kind, '%s: %d bytes, ffi.new allocates %d' %
                    (what, len(got), len(A[1])), seed)
            return
    if kind == 'alloc-noclear':
        return                          # content outside the initializer is unspecified
    if got != A[1]:
        rep.bad('entry-point-differs:' + kind, '%s: ffi.new -> %s, %s -> %s' %
                (what, A[1].hex(), kind, got.hex()), seed)
    del obj, R


ALT_RATE = 0.4


# ---------------------------------------------------------------------------

def child_case(st, case):
    import random
    from cffi import FFI
    rep = core.ChildRep()
    for seed in case['seeds']:
        rnd = random.Random(seed)
        ffi = FFI()
        if case.get('flex_overflow'):
            flex_overflow_probe(ffi, rnd, rep)
            continue
        if case.get('flex_cdata'):
            flex_cdata_probe(rnd, rep, seed)
            continue
        g = G.Gen(rnd, prefix='t', complex_ok=True, longdouble_ok=False)
        top = g.toplevel(allow_packed=False)
        wrappers = []
        if top['flex']:
            vary_flex_item(rnd, g, top)
            if rnd.random() < 0.4:
                wrappers = wrap_flex(rnd, g, top)
        aggs = {a['name']: a for a in g.decls}
        text = '\n'.join(G.render_decl_c(a) for a in g.decls)
        try:
            ffi.cdef(text)
        except Exception as e:
            rep.bad('harness-cdef', 'cdef rejected: %s :: %s' % (e, text[:300]), seed)
            continue
        tag = '%s %s' % (top['kind'], top['name'])
        T = {'k': 'agg', 'name': top['name'], 'kind': top['kind']}
        try:
            if top['flex']:
                if rnd.random() < 0.15:
                    do_flex_invalid(ffi, rnd, rep, top, wrappers, aggs, text, seed)
                else:
                    do_flex(ffi, rnd, rep, top, wrappers, aggs, text, seed)
            else:
                mode = rnd.choice(['single', 'single', 'dictmode', 'array', 'invalid', 'empty',
                                   'primarray', 'openarray', 'primptr', 'openprim'])
                do_fixed(ffi, rnd, rep, top, tag, T, aggs, text, seed, mode)
        except Bad as e:
            rep.bad('harness-model', '%s :: %s' % (e, text[:300]), seed)
    return rep.result()


def vary_flex_item(rnd, g, top):
    """the generator only makes flexible arrays of primitives: sometimes make
    the items pointers, fixed arrays or (non-flexible) aggregates"""
    r = rnd.random()
    flex = top['fields'][-1]
    named = [d for d in g.decls if d is not top and not d.get('flex')]
    if r < 0.2 and named:
        d = rnd.choice(named)
        flex['type']['of'] = {'k': 'agg', 'name': d['name'], 'kind': d['kind']}
    elif r < 0.08:
        flex['type']['of'] = {'k': 'ptr', 'to': g.prim()}
    elif r < 0.2:
        flex['type']['of'] = {'k': 'array', 'of': g.prim(), 'n': rnd.choice([1, 2, 3])}
    elif r < 0.45:
        flex['type']['of'] = {'k': 'prim', 'name': rnd.choice(
            ['char', 'unsigned char', '_Bool', 'wchar_t', 'char16_t', 'char32_t'])}


def wrap_flex(rnd, g, top):
    """1-2 enclosing structs (last member) or unions (first or last member)
    that contain the variable-sized struct; w['vin'] names that member"""
    out = []
    inner = top
    for lv in range(rnd.choice([1, 1, 2])):
        pre = [{'name': 'k%d_%d' % (lv, i), 'bits': None,
                'type': {'k': 'prim', 'name': rnd.choice(['char', 'short', 'int', 'long long',
                                                          'double'])}}
               for i in range(rnd.randint(0, 2))]
        vin = {'name': 'vin%d' % lv, 'bits': None,
               'type': {'k': 'agg', 'name': inner['name'], 'kind': inner['kind']}}
        kind = 'union' if rnd.random() < 0.25 else 'struct'
        fields = [vin] + pre if kind == 'union' and rnd.random() < 0.5 else pre + [vin]
        outer = {'kind': kind, 'name': 'w%d' % lv, 'packed': None, 'flex': False,
                 'varwrap': True, 'vin': vin['name'], 'fields': fields}
        g.decls.append(outer)
        out.append(outer)
        inner = outer
    return out


def do_fixed(ffi, rnd, rep, top, tag, T, aggs, text, seed, mode):
    size = ffi.sizeof(tag)
    if mode == 'empty':
        p = ffi.new(tag + ' *')
        a = ffi.new(tag + '[3]')
        rep.case(('empty', text), nontrivial=False)
        rep.stat('mode_empty')
        if bytes(ffi.buffer(p)) != b'\0' * size or bytes(ffi.buffer(a)) != b'\0' * (3 * size):
            rep.bad('not-zero-filled', 'ffi.new(%r) without initializer is not all zero' % tag, seed)
        if rnd.random() < ALT_RATE:
            alt_entry(ffi, rnd, rep, tag + ' *', None, ('ok', b'\0' * size),
                      '%s without initializer :: %s' % (tag, text[:300]), seed, noinit=True)
        return
    if mode == 'primptr':
        return do_primptr(ffi, rnd, rep, aggs, seed)
    if mode == 'openprim':
        return do_openprim(ffi, rnd, rep, aggs, seed)
    if mode == 'primarray':
        name = rnd.choice(['int', 'short', 'unsigned char', 'double', 'char', 'long long',
                           'signed char', '_Bool', 'wchar_t', 'char16_t', 'char32_t', 'uint8_t',
                           'float _Complex', 'void *'])
        n = rnd.randint(0, 9)
        of = {'k': 'ptr', 'to': {'k': 'prim', 'name': 'void'}} if name == 'void *' else \
            {'k': 'prim', 'name': name}
        t = {'k': 'array', 'of': of, 'n': n}
        isz = ffi.sizeof(name)
        ct = '%s[%d]' % (name, n)
        invalid = rnd.random() < 0.12
        if invalid:
            # one item / character too many; _Bool: a byte that is not 0 / 1
            if name == '_Bool' and n and rnd.random() < 0.5:
                init = b'\1' * (n - 1) + b'\2'
            elif name in BYTE_ITEMS and rnd.random() < 0.5:
                init = byte_text(rnd, name, n + 1)
            elif name in WIDE and rnd.random() < 0.5:
                init = 'x' * (n + 1)
            else:
                init = [make_init(ffi, rnd, of, aggs) for _ in range(n + 1)]
        else:
            init = make_init(ffi, rnd, t, aggs)
        A = run_path(lambda: bytes(ffi.buffer(ffi.new(ct, init))))

        def pathB():
            pp = ffi.new('%s(*)[%d]' % (name, n))
            pp[0] = init
            return bytes(ffi.buffer(pp))
        B = run_path(pathB)
        what = '%s init %s' % (ct, irepr(init))
        rep.case((ct, irepr(init)), nontrivial=not isinstance(init, ffi.CData) and len(init) >= 2,
                 sample={'type': ct, 'init': irepr(init)})
        rep.stat('mode_primarray')
        rep.stat('primarray_init_' + ('toolong' if invalid else
                                      'cdata' if isinstance(init, ffi.CData) else
                                      type(init).__name__))
        if A != B:
            rep.bad('new-vs-assign:array', '%s: new -> %r, assignment -> %r' % (what, A, B), seed)
        if invalid:
            if A[0] == 'ok':
                rep.bad('invalid-array-initializer-accepted', '%s: accepted' % what, seed)
            return
        judge_model(rep, ':array', A, run_model(ffi, ct, n * isz, t, init, aggs), what, seed)
        if rnd.random() < ALT_RATE:
            alt_entry(ffi, rnd, rep, ct, init, A, what, seed)
        return
    if mode == 'invalid':
        fields = flat_fields(top)
        kind = rnd.choice(['toomany', 'unknownkey', 'wrongtype'])
        if kind == 'toomany':
            init = [0] * (len(fields) + 1 + (1 if top['kind'] == 'union' else 0))
            if top['kind'] == 'union':
                init = [0, 0]
        elif kind == 'unknownkey':
            init = {'no_such_field_zz': 1}
        else:
            init = rnd.choice(['a string', 3.5, object(), 7])
        A = run_path(lambda: bytes(ffi.buffer(ffi.new(tag + ' *', init))))

        def pathB():
            p = ffi.new(tag + ' *')
            p[0] = init
            return bytes(ffi.buffer(p))
        B = run_path(pathB)
        rep.case((text, 'invalid', kind), sample={'decl': text[:200], 'invalid_init': irepr(init)})
        rep.stat('mode_invalid_' + kind)
        if A[0] == 'ok' or B[0] == 'ok' or A[1] != B[1]:
            if not (A[0] == 'ok' and B[0] == 'ok' and A == B and kind == 'toomany'):
                rep.bad('invalid-initializer-differs', '%s invalid init %s: new -> %r, assignment '
                        '-> %r :: %s' % (tag, irepr(init), A[:2], B[:2], text[:300]), seed)
        if rnd.random() < ALT_RATE:
            alt_entry(ffi, rnd, rep, tag + ' *', init, A,
                      '%s invalid init %s :: %s' % (tag, irepr(init), text[:300]), seed)
        return
    if mode == 'openarray':
        # open-ended array created from an initializer: items that the
        # initializer only partly covers must still be zero elsewhere
        kind = rnd.choice(['agg', 'agg', 'int3', 'char8'])
        m = rnd.randint(1, 4)
        if kind == 'agg':
            ct_open = ffi.getctype(ffi.typeof(tag), '[]')
            inits = [make_agg_init(ffi, rnd, top, aggs, 0, rnd.random() < 0.5)
                     for _ in range(m)]
            isz = size
            of = T
        elif kind == 'int3':
            ct_open, isz = 'int[][3]', 12
            inits = [[rnd.randint(1, 9) for _ in range(rnd.randint(0, 3))] for _ in range(m)]
            of = {'k': 'array', 'of': {'k': 'prim', 'name': 'int'}, 'n': 3}
        else:
            ct_open, isz = 'char[][8]', 8
            inits = [bytes(rnd.randrange(1, 256) for _ in range(rnd.randint(0, 8)))
                     for _ in range(m)]
            of = {'k': 'array', 'of': {'k': 'prim', 'name': 'char'}, 'n': 8}
        if rnd.random() < 0.3:
            inits = tuple(inits)
        A = run_path(lambda: bytes(ffi.buffer(ffi.new(ct_open, inits))))

        def pathB():
            arr = ffi.new(ct_open, m)
            for i, it in enumerate(inits):
                arr[i] = it
            return bytes(ffi.buffer(arr))
        B = run_path(pathB)
        what = '%s init %s :: %s' % (ct_open, irepr(inits), text[:300] if kind == 'agg' else '')
        rep.case((text if kind == 'agg' else kind, 'openarray', irepr(inits)),
                 sample={'type': str(ct_open), 'inits': irepr(inits)})
        rep.stat('mode_openarray_' + kind)
        if A != B:
            rep.bad('new-vs-assign:open-array', '%s: new -> %r, length-only new + item '
                    'assignment -> %r' % (what, A, B), seed)
        if A[0] == 'ok' and len(A[1]) != m * isz:
            rep.bad('open-array-allocation-size', '%s: %d bytes for %d items of %d bytes' %
                    (what, len(A[1]), m, isz), seed)
        judge_model(rep, ':open-array', A,
                    run_model(ffi, ct_open, isz * m, {'k': 'array', 'of': of, 'n': None}, inits,
                              aggs), what, seed)
        if rnd.random() < ALT_RATE:
            alt_entry(ffi, rnd, rep, ct_open, inits, A, what, seed)
        return
    if mode == 'array':
        n = rnd.randint(1, 4)
        m = rnd.randint(0, n)
        inits = [make_agg_init(ffi, rnd, top, aggs, 0, False) for _ in range(m)]
        ct = ffi.getctype(ffi.typeof(tag), '[%d]' % n)
        A = run_path(lambda: bytes(ffi.buffer(ffi.new(ct, inits))))

        def pathB():
            pp = ffi.new(ffi.getctype(ffi.typeof(tag), '(*)[%d]' % n))
            pp[0] = inits
            return bytes(ffi.buffer(pp))

        def pathB2():
            arr = ffi.new(ct)
            for i, it in enumerate(inits):
                arr[i] = it
            return bytes(ffi.buffer(arr))
        B, B2 = run_path(pathB), run_path(pathB2)
        what = '%s init %s :: %s' % (ct, irepr(inits), text[:300])
        rep.case((text, 'array', n, irepr(inits)), sample={'decl': text[:200], 'n': n,
                                                           'inits': irepr(inits)})
        rep.stat('mode_array')
        if A != B or (A[0] == 'ok' and B2 != A):
            rep.bad('new-vs-assign:array-of-aggregates', '%s: new -> %r, ptr-to-array '
                    'assignment -> %r, item assignment -> %r' % (what, A, B, B2), seed)
        if A[0] == 'ok' and A[1][m * size:].strip(b'\0'):
            rep.bad('not-zero-filled', '%s: elements after the initializer are not zero' % ct, seed)
        judge_model(rep, ':array-of-aggregates', A,
                    run_model(ffi, ct, n * size, {'k': 'array', 'of': T, 'n': n}, inits, aggs),
                    what, seed)
        if rnd.random() < ALT_RATE:
            alt_entry(ffi, rnd, rep, ct, inits, A, what, seed)
        return
    dictmode = mode == 'dictmode'
    init = make_agg_init(ffi, rnd, top, aggs, 0, dictmode)
    A = run_path(lambda: bytes(ffi.buffer(ffi.new(tag + ' *', init))))

    def pathB():
        p = ffi.new(tag + ' *')
        p[0] = init
        return bytes(ffi.buffer(p))
    B = run_path(pathB)
    nleaves = len(init) if isinstance(init, (list, tuple, dict)) else 1
    what = '%s init %s :: %s' % (tag, irepr(init), text[:400])
    rep.case((text, irepr(init)), nontrivial=nleaves >= 2,
             sample={'decl': text[:300], 'init': irepr(init)})
    rep.stat('mode_' + mode)
    rep.stat('init_' + type(init).__name__)
    if isinstance(init, (list, tuple)) and any(f['type']['k'] == 'anon' for f in top['fields']):
        rep.stat('init_positional_across_anonymous')
    if A != B:
        rep.bad('new-vs-assign', '%s: new -> %r, assignment -> %r' % (what, A, B), seed)
    M = run_model(ffi, tag + ' *', size, T, init, aggs)
    if M[0] == 'ok':
        rep.stat('leafwise_compared')
    judge_model(rep, '', A, M, what, seed)
    if A[0] == 'ok' and isinstance(init, (list, tuple, dict)) and len(init) == 0:
        if A[1].strip(b'\0'):
            rep.bad('not-zero-filled', '%s with empty initializer is not all zero' % tag, seed)
    if rnd.random() < ALT_RATE:
        alt_entry(ffi, rnd, rep, tag + ' *', init, A, what, seed)


PTR_ITEMS = ['void *', 'int *', 'char * *', 'int(*)(int)', 'double *']


def do_primptr(ffi, rnd, rep, aggs, seed):
    """ffi.new('T *', value) for primitive and pointer T"""
    name = rnd.choice(G.PRIMS[:13] + G.PRIMS[14:] + PTR_ITEMS)
    if name in PTR_ITEMS:
        v = rnd.choice([ffi.NULL, ffi.cast(name, rnd.getrandbits(40))])
    else:
        v = prim_value(ffi, rnd, name)
    ct = ffi.getctype(name, '*')
    size = ffi.sizeof(name)
    noinit = rnd.random() < 0.2
    if noinit:
        A = run_path(lambda: bytes(ffi.buffer(ffi.new(ct))))
        what = '%s without initializer' % ct
        rep.case(('primptr', ct, None), nontrivial=False)
        if A != ('ok', b'\0' * size):
            rep.bad('not-zero-filled', '%s: %r' % (what, A), seed)
    else:
        A = run_path(lambda: bytes(ffi.buffer(ffi.new(ct, v))))

        def pathB():
            p = ffi.new(ct)
            p[0] = v
            return bytes(ffi.buffer(p))
        B = run_path(pathB)
        what = '%s init %s' % (ct, irepr(v))
        rep.case(('primptr', ct, irepr(v)), sample={'type': ct, 'init': irepr(v)})
        if A != B:
            rep.bad('new-vs-assign:pointer-to-scalar', '%s: new -> %r, assignment -> %r' %
                    (what, A, B), seed)
        mem = bytearray(size)

        def model():
            ffi.from_buffer(ct, mem)[0] = v
            return bytes(mem)
        M = run_path(model)
        judge_model(rep, ':pointer-to-scalar', A, M, what, seed)
    rep.stat('mode_primptr')
    rep.stat('primptr_noinit' if noinit else 'primptr_init')
    if rnd.random() < ALT_RATE and A[0] == 'ok':
        # (the allocation of a pointer to a character type holds one extra
        # item: only the bytes are compared, see alt_entry_scalar)
        alt_entry_scalar(ffi, rnd, rep, ct, v, A, what, seed, noinit)


def alt_entry_scalar(ffi, rnd, rep, ct, v, A, what, seed, noinit):
    import _cffi_backend
    kind = rnd.choice(['ctype-object', 'clevel-new', 'alloc-default', 'clevel-alloc-default'])
    cf = _cffi_backend.FFI()
    fn = {'ctype-object': ffi.new, 'clevel-new': cf.new,
          'alloc-default': ffi.new_allocator(),
          'clevel-alloc-default': cf.new_allocator(should_clear_after_alloc=True)}[kind]
    cto = ffi.typeof(ct)
    R = run_path((lambda: bytes(ffi.buffer(fn(cto)))) if noinit else
                 (lambda: bytes(ffi.buffer(fn(cto, v)))))
    rep.stat('entry_' + kind)
    if R != A:
        rep.bad('entry-point-differs:' + kind, '%s: ffi.new -> %r, %s -> %r' % (what, A, kind, R),
                seed)


OPEN_ITEMS = ['int', 'short', 'unsigned char', 'double', 'char', 'long long', 'signed char',
              '_Bool', 'wchar_t', 'char16_t', 'char32_t', 'uint8_t', 'unsigned int',
              'double _Complex', 'void *']


def do_openprim(ffi, rnd, rep, aggs, seed):
    """ffi.new('T[]', length | list | tuple | bytes | str | object with __index__)"""
    name = rnd.choice(OPEN_ITEMS)
    of = {'k': 'ptr', 'to': {'k': 'prim', 'name': 'void'}} if name == 'void *' else \
        {'k': 'prim', 'name': name}
    isz = ffi.sizeof(name)
    ct = name + '[]'
    forms = ['len', 'len', 'list', 'list', 'tuple', 'indexlen', 'badlen']
    if name in BYTE_ITEMS:
        forms += ['bytes'] * 4
    if name in WIDE:
        forms += ['str'] * 6
    form = rnd.choice(forms)
    n = rnd.choice([0, 1, 2, 3, 5, 8, 17, 64])
    rep.stat('mode_openprim')
    rep.stat('openprim_' + form)
    if form == 'badlen':
        if isz >= 2 and rnd.random() < 0.5:
            init, must = 1 << 62, True       # item size * length overflows ssize_t
        else:
            init, must = rnd.choice([-1, -(1 << 63), 1 << 64, 2.5, None]), False
            if init is None:
                init = object()
        A = run_path(lambda: len(ffi.new(ct, init)))
        rep.case(('openprim', ct, 'badlen', irepr(init) if must else type(init).__name__),
                 nontrivial=False)
        if A[0] == 'ok':
            rep.bad('overflowing-length-accepted' if must else 'invalid-length-accepted',
                    'ffi.new(%r, %s) returned an array of length %r' % (ct, irepr(init), A[1]), seed)
        return
    if form == 'len':
        init, L = n, n
    elif form == 'indexlen':
        init, L = IndexLen(n), n
    elif form in ('list', 'tuple'):
        init = [make_init(ffi, rnd, of, aggs) for _ in range(n)]
        if form == 'tuple':
            init = tuple(init)
        L = n
    elif form == 'bytes':
        init = byte_text(rnd, name, n)
        L = n + 1
    else:
        init = wide_text(rnd, name, n)
        L = units(name, init) + 1
    what = '%s init %s' % (ct, irepr(init))
    rep.case(('openprim', ct, irepr(init)), nontrivial=L >= 2, sample={'type': ct,
                                                                       'init': irepr(init)})
    P = run_path(lambda: ffi.new(ct, init))
    if P[0] != 'ok':
        rep.bad('valid-initializer-rejected:open-array', '%s raised %r' % (what, P[1:]), seed)
        return
    p = P[1]
    if len(p) != L or ffi.sizeof(p) != L * isz or len(ffi.buffer(p)) != L * isz:
        rep.bad('open-array-allocation-size', '%s: len %d, sizeof %d, buffer %d; expected %d items '
                'of %d bytes' % (what, len(p), ffi.sizeof(p), len(ffi.buffer(p)), L, isz), seed)
        return
    A = ('ok', bytes(ffi.buffer(p)))
    if form not in ('len', 'indexlen') and L > 0:
        def pathB():
            pp = ffi.new('%s(*)[%d]' % (name, L))
            pp[0] = init
            return bytes(ffi.buffer(pp))
        B = run_path(pathB)
        if A != B:
            rep.bad('new-vs-assign:open-array', '%s: new -> %r, assignment to a %s[%d] -> %r' %
                    (what, A, name, L, B), seed)
    judge_model(rep, ':open-array', A,
                run_model(ffi, ct, L * isz, {'k': 'array', 'of': of, 'n': None}, init, aggs),
                what, seed)
    if rnd.random() < ALT_RATE:
        alt_entry(ffi, rnd, rep, ct, init, A, what, seed)


# ---------------------------------------------------------------------------
# flexible-array structs

def flex_array_init(ffi, rnd, of, aggs):
    """-> (form, initializer for the flexible member or None when absent,
    number of items the allocation must hold)"""
    forms = ['len', 'len', 'list', 'list', 'list', 'tuple', 'absent', 'indexlen']
    name = of['name'] if of['k'] == 'prim' else None
    if name in BYTE_ITEMS:
        forms += ['bytes'] * 4
    if name in WIDE:
        forms += ['str'] * 4
    form = rnd.choice(forms)
    k = rnd.choice([0, 1, 2, 3, 7, 20])
    if form == 'len':
        return form, k, k
    if form == 'indexlen':
        return form, IndexLen(k), k
    if form == 'absent':
        return form, None, 0
    if form == 'bytes':
        return form, byte_text(rnd, name, k), k + 1
    if form == 'str':
        s = wide_text(rnd, name, k)
        return form, s, units(name, s) + 1
    items = [make_init(ffi, rnd, of, aggs) for _ in range(k)]
    return form, (items if form == 'list' else tuple(items)), k


def agg_init_with_last(ffi, rnd, agg, aggs, lastname, lastval, positional_ok=True):
    """initializer of `agg` (dict or positional) in which member `lastname`
    gets `lastval` (positional only when it is the last constructor field);
    lastval None: the member is not mentioned"""
    cf = ctor_fields(agg)
    others = [f for f in flat_fields(agg) if f['name'] != lastname]
    if positional_ok and cf is not None and cf and cf[-1]['name'] == lastname and \
            rnd.random() < 0.45:
        if lastval is None:
            k = rnd.randint(0, len(cf) - 1)
            vals = [field_value(ffi, rnd, f, aggs, 0, False) for f in cf[:k]]
        else:
            vals = [field_value(ffi, rnd, f, aggs, 0, False) for f in cf[:-1]] + [lastval]
        return ('positional', vals if rnd.random() < 0.6 else tuple(vals))
    if agg['kind'] == 'union':
        pick = []
    else:
        pick = [f for f in others if rnd.random() < 0.6]
    init = {f['name']: field_value(ffi, rnd, f, aggs, 0, rnd.random() < 0.5) for f in pick}
    if lastval is not None:
        if rnd.random() < 0.5:
            init[lastname] = lastval
        else:
            init = dict([(lastname, lastval)] + list(init.items()))
    return ('dict', init)


def flex_geometry(ffi, top, wrappers):
    flex = top['fields'][-1]
    of = flex['type']['of']
    tag = 'struct ' + top['name']
    isz = ffi.sizeof(G.render_type(of))
    off = ffi.offsetof(tag, flex['name'])

    def want(k):
        size = max(ffi.sizeof(tag), off + k * isz)
        for w in wrappers:
            wt = '%s %s' % (w['kind'], w['name'])
            size = max(ffi.sizeof(wt), ffi.offsetof(wt, w['vin']) + size)
        return size
    return flex, of, want


def do_flex(ffi, rnd, rep, top, wrappers, aggs, text, seed):
    flex, of, want_of = flex_geometry(ffi, top, wrappers)
    outer = wrappers[-1] if wrappers else top
    otag = '%s %s' % (outer['kind'], outer['name'])
    OT = {'k': 'agg', 'name': outer['name'], 'kind': outer['kind']}
    form, arr, k = flex_array_init(ffi, rnd, of, aggs)
    shape, init = agg_init_with_last(ffi, rnd, top, aggs, flex['name'], arr)
    shapes = [shape]
    sizing = None if arr is None else {flex['name']: k}
    cdata_inner = False
    for w in wrappers:
        last = w['vin']
        if not cdata_inner and rnd.random() < 0.12:
            # the variable-sized inner struct given as a cdata: only its fixed
            # part is copied, the allocation is not enlarged
            inner_tag = G.render_type(field_by_name(w, last)['type'])
            inner_init = init
            I = run_path(lambda: ffi.new(inner_tag + ' *', inner_init)[0])
            if I[0] != 'ok':
                rep.bad('flex-new-raised', '%s init %s raised %r :: %s' %
                        (inner_tag, irepr(init), I[1:], text[:300]), seed)
                return
            init = I[1]
            cdata_inner = True
        shape, init = agg_init_with_last(ffi, rnd, w, aggs, last, init)
        shapes.append(shape)
        sizing = None if sizing is None else {last: sizing}
    if cdata_inner:
        k, sizing = 0, None
    want = want_of(k)
    what = '%s init %s :: %s' % (otag, irepr(init), text[:300])
    A = run_path(lambda: ffi.new(otag + ' *', init))
    rep.case((text, 'flex', irepr(init)), sample={'decl': text[:300], 'init': irepr(init)})
    rep.stat('flex_length_init' if form in ('len', 'indexlen') else 'flex_items_init')
    rep.stat('flex_form_' + form)
    rep.stat('flex_item_' + of['k'])
    rep.stat('flex_nesting_%d' % len(wrappers))
    if any(w['kind'] == 'union' for w in wrappers):
        rep.stat('flex_nested_in_union')
    for s in set(shapes):
        rep.stat('flex_shape_' + s)
    if cdata_inner:
        rep.stat('flex_inner_as_cdata')
    if A[0] != 'ok':
        rep.bad('flex-new-raised', '%s raised %r' % (what, A[1:]), seed)
        return
    p = A[1]
    if ffi.sizeof(p[0]) != want or len(ffi.buffer(p)) != want:
        rep.bad('flex-allocation-size', '%s with %d flexible items: sizeof(p[0])=%d, '
                'len(buffer)=%d, expected %d' % (what, k, ffi.sizeof(p[0]),
                                                 len(ffi.buffer(p)), want), seed)
        return
    # the member's length is derived from the allocated size, so tail padding
    # of the struct can make it larger than k; it must hold at least k items
    if not wrappers and len(getattr(p, flex['name'])) < k:
        rep.bad('flex-length', 'flexible member has length %d, initializer had %d items' %
                (len(getattr(p, flex['name'])), k), seed)
    Ab = ('ok', bytes(ffi.buffer(p)))
    # path B: target allocated with a length-only initializer, then assigned
    q = ffi.new(otag + ' *', sizing) if sizing is not None else ffi.new(otag + ' *')
    if len(ffi.buffer(q)) != want:
        rep.bad('flex-allocation-size', '%s: length-only initializer %r allocates %d, expected %d'
                % (otag, sizing, len(ffi.buffer(q)), want), seed)
        return
    if bytes(ffi.buffer(q)).strip(b'\0'):
        rep.bad('not-zero-filled', '%s with length-only initializer %r is not all zero' %
                (otag, sizing), seed)
    B = run_path(lambda: q.__setitem__(0, init))
    if B[0] != 'ok':
        rep.bad('flex-assign-raised', '%s: p[0] = ... raised %r' % (what, B[1:]), seed)
    elif bytes(ffi.buffer(q)) != Ab[1]:
        rep.bad('new-vs-assign:flex', '%s: new -> %s, assignment -> %s' %
                (what, Ab[1].hex(), bytes(ffi.buffer(q)).hex()), seed)
    # path C
    judge_model(rep, ':flex', Ab, run_model(ffi, otag + ' *', want, OT, init, aggs), what, seed)
    if rnd.random() < ALT_RATE:
        alt_entry(ffi, rnd, rep, otag + ' *', init, Ab, what, seed)


def do_flex_invalid(ffi, rnd, rep, top, wrappers, aggs, text, seed):
    """lengths / items the flexible member cannot take"""
    flex, of, want_of = flex_geometry(ffi, top, wrappers)
    outer = wrappers[-1] if wrappers else top
    otag = '%s %s' % (outer['kind'], outer['name'])
    kind = rnd.choice(['overflow', 'overflow', 'negative', 'huge', 'notalength', 'baditem',
                       'unknownkey'])
    fit = 2
    if kind == 'overflow':
        arr = (1 << 63) - 1
    elif kind == 'negative':
        arr = rnd.choice([-1, -(1 << 63)])
    elif kind == 'huge':
        arr = rnd.choice([1 << 63, 1 << 64])
    elif kind == 'notalength':
        arr = rnd.choice([2.5, object(), {}])
    elif kind == 'baditem':
        arr = [object(), object()]
    else:
        arr = 2
    init = {flex['name']: arr}
    if kind == 'unknownkey':
        init['no_such_field_zz'] = 1
    sizing = {flex['name']: fit}
    for w in wrappers:
        last = w['vin']
        cf = ctor_fields(w)
        init = {last: init} if rnd.random() < 0.6 or cf[-1]['name'] != last else \
            [field_value(ffi, rnd, f, aggs, 0, False) for f in cf[:-1]] + [init]
        sizing = {last: sizing}
    what = '%s invalid init %s :: %s' % (otag, irepr(init), text[:300])
    A = run_path(lambda: len(ffi.buffer(ffi.new(otag + ' *', init))))

    def pathB():
        q = ffi.new(otag + ' *', sizing)
        q[0] = init
        return len(ffi.buffer(q))
    B = run_path(pathB)
    rep.case((text, 'flex-invalid', kind, len(wrappers)),
             sample={'decl': text[:200], 'invalid_init': irepr(init)})
    rep.stat('flex_invalid_' + kind)
    if A[0] == 'ok':
        rep.bad('overflowing-length-accepted' if kind == 'overflow' else
                'invalid-initializer-differs', '%s: ffi.new returned an object of %r bytes, '
                'assignment -> %r' % (what, A[1], B[:2]), seed)
    elif kind != 'overflow' and (B[0] == 'ok' or B[1] != A[1]):
        rep.bad('invalid-initializer-differs', '%s: new -> %r, assignment -> %r' %
                (what, A[:2], B[:2]), seed)
    if rnd.random() < ALT_RATE and A[0] != 'ok':
        alt_entry(ffi, rnd, rep, otag + ' *', init, A, what, seed)


def flex_overflow_probe(ffi, rnd, rep):
    """Recorded finding: assigning more items than allocated to the flexible
    array member of an owned struct is not checked (1 item too many: lands in
    the ASan red zone)."""
    f2 = FFI2()
    q = f2.new('struct fxp *', {'a': 2})
    rep.case(('flex_overflow_probe', rnd.random()), sample={'probe': 'struct fxp {int n; short a[];}; '
                                                            "q = new(.., {'a': 2}); q.a = [1, 2, 3]"})
    rep.case(('flex_overflow_probe2', rnd.random()))
    try:
        q.a = [1, 2, 3]
        rep.stat('flex_overflow_probe_accepted')
    except Exception:
        rep.stat('flex_overflow_probe_rejected')


def flex_cdata_probe(rnd, rep, seed):
    """a cdata struct as the initializer of a struct with a flexible array:
    assignment copies the fixed part; ffi.new must do the same"""
    f2 = FFI2()
    src = f2.new('struct fxp *', {'n': 7, 'a': 3})
    A = run_path(lambda: bytes(f2.buffer(f2.new('struct fxp *', src[0]))))

    def pathB():
        q = f2.new('struct fxp *')
        q[0] = src[0]
        return bytes(f2.buffer(q))
    B = run_path(pathB)
    rep.case(('flex_cdata_probe', rnd.random()),
             sample={'probe': "struct fxp {int n; short a[];}; src = new(.., {'n': 7, 'a': 3}); "
                              "new('struct fxp *', src[0])"})
    rep.stat('flex_cdata_probe')
    if A != B:
        rep.bad('flex-new-rejects-cdata-struct', "struct fxp { int n; short a[]; }; src = "
                "ffi.new('struct fxp *', {'n': 7, 'a': 3}); ffi.new('struct fxp *', src[0]) -> %r, "
                "q = ffi.new('struct fxp *'); q[0] = src[0] -> %r" % (A, B), seed)


def FFI2():
    from cffi import FFI
    f = FFI()
    f.cdef('struct fxp { int n; short a[]; };')
    return f


def judge(ctx, setup, case, obs):
    def replay_of(seed):
        rc = {'seeds': [seed]}
        for k in ('flex_overflow', 'flex_cdata'):
            if case.get(k):
                rc[k] = True
        return rc
    core.absorb(ctx, case, obs, replay_of)
