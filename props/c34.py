"""C34 -- ffi.include() shares declarations instead of copying them.

Runtime monitor over generated include graphs (chain, diamond, fan) of FFIs
whose later cdefs use names of the earlier ones, in three modes: in-line,
out-of-line ABI modules (emitted and imported by name in the child), API
modules (compiled by vlib/modbuild.py, each importing the included ones).
Monitors: object identity of every included typedef / struct / union / enum
between the including and the declaring FFI, field types of later structs,
layouts against a flat FFI that got all the cdefs without include(), constants,
and in API mode functions / globals / constants of the included libs reached
through the including lib (writes seen on both sides).  An icontract
postcondition on Parser.include monitors the sharing of the model objects.
Wrong / unusable aggregates and dying interpreters are classified by repair:
the same ABI graph is built again with graph-wide unique '$N' names for
anonymous aggregates; what disappears then is the name-collision class (this also decides
identity failures that do not reach an enum).
Audit extension: declaration forms of cffi's own include tests that the common generator
never writes (typedef of an anonymous aggregate, pointer typedef as the only name of an
aggregate, opaque aggregates: declared, behind a typedef, implicit behind a pointer typedef);
in API graphs what only the included module's C compiler knows (partial struct, 'typedef ...',
'typedef int...', constants that are not integers; judged against the generator's C source);
include() into an FFI that already has declarations; lib attributes asked through the includer
before the declaring lib built them; an API chain in which a lib attribute is reachable only
through the includes of an included lib.
"""
import os, sys, random, re
from vlib import core, modbuild, gen_cdef as GC

RULE = ("case = one include graph of 2..4 FFIs (chain k<-k+1, diamond, fan) x mode (in-line, "
        "out-of-line ABI, API); every FFI has 3..10 generated declarations (typedef chains, "
        "nested/anonymous/bitfield aggregates (no bitfields in API graphs), enums, #define/static "
        "const constants, functions, globals) "
        "whose types are drawn from its own and all visible earlier declarations, plus a 'use' "
        "struct/typedefs/array lengths that name earlier typedefs, aggregates, enums and "
        "constants; plus 0..3 of: typedef of an anonymous struct/union, pointer typedef naming an "
        "anonymous aggregate, opaque aggregate (declared / behind a typedef / implicit), and in API "
        "graphs 1..4 of: partial struct, 'typedef ...', 'typedef int...', double / char* constant; "
        "half of the in-line / ABI FFIs get their leading declarations that name nothing included "
        "before the include() calls; "
        "evaluated = one (including FFI, included declaration) pair or one lib "
        "attribute reached through an including lib; which side realizes a type first is "
        "randomized; distinct = (mode, declaration text, including FFI); non-trivial = all")
ASSUMPTIONS = ["the flat FFI (same cdefs, no include) is the reference for layouts; its own layout "
               "computation is the subject of C01",
               "API modules are built by gcc from the generator's matching C source; a later "
               "module's source repeats the type declarations of the included ones (the usual "
               "#include)",
               "enumerator / constant values are those the generator wrote (evaluation is C09/C10)",
               "sizes / offsets / signedness of API-only partial and '...' declarations are those of "
               "the generator's C source on this ABI (char pad[n]; int a; -> offset n rounded up to 4)",
               "sanitizer reports while decoding / realizing module tables are recorded as "
               "observations (the statement does not speak about them)"]
TIMEOUT = 1500
SAN_DECIDES = False
KINDS = ['typedef', 'typedef', 'agg', 'agg', 'enum', 'const', 'const', 'func', 'func', 'glob']
DEPS = os.path.join(core.VERIF, '.deps')


# ---------------------------------------------------------------------------
# include graphs (pure function of the seed)

class Node(object):
    pass


def tag_of(d):
    if d['kind'] == 'agg':
        return '%s %s' % (d['agg']['kind'], d['name'])
    if d['kind'] == 'enum':
        return 'enum ' + d['name']
    return d['name']


def make_graph(seed, mode='inline'):
    """API graphs have no bitfields: API mode cannot realize a struct with a bitfield inside an
    anonymous union at all (with or without include), which is not this property's subject"""
    rnd = random.Random(seed)
    n = rnd.choice([2, 2, 3, 3, 4])
    topo = rnd.choice(['chain', 'chain', 'diamond', 'fan']) if n >= 3 else 'chain'
    nodes = []
    for k in range(n):
        nd = Node()
        if topo == 'chain' or k < 2:
            nd.includes = [k - 1] if k and not (topo == 'fan' and k == 1) else []
        elif topo == 'diamond':          # k includes k-1 (which includes k-2) and k-2 again
            nd.includes = rnd.choice([[k - 1, k - 2], [k - 2, k - 1]])
        else:                            # fan: 0 and 1 are independent, k includes both
            nd.includes = [0, 1] if k == 2 else [k - 1]
        vis = set()
        for j in nd.includes:
            vis |= {j} | nodes[j].vis
        nd.vis = vis
        c = nd.c = GC.Ctx(rnd, prefix='c%d%s_' % (seed % 1000000, 'abcd'[k]), nd=0,
                           bitfields=mode != 'api')
        for j in sorted(vis):            # earlier names are candidates for every type choice
            o = nodes[j].c
            c.typedefs += [d for d in o.items if d['kind'] == 'typedef' and not d.get('noalias')]
            c.enums += [d for d in o.items if d['kind'] == 'enum']
            c.g.decls += [d['agg'] for d in o.items if d['kind'] == 'agg' and not d.get('opaque')]
        for _ in range(rnd.choice([3, 6, 10])):
            getattr(c, 'add_' + rnd.choice(KINDS))()
        add_extras(c, rnd, mode)
        nd.uses = []                      # (own declaration name, field, earlier node, its decl)
        nd.lengths = []                   # (own typedef name, constant name, value)
        add_uses(nd, rnd, [(j, nodes[j].c) for j in sorted(vis)])
        nd.text = c.cdef_text()
        # the flat reference FFI is in-line: it gets no API-only declaration ('...')
        nd.flat_text = '\n'.join(d['text'] for d in c.items if d['kind'] != 'xapi') + '\n'
        nodes.append(nd)
    return nodes, topo


XFIELD_T = ['char', 'short', 'int', 'long', 'double', 'float', 'long long', 'unsigned char',
            'uint16_t', 'void *', 'int32_t']
VOIDP = {'k': 'ptr', 'to': {'k': 'prim', 'name': 'void'}}


def xbody(rnd):
    return ' '.join('%s m%d%s;' % (rnd.choice(XFIELD_T), i,
                                   '[%d]' % rnd.choice([1, 3, 7]) if rnd.random() < 0.25 else '')
                    for i in range(rnd.choice([1, 2, 3, 4])))


def add_extras(c, rnd, mode):
    """declaration forms the common generator never writes: typedefs of anonymous aggregates
    ('typedef struct {..} T;' and 'typedef struct {..} *P;'), opaque aggregates (declared
    'struct S;', opaque behind a typedef, implicit behind a pointer typedef), and for API graphs
    what only a C compiler can complete: partial structs ('...;'), 'typedef ... T;',
    'typedef int... T;', and constants that are not integers"""
    p = c.p
    # 'tdanonpp' only in-line: out-of-line modules re-emit an included anonymous aggregate that
    # is not the direct target of a pointer typedef (the recorded root cause of the
    # 'anonymous-member-names-collide' findings), so identity fails there by that known cause
    forms = ['tdanon', 'tdanonptr', 'opaque', 'opaque-typedef', 'opaque-implicit']
    if mode == 'inline':
        forms.append('tdanonpp')
    for form in rnd.sample(forms, rnd.choice([0, 1, 2, 3])):
        nm = c.name('x')
        kind = rnd.choice(['struct', 'struct', 'union'])
        if form == 'tdanon':
            d = {'kind': 'typedef', 'name': nm, 'type': {'k': 'agg', 'name': nm, 'kind': kind},
                 'text': 'typedef %s { %s } %s;' % (kind, xbody(rnd), nm)}
            c.typedefs.append(d)
        elif form == 'tdanonpp':            # .. reached through a plain pointer-to-pointer type
            d = {'kind': 'typedef', 'name': nm, 'type': VOIDP, 'noalias': True,
                 'text': 'typedef %s { %s } **%s;' % (kind, xbody(rnd), nm)}
        elif form == 'tdanonptr':           # the aggregate's only name is this pointer typedef
            # not offered to the common generator: 'typedef P Q;' of such a P makes the
            # recompiler fail its own consistency assertion with or without include()
            d = {'kind': 'typedef', 'name': nm, 'type': VOIDP, 'noalias': True,
                 'text': 'typedef %s { %s } *%s;' % (kind, xbody(rnd), nm)}
        elif form == 'opaque':
            d = {'kind': 'agg', 'name': nm, 'opaque': True, 'text': '%s %s;' % (kind, nm),
                 'agg': {'kind': kind, 'name': nm, 'fields': [], 'flex': False, 'packed': None}}
        elif form == 'opaque-typedef':      # usable only behind a pointer: not offered as a type
            d = {'kind': 'typedef', 'name': nm, 'opaque': True, 'noalias': True,
                 'type': {'k': 'agg', 'name': nm, 'kind': kind},
                 'text': 'typedef %s %s_tag %s;' % (kind, nm, nm)}
        else:
            d = {'kind': 'typedef', 'name': nm, 'type': VOIDP,
                 'text': 'typedef %s %s_tag *%s;' % (kind, nm, nm)}
            c.typedefs.append(d)
        d['form'] = form
        c.items.append(d)
    if mode != 'api':
        return
    for form in rnd.sample(['partial', 'unknown', 'unknown-int', 'nonint-const'], rnd.choice([1, 2, 4])):
        nm = c.name('y')
        d = {'kind': 'xapi', 'name': nm, 'form': form}
        n = rnd.randrange(1, 40)
        if form == 'partial':               # the real layout is only in the C source
            off = (n + 3) // 4 * 4
            d.update(text='struct %s { int a; ...; };' % nm, tag='struct ' + nm,
                     csrc='struct %s { char pad_[%d]; int a; };' % (nm, n),
                     truth={'size': off + 4, 'offset': off})
        elif form == 'unknown':
            d.update(text='typedef ... %s;' % nm, tag=nm,
                     csrc='typedef struct { char c_[%d]; } %s;' % (n, nm))
        elif form == 'unknown-int':
            t, sz = rnd.choice([('short', 2), ('long long', 8), ('unsigned char', 1), ('unsigned', 4)])
            d.update(text='typedef int... %s;' % nm, tag=nm, csrc='typedef %s %s;' % (t, nm),
                     truth={'size': sz, 'signed': 'unsigned' not in t})
        else:
            nm = d['name'] = nm.upper()
            if rnd.random() < 0.5:
                v = rnd.choice([2.5, -0.125, 1e100, 3.0])
                d.update(text='static const double %s;' % nm, value=v,
                         csrc='static const double %s = %r;' % (nm, v))
            else:
                v = 'k%d' % n
                d.update(text='static char *const %s;' % nm, value=v,
                         csrc='static char *const %s = "%s";' % (nm, v))
        c.items.append(d)


def add_uses(nd, rnd, earlier):
    """declarations of this node that name earlier typedefs/aggregates/enums/constants"""
    c, p = nd.c, nd.c.p
    cand = [(j, d) for j, o in earlier for d in o.items
            if d['kind'] in ('typedef', 'enum') or (d['kind'] == 'agg' and not d['agg']['flex'])]
    if cand:
        fields = []
        for i, (j, d) in enumerate(rnd.sample(cand, min(len(cand), rnd.choice([1, 3, 6])))):
            if d['kind'] == 'agg':
                t = {'k': 'agg', 'name': d['name'], 'kind': d['agg']['kind']}
            else:
                t = {'k': d['kind'], 'name': d['name']}
            how = 'ptr' if d.get('opaque') else rnd.choice(['value', 'value', 'ptr', 'array'])
            ft = {'value': t, 'ptr': {'k': 'ptr', 'to': t},
                  'array': {'k': 'array', 'of': t, 'n': rnd.choice([1, 2, 5])}}[how]
            fields.append(GC.render_type(ft, 'u%d' % i) + ';')
            nd.uses.append((p + 'use', 'u%d' % i, how, j, tag_of(d)))
        agg = {'kind': 'struct', 'name': p + 'use', 'fields': [], 'flex': False, 'packed': None}
        c.items.append({'kind': 'agg', 'name': p + 'use', 'agg': agg,
                        'text': 'struct %suse { %s };' % (p, ' '.join(fields))})
        c.g.decls.append(agg)
        j, d = rnd.choice(cand)
        nm = p + 'alias'
        if d['kind'] == 'typedef' and not d.get('noalias'):
            t = {'k': 'typedef', 'name': d['name']}
            td = {'kind': 'typedef', 'name': nm, 'type': t, 'text': 'typedef %s %s;' % (d['name'], nm)}
        else:
            t = {'k': 'ptr', 'to': {'k': 'prim', 'name': 'void'}}     # resolves to a pointer
            td = {'kind': 'typedef', 'name': nm, 'type': t, 'text': 'typedef %s *%s;' % (tag_of(d), nm)}
        c.typedefs.append(td)
        c.items.append(td)
        nd.uses.append((nm, None, 'alias' if d['kind'] == 'typedef' and not d.get('noalias') else 'ptr',
                        j, tag_of(d)))
    ks = [(d['name'], d['value']) for j, o in earlier for d in o.items
          if d['kind'] == 'const' and d['form'] == 'define']
    ks += [ev for j, o in earlier for d in o.items if d['kind'] == 'enum' for ev in d['values']]
    ks = [kv for kv in ks if 1 <= kv[1] <= 300]
    for i, (kn, kv) in enumerate(rnd.sample(ks, min(len(ks), 2))):
        nm = '%slen%d' % (p, i)
        td = {'kind': 'typedef', 'name': nm, 'text': 'typedef char %s[%s];' % (nm, kn),
              'type': {'k': 'array', 'of': {'k': 'prim', 'name': 'char'}, 'n': kv}}
        c.typedefs.append(td)
        c.items.append(td)
        nd.lengths.append((nm, kn, kv))


def c_source(nodes, k):
    """C source of API module k: the included nodes' types (the '#include'), then its own"""
    out = []
    for j in sorted(nodes[k].vis):
        for d in nodes[j].c.items:
            if d['kind'] in ('typedef', 'agg', 'enum'):
                out.append(d['text'])
            elif d['kind'] == 'const':
                out.append(d['ctext'])
            elif d['kind'] == 'xapi' and d['form'] != 'nonint-const':
                out.append(d['csrc'])
    src = nodes[k].c.c_source()
    i = src.index('#include <uchar.h>\n') + len('#include <uchar.h>\n')
    own = [d['csrc'] for d in nodes[k].c.items if d['kind'] == 'xapi']
    return src[:i] + '\n'.join(out) + '\n' + src[i:] + '\n'.join(own) + '\n'


def deep_first(seed):
    return bool((seed >> 11) & 1)


def modname(seed, k, mode):
    return '_c34%s_%d_%d' % (mode, seed, k)


def api_specs(seed, d):
    nodes, _ = make_graph(seed, 'api')
    return [{'name': modname(seed, k, 'api'), 'kind': 'api', 'cdef': nd.text,
             'source': c_source(nodes, k), 'dir': d,
             'includes': [modname(seed, j, 'api') for j in nd.includes],
             'kwds': {'extra_compile_args': ['-O0', '-w']}} for k, nd in enumerate(nodes)]


# ---------------------------------------------------------------------------
# parent

def build_api(ctx, seeds):
    """one directory per graph; graphs in parallel, the modules of one graph in order"""
    import concurrent.futures as cf
    dirs = {}

    def one(seed):
        d = os.path.join(ctx.tmp, 'api%d' % seed)
        specs = api_specs(seed, d)
        res = {}
        for s in specs:                    # includers strictly after what they include
            res.update(modbuild.build_modules(ctx, [s], variant='plain'))
            if not res[s['name']]['ok']:
                return seed, d, res[s['name']]
        return seed, d, None
    with cf.ThreadPoolExecutor(max_workers=min(8, core.NPROC)) as ex:
        for seed, d, err in ex.map(one, seeds):
            if err is not None:
                ctx.inconclusive('API module build failed (graph seed %d): %s %s' %
                                 (seed, err.get('error', '')[-600:], err.get('log', '')[-600:]))
            else:
                dirs[seed] = d
    return dirs


def run(ctx):
    """custom driver: the gcc builds of the API graphs overlap with the in-line / ABI cases, and
    those run mostly on the plain backend (pycparser is ~20x slower in an ASan'd interpreter;
    sanitizer reports are observations here) with a sample on the ASan backend; children, cases
    and judge are those of the generic pipeline"""
    import concurrent.futures as cf
    rng = ctx.rng('gen')
    # the (compile-bound, hence few) API graphs cycle through the topologies, so that even
    # the quick tier has a lib that includes two independent libs (fan) and a diamond
    aseeds, want = [], ['fan', 'diamond', 'chain', 'fan']
    while len(aseeds) < ctx.scale(4, 100):
        sd = rng.getrandbits(40)
        nodes_, topo_ = make_graph(sd, 'api')
        libattr = lambda j: any(d['kind'] in ('func', 'glob', 'const') for d in nodes_[j].c.items)
        # fan: both independent libs have attributes; chain: at least 3 long and the first lib
        # has attributes, so that they are reached only through the includes of an included lib,
        # asked through the last lib first (nothing cached in the libs in between)
        if topo_ == want[len(aseeds) % len(want)] and (
                (topo_ == 'fan' and libattr(0) and libattr(1)) or topo_ == 'diamond' or
                (topo_ == 'chain' and len(nodes_) >= 3 and libattr(0) and deep_first(sd))):
            aseeds.append(sd)
    ctx.tmp

    def light(n, **kw):
        cases = []
        for mode in ('inline', 'abi'):
            seeds = [rng.getrandbits(40) for _ in range(n)]
            cases += [dict(kw, mode=mode, seeds=seeds[i:i + 10]) for i in range(0, n, 10)]
        rng.shuffle(cases)
        return cases

    def go(cases, variant):
        for _ in range(6):                 # cases cut short by a crashing graph are re-run without it
            again = []
            for c, o in zip(cases, core.run_cases(ctx, 'c34', None, cases, variant=variant,
                                                  timeout=TIMEOUT)):
                if isinstance(o, dict) and '_crash' in o and crashed(ctx, c, o, again, variant):
                    continue
                if core.std_obs_check(ctx, c, o, True, SAN_DECIDES):
                    judge(ctx, None, c, o)
            cases = again
            if not cases:
                break
    with cf.ThreadPoolExecutor(1) as ex:
        fut = ex.submit(build_api, ctx, aseeds)
        go(light(ctx.scale(150, 3000)), 'plain')
        go(light(ctx.scale(10, 200), asan=1), 'asan')
        dirs = fut.result()
    ctx.count('api_graphs_built', len(dirs))
    aseeds = [s for s in aseeds if s in dirs]
    go([{'mode': 'api', 'asan': 1, 'seeds': aseeds[i:i + 4], 'dirs': [dirs[s] for s in aseeds[i:i + 4]]}
        for i in range(0, len(aseeds), 4)], 'asan')


def crashed(ctx, case, obs, again, variant):
    """a child died: the graph it was in (last breadcrumb on its stderr) is the witness; it is
    classified by repair (does the same ABI graph with graph-wide unique names for anonymous
    aggregates survive?); the other graphs of the case are run again"""
    m = re.findall(r'C34-CRUMB graph (\d+)', obs.get('_stderr', ''))
    if not m or int(m[-1]) not in case['seeds']:
        return False
    seed, i = int(m[-1]), case['seeds'].index(int(m[-1]))
    ctx.count('child_crashes')
    what = 'other'
    if case['mode'] == 'abi':
        o = core.run_cases(ctx, 'c34', None, [{'mode': 'abi', 'seeds': [seed], 'repair': 1}],
                           variant=variant, nproc=1, timeout=TIMEOUT)[0]
        if isinstance(o, dict) and 'n' in o and not any(b[0].startswith('harness') for b in o['bad']):
            what = 'anonymous-member-names-collide'
            ctx.count('crashes_gone_with_unique_anonymous_names')
    ctx.violation('crash:%s:%s' % (what, case['mode']),
                  'the interpreter died (rc=%s) while the types of graph seed %d (%s) were asked\n%s'
                  % (obs['_crash'], seed, case['mode'], obs.get('_stderr', '')[-1200:]),
                  {'mode': case['mode'], 'seeds': [seed]})
    for part in (slice(0, i), slice(i + 1, None)):
        if case['seeds'][part]:
            again.append(dict(case, seeds=case['seeds'][part], dirs=case.get('dirs', [])[part]))
    return True


def replay_setup(ctx, case):
    if case['mode'] == 'api':
        dirs = build_api(ctx, case['seeds'])
        case['dirs'] = [dirs[s] for s in case['seeds'] if s in dirs]
        case['seeds'] = [s for s in case['seeds'] if s in dirs]
    return None


def judge(ctx, setup, case, obs):
    core.absorb(ctx, case, obs, lambda seed: {'mode': case['mode'], 'seeds': [seed]})


# ---------------------------------------------------------------------------
# child

class IncludeCopied(Exception):
    pass


SHARED = ('struct', 'union', 'enum', 'anonymous', 'typedef')
NCONTRACT = [0]


def shares_model_objects(self, other):
    """postcondition of Parser.include(other): every typedef/struct/union/enum declaration of
    `other` is declared in self as the very same model object; integer constants are equal"""
    NCONTRACT[0] += 1
    for name, (tp, quals) in other._declarations.items():
        if name.split(' ', 1)[0] in SHARED and not name.startswith('anonymous $enum_$'):
            if name not in self._declarations or self._declarations[name][0] is not tp:
                return False
    return all(self._int_constants.get(k) == v for k, v in other._int_constants.items())


def child_setup(setup, wd):
    import warnings
    warnings.simplefilter('ignore')
    sys.path.insert(0, wd)
    from cffi import cparser
    how = 'plain-wrapper'
    orig = cparser.Parser.include
    if os.path.isdir(os.path.join(DEPS, 'icontract')):
        sys.path.append(DEPS)
    try:
        import icontract
        cparser.Parser.include = icontract.ensure(shares_model_objects, error=IncludeCopied)(orig)
        how = 'icontract'
    except ImportError:
        def include(self, other):
            orig(self, other)
            if not shares_model_objects(self, other):
                raise IncludeCopied(repr(other))
        cparser.Parser.include = include
    return {'wd': wd, 'contract': how}


def shape(ffi, t, depth=0):
    """structural description of a ctype: no display names of aggregates, no constructor flags"""
    k = t.kind
    if k in ('struct', 'union'):
        if t.fields is None:
            return (k, 'opaque')
        if depth > 8:
            return (k, ffi.sizeof(t))
        return (k, ffi.sizeof(t), ffi.alignof(t),
                [(n, f.offset, f.bitshift, f.bitsize, shape(ffi, f.type, depth + 1))
                 for n, f in t.fields])
    if k == 'enum':
        return (k, ffi.sizeof(t), sorted(t.elements.items()), int(ffi.cast(t, -1)) < 0)
    if k in ('pointer', 'array'):
        return (k, getattr(t, 'length', None), shape(ffi, t.item, depth + 1))
    if k == 'function':
        return (k, [shape(ffi, a, depth + 1) for a in t.args], shape(ffi, t.result, depth + 1),
                t.ellipsis)
    return (k, t.cname)


def reaches_enum(t):
    k = t.kind
    if k == 'enum':
        return True
    if k in ('pointer', 'array'):
        return reaches_enum(t.item)
    if k == 'function':
        return reaches_enum(t.result) or any(reaches_enum(a) for a in t.args)
    return False


def own_prefix(nodes, k):
    """number of leading declarations of node k that name nothing of the FFIs it includes"""
    ps = [nodes[j].c.p for j in nodes[k].vis]
    ps += [p.upper() for p in ps]
    n = 0
    for d in nodes[k].c.items:
        if any(p in d['text'] for p in ps):
            break
        n += 1
    return n if ps else 0


def anon_names_collide(ffi):
    """does this (in-line) FFI know two different model objects named '$<digits>'?"""
    from cffi import model
    seen, todo, done = {}, [tp for tp, q in ffi._parser._declarations.values()
                            if isinstance(tp, model.BaseTypeByIdentity)], set()
    while todo:
        tp = todo.pop()
        if id(tp) in done:
            continue
        done.add(id(tp))
        name = getattr(tp, 'name', None)
        if isinstance(tp, (model.StructOrUnion, model.EnumType)) and isinstance(name, str) and \
                re.match(r'\$\d+$', name):
            if seen.setdefault((type(tp).__name__ == 'EnumType', name), tp) is not tp:
                return True
        for attr in ('totype', 'item', 'result'):
            t = getattr(tp, attr, None)
            if t is not None:
                todo.append(t)
        todo += list(getattr(tp, 'args', None) or ())
        todo += [t for t in (getattr(tp, 'fldtypes', None) or ())]
    return False


def build_ffis(st, nodes, seed, mode, dirs, repair=False, stat=None):
    """-> (ffis, libs).  repair (in-line / ABI): every parser numbers its anonymous aggregates
    ($1, $2, ..) from a different base, so that these names are unique over the whole graph"""
    import importlib
    from cffi import FFI
    if mode == 'api':
        sys.path.insert(0, dirs)
        try:
            # the last one first: importing it must pull in everything it includes
            order = [len(nodes) - 1] + list(range(len(nodes) - 1))
            mods = {k: importlib.import_module(modname(seed, k, mode)) for k in order}
        finally:
            sys.path.remove(dirs)
        return [mods[k].ffi for k in range(len(nodes))], [mods[k].lib for k in range(len(nodes))]
    ffis = []
    for k, nd in enumerate(nodes):
        f = FFI()
        if repair:
            f._parser._anonymous_counter = 1000 * (k + 1)
        pre = own_prefix(nodes, k) if (seed >> (3 + k)) & 1 else 0
        if pre:                            # history: include() into an FFI that has declarations
            f.cdef('\n'.join(d['text'] for d in nd.c.items[:pre]) + '\n')
            if stat and not repair:
                stat('include_after_own_cdef_%s' % mode)
        for j in nd.includes:
            f.include(ffis[j])
        f.cdef('\n'.join(d['text'] for d in nd.c.items[pre:]) + '\n')
        ffis.append(f)
    if mode == 'abi':
        mode += 'r' if repair else ''
        for k, f in enumerate(ffis):
            f.set_source(modname(seed, k, mode), None)
            f.emit_python_code(os.path.join(st['wd'], modname(seed, k, mode) + '.py'))
        importlib.invalidate_caches()
        order = list(range(len(nodes)))
        if seed & 1:
            order.reverse()                # importing the includer first imports the rest
        mods = {k: importlib.import_module(modname(seed, k, mode)) for k in order}
        ffis = [mods[k].ffi for k in range(len(nodes))]
    return ffis, [f.dlopen(None) for f in ffis]


def child_case(st, case):
    rep = core.ChildRep()
    out, sys.stdout = sys.stdout, open(os.devnull, 'w')      # emit_python_code chatter
    try:
        for i, seed in enumerate(case['seeds']):
            try:
                run_graph(st, rep, seed, case['mode'],
                          case['dirs'][i] if case['mode'] == 'api' else None, case.get('repair'))
            except Exception:
                import traceback
                rep.bad('harness-error', 'graph seed %d (%s): %s' %
                        (seed, case['mode'], traceback.format_exc()[-1200:]), seed)
    finally:
        sys.stdout = out
    rep.stat('contract_evaluations_' + st['contract'], NCONTRACT[0])
    if case.get('asan'):
        rep.stat('graphs_on_asan_backend', len(case['seeds']))
    NCONTRACT[0] = 0
    return rep.result()


def run_graph(st, rep, seed, mode, dirs, repair=False):
    from cffi import FFI
    nodes, topo = make_graph(seed, mode)
    rnd = random.Random(seed ^ 0x34)
    where = ' :: graph seed %d, mode %s, %s of %d' % (seed, mode, topo, len(nodes))
    os.write(2, b'C34-CRUMB graph %d\n' % seed)
    repaired = []
    inline_parsers = []

    def bad(mech, msg):
        rep.bad('%s:%s' % (mech, mode), msg + where, seed)

    def agg_bad(what, tag, k, msg, fixed=None):
        """wrong / unusable aggregate; classified by repair: if the same ABI graph built with
        graph-wide unique names for anonymous aggregates shows `tag` through FFI k as the flat
        FFI does (or satisfies `fixed`, a predicate on the repaired FFIs), the cause is the
        collision of these names between the FFIs of the graph"""
        if mode == 'api' and not repair:
            # no repaired build exists for compiled modules; the recorded cause is decided by
            # its precondition instead: the parser of the including FFI (rebuilt in-line from
            # the same cdefs) holds two different anonymous aggregates under one '$N' name
            try:
                if not inline_parsers:
                    inline_parsers.append(build_ffis(st, nodes, seed, 'inline', dirs)[0])
                if anon_names_collide(inline_parsers[0][k]):
                    what = 'aggregate-wrong-or-unusable:anonymous-member-names-collide'
                    rep.stat('api_mismatches_in_ffis_with_colliding_anonymous_names')
            except Exception:
                pass
        if mode == 'abi' and not repair:
            try:
                if not repaired:
                    repaired.append(build_ffis(st, nodes, seed, mode, dirs, True)[0])
                fr = repaired[0][k]
                if fixed(repaired[0]) if fixed else (shape(fr, fr.typeof(tag)) ==
                                                     shape(flat, flat.typeof(tag))):
                    what = 'aggregate-wrong-or-unusable:anonymous-member-names-collide'
                    rep.stat('mismatches_gone_with_unique_anonymous_names')
            except Exception:
                pass
        bad(what, msg)
    try:
        ffis, libs = build_ffis(st, nodes, seed, mode, dirs, repair, rep.stat)
    except IncludeCopied as e:
        return bad('parser-include-does-not-share-model-object', 'Parser.include postcondition: %s' % e)
    except Exception as e:
        import traceback
        return bad('build-raised:' + type(e).__name__, traceback.format_exc()[-700:])
    flat = FFI()
    for nd in nodes:
        flat.cdef(nd.flat_text)
    rep.stat('graphs_%s' % mode)
    rep.stat('topology_%s' % topo)

    def flat_compare(kname, d, k, tk, through):
        rep.stat('layout_vs_flat_%s' % mode)
        tag = tag_of(d)
        sk, sf = shape(ffis[k], tk), shape(flat, flat.typeof(tag))
        if sk != sf:
            agg_bad('%s-layout-differs-from-flat' % kname, tag, k,
                    '%s %s FFI %d: %r, flat FFI without include: %r' % (tag, through, k, sk, sf))

    # deepest includer first: what it reaches through the includes of what it includes has not
    # been built and cached by the FFIs / libs in between
    if deep_first(seed):
        rep.stat('graphs_deepest_includer_asked_first_%s' % mode)
    for k, nd in sorted(enumerate(nodes), reverse=deep_first(seed)):
        fk = ffis[k]
        for j in sorted(nd.vis, reverse=rnd.random() < 0.5):
            fj = ffis[j]
            for d in nodes[j].c.items:
                kind = d['kind']
                tag = tag_of(d)
                kname = d['agg']['kind'] if kind == 'agg' else kind
                try:
                    if j not in nd.includes:
                        rep.stat('reached_only_through_includes_of_included_%s_%s' % (kind, mode))
                    if kind in ('typedef', 'agg', 'enum'):
                        rep.case((mode, d['text'], k), sample={'mode': mode, 'decl': d['text'][:200],
                                                               'including': nd.text[:300]})
                        # which FFI realizes the type first is part of the case
                        if rnd.random() < 0.5:
                            tk = fk.typeof(tag)
                            tj = fj.typeof(tag)
                        else:
                            tj = fj.typeof(tag)
                            tk = fk.typeof(tag)
                        rep.stat('identity_%s_%s' % (kname, mode))
                        if d.get('form'):
                            rep.stat('identity_form_%s_%s' % (d['form'], mode))
                        if tk is not tj:
                            msg = ('%r: FFI %d (includes %r) gives a different ctype object than the '
                                   'declaring FFI %d: %r (id %#x) vs %r (id %#x), equal=%r; %s' %
                                   (d['text'][:200], k, nd.includes, j, tk, id(tk), tj, id(tj),
                                    tk == tj, consequence(fk, fj, tag)))
                            if reaches_enum(tj):
                                bad('not-shared:reaches-enum', msg)
                            else:           # by repair: is it the '$N' collision of the graph?
                                agg_bad('not-shared:%s' % kname, tag, k, msg,
                                        lambda fr: fr[k].typeof(tag) is fr[j].typeof(tag))
                        elif kind != 'typedef':
                            rep.stat('identity_derived_pointer_%s' % mode)
                            if fk.typeof(tag + ' *') is not fj.typeof(tag + ' *'):
                                bad('not-shared:derived-pointer', '%s *: different ctype objects' % tag)
                        if kind != 'typedef' or tk.kind in ('struct', 'union', 'array', 'pointer'):
                            flat_compare(kname, d, k, tk, 'seen through')
                    elif kind == 'const':
                        check_const(rep, bad, mode, fk, libs[k], d['name'], d['value'], d['form'],
                                    (k, d['text']))
                    if kind == 'enum':
                        for en, v in d['values']:
                            check_const(rep, bad, mode, fk, libs[k], en, v, 'enumerator', (k, en))
                    if mode == 'api' and kind in ('func', 'glob'):
                        check_lib(rep, bad, rnd, nodes[j].c, d, fk, libs[k], fj, libs[j], k)
                    if kind == 'xapi':
                        check_xapi(rep, bad, rnd, d, fk, libs[k], fj, libs[j], k)
                except Exception as e:
                    agg_bad('%s-through-includer-raised:%s' % (kname, type(e).__name__), tag, k,
                            '%r of FFI %d asked through FFI %d: %s' % (d['text'][:200], j, k, e))
        # this node's own declarations that name earlier ones
        for own, field, how, j, tag in nd.uses:
            try:
                rep.case((mode, 'use', nd.text, own, field))
                rep.stat('uses_of_earlier_names_%s' % mode)
                def used(fs, own=own, field=field, how=how, j=j, tag=tag):
                    t = fs[k].typeof(own if field is None else 'struct ' + own)
                    if field is not None:
                        t = dict(t.fields)[field].type
                    return (t.item if how in ('ptr', 'array') else t), fs[j].typeof(tag)
                t, want = used(ffis)
                if t is not want:
                    msg = ('%s%s in FFI %d is declared with %s of FFI %d but its ctype %r (id %#x) is '
                           'not that FFI\'s %r (id %#x)' % (own, '.' + field if field else '', k, tag, j,
                                                            t, id(t), want, id(want)))
                    if reaches_enum(want):
                        bad('not-shared:reaches-enum', msg)
                    else:
                        agg_bad('not-shared:use-in-includer', tag, k, msg,
                                lambda fr: used(fr)[0] is used(fr)[1])
            except Exception as e:
                agg_bad('use-raised:' + type(e).__name__, own if field is None else 'struct ' + own, k,
                        '%s.%s of FFI %d: %s' % (own, field, k, e))
        for own, kn, kv in nd.lengths:
            rep.case((mode, 'len', nd.text, own))
            rep.stat('array_lengths_from_included_constants_%s' % mode)
            form = 'enumerator' if '_E' in kn else 'define'
            try:
                if fk.sizeof(own) != kv:
                    bad('array-length-from-included-constant', 'typedef char %s[%s]: sizeof %r, '
                        'constant is %r' % (own, kn, fk.sizeof(own), kv))
            except Exception as e:
                bad('array-length-raised:' + type(e).__name__, '%s[%s] in FFI %d: %s' % (own, kn, k, e))
            try:
                rep.stat('type_strings_with_included_%s_%s' % (form, mode))
                got = fk.sizeof('char[%s]' % kn)
            except Exception as e:
                got = '%s: %s' % (type(e).__name__, ' '.join(str(e).split()))
            if got != kv:
                bad('included-constant-not-usable-in-type-string:' + form,
                    'sizeof("char[%s]") through FFI %d: %s; the constant is %r and '
                    'integer_const()/lib attribute give it' % (kn, k, got, kv))
        # own aggregates (they embed included types): layout against the flat FFI
        for d in nd.c.items:
            if d['kind'] == 'agg' and nd.vis:
                try:
                    flat_compare('includer-aggregate', d, k, fk.typeof(tag_of(d)), 'declared by including')
                except Exception as e:
                    agg_bad('includer-aggregate-raised:' + type(e).__name__, tag_of(d), k,
                            '%s: %s' % (d['text'][:200], e))
        # list_types() of an including FFI covers what it includes
        if nd.vis:
            rep.stat('list_types_%s' % mode)
            lt = fk.list_types()
            for j in nd.vis:
                missing = [sorted(set(a) - set(b)) for a, b in zip(ffis[j].list_types(), lt)]
                if any(missing):
                    bad('list_types-misses-included', 'FFI %d list_types() lacks %r of FFI %d' %
                        (k, missing, j))


def consequence(fk, fj, tag):
    try:
        fk.new(fk.getctype(tag, '*[1]'), [fj.new(fj.getctype(tag, '*'))])
        return 'a pointer made by one FFI is still accepted by the other'
    except Exception as e:
        return 'consequence: storing the declaring FFI\'s "%s *" into the includer\'s "%s *[1]" ' \
               'raises %s: %s' % (tag, tag, type(e).__name__, e)


def check_const(rep, bad, mode, fk, libk, name, value, form, key):
    if mode == 'inline' and form == 'static':
        rep.stat('inline_static_const_needs_library_symbol_skipped')
        return
    rep.case((mode, 'const') + key)
    rep.stat('constants_%s_%s' % (form, mode))
    got = [getattr(libk, name)]
    if mode != 'inline':
        got.append(fk.integer_const(name))
    if any(g != value for g in got):
        bad('included-constant-value:' + form, '%s: declared %r, through the including FFI/lib %r'
            % (name, value, got))


def check_lib(rep, bad, rnd, c, d, fk, libk, fj, libj, k):
    """API mode: function / global of lib j reached through lib k"""
    name = d['name']
    rep.case(('api', 'lib', k, d['text']))
    if d['kind'] == 'func':
        rep.stat('functions_through_includer')
        if rnd.random() < 0.5:           # asked through the includer before its own lib built it
            rep.stat('lib_attribute_first_asked_through_includer')
            f2, f1 = getattr(libk, name), getattr(libj, name)
        else:
            f1, f2 = getattr(libj, name), getattr(libk, name)
        if f1 is f2:
            rep.stat('functions_same_object')
        if rnd.random() < 0.5:           # the includer's addressof before the owner's
            rep.stat('addressof_first_asked_through_includer')
            p2, p1 = fk.addressof(libk, name), fj.addressof(libj, name)
        else:
            p1, p2 = fj.addressof(libj, name), fk.addressof(libk, name)
        a1, a2 = int(fj.cast('uintptr_t', p1)), int(fk.cast('uintptr_t', p2))
        if a1 != a2:
            bad('function-address-differs', '%s: %#x in its lib, %#x through lib %d' % (name, a1, a2, k))
        if fk.typeof(p2) is not fj.typeof(p1):
            bad('function-pointer-type-differs', 'addressof(lib, %r): %r in its lib, %r through lib '
                '%d' % (name, fj.typeof(p1), fk.typeof(p2), k))
        ft = d['ftype']
        if all(c.is_arith(a) for a in ft['args']):
            args = [rnd.randrange(0, 2) if c.resolve(a).get('name') == '_Bool' else
                    (b'\x05' if c.resolve(a).get('name') == 'char' else rnd.randrange(0, 50))
                    for a in ft['args']]
            r1, r2 = f1(*args), f2(*args)
            rep.stat('function_calls_through_includer')
            try:
                r3 = p2(*args)           # through the includer's addressof() pointer
            except Exception as e:
                r3 = '%s: %s' % (type(e).__name__, e)
            if r3 != r1 and not (r1 != r1 and r3 != r3):
                bad('function-result-differs:addressof', '%s%r: %r in its lib, %r through the '
                    'pointer from addressof(lib %d)' % (name, tuple(args), r1, r3, k))
            if r1 != r2 and not (r1 != r1 and r2 != r2):
                bad('function-result-differs', '%s%r: %r in its lib, %r through lib %d' %
                    (name, tuple(args), r1, r2, k))
        return
    rep.stat('globals_through_includer')
    if rnd.random() < 0.5:
        rep.stat('lib_attribute_first_asked_through_includer')
        g2, g1 = getattr(libk, name), getattr(libj, name)
    else:
        g1, g2 = getattr(libj, name), getattr(libk, name)
    p1 = int(fj.cast('uintptr_t', fj.addressof(libj, name)))
    p2 = int(fk.cast('uintptr_t', fk.addressof(libk, name)))
    if p1 != p2:
        bad('global-address-differs', '%s: %#x in its lib, %#x through lib %d' % (name, p1, p2, k))
    if isinstance(g1, fj.CData) != isinstance(g2, fk.CData):
        return bad('global-value-kind-differs', '%s: %r vs %r' % (name, g1, g2))
    if isinstance(g1, fj.CData) and fj.typeof(g1) is not fk.typeof(g2):
        bad('not-shared:%s' % ('reaches-enum' if reaches_enum(fj.typeof(g1)) else 'global-type'),
            '%s: %r in its lib, %r through lib %d' % (name, g1, g2, k))
    r = c.resolve(d['type'])
    if r['k'] == 'prim':
        if g1 != g2 and g1 == g1:
            bad('global-value-differs', '%s: %r vs %r' % (name, g1, g2))
        nv = {'char': b'Q', '_Bool': True, 'float': 2.5, 'double': -7.25,
              'long double': None}.get(r['name'], rnd.randrange(1, 100))
        if nv is None:
            return
        setattr(libk, name, nv)
        if getattr(libj, name) != nv:
            bad('global-write-through-includer-not-seen', '%s = %r through lib %d, its own lib reads %r'
                % (name, nv, k, getattr(libj, name)))
        setattr(libj, name, g1)
        if getattr(libk, name) != g1:
            bad('global-write-not-seen-through-includer', '%s = %r in its lib, lib %d reads %r' %
                (name, g1, k, getattr(libk, name)))
        rep.stat('global_writes_both_ways')


def check_xapi(rep, bad, rnd, d, fk, libk, fj, libj, k):
    """API mode only: what the C compiler of the included module completed (partial struct,
    'typedef ... T', 'typedef int... T') or computed (non-integer constant), asked through the
    including ffi / lib; the expected layouts and values are those of the generator's C source"""
    form, name = d['form'], d['name']
    rep.case(('api', 'xapi', k, d['text']))
    rep.stat('api_only_%s_through_includer' % form)
    if form == 'nonint-const':
        first = rnd.random() < 0.5
        vals = [getattr(l, name) for l in ((libk, libj) if first else (libj, libk))]
        vk, vj = vals if first else vals[::-1]
        if isinstance(d['value'], str):
            vk, vj = fk.string(vk).decode(), fj.string(vj).decode()
        if vk != d['value'] or vj != d['value']:
            bad('included-constant-value:nonint', '%s: the C source says %r, its lib gives %r, '
                'lib %d gives %r' % (d['text'], d['value'], vj, k, vk))
        return
    tag = d['tag']
    if rnd.random() < 0.5:
        tk, tj = fk.typeof(tag), fj.typeof(tag)
    else:
        tj, tk = fj.typeof(tag), fk.typeof(tag)
    if tk is not tj:
        bad('not-shared:' + form, '%r: FFI %d gives %r (id %#x), the declaring FFI %r (id %#x)' %
            (d['text'], k, tk, id(tk), tj, id(tj)))
    truth = d.get('truth')
    if truth:
        got = {'size': fk.sizeof(tk)}
        if 'offset' in truth:
            got['offset'] = fk.offsetof(tk, 'a')
        if 'signed' in truth:
            got['signed'] = int(fk.cast(tk, -1)) < 0
        if got != truth:
            bad('layout-not-from-included-module:' + form, '%r with C source %r seen through FFI '
                '%d: %r, the C compiler of the included module: %r' % (d['text'], d['csrc'], k, got, truth))
