"""C24 -- cffi-gen-src output is byte-identical to FFI.emit_c_code.

Differential monitor.  A *worker* process per (case, environment) builds every
item's input files, computes the reference bytes with FFI.emit_c_code(path) and
drives the real command line in-process (cffi._cffi_gen_src.run(argv), and
runpy of cffi.gen_src as __main__) with fd 1 redirected to a file; a sample of
the items is then run again as real subprocesses (the installed cffi-gen-src
console script and `python -m cffi.gen_src`) in the same environment.  Every
run is judged on exit status and bytes.
"""
import sys, os, json, re, random, shutil, subprocess, tempfile
from vlib import core, build

VARIANT = 'plain'
RULE = ("item = (cdef text of 0..6 random declarations with non-ASCII comments, C prelude of 0..7 "
        "lines with non-ASCII text / LF, CRLF, CR or mixed line ends / with or without final "
        "newline, module name with 0..3 packages) x subcommand (read-sources; exec-python with the "
        "FFI bound directly, under a --ffi-var name, or through a def / lambda / callable object / "
        "FFI subclass / functools.partial / bound method / class with __new__ / a factory whose "
        "second call returns a decoy / an FFI instance that is itself callable, decoy FFI objects, "
        "prelude as literal / sibling file through __file__ / helper module through sys.path imported "
        "at module level or inside the factory, script "
        "in the working directory or in a subdirectory with a same-named decoy helper module in the "
        "working directory, optional embedding, __main__ block writing a marker) x "
        "relative/absolute/non-ASCII paths x output names containing '-' (incl. a file named '-' "
        "given as './-') x module names with characters outside identifiers x read-sources inputs "
        "with identical content x output path absent / holding stale longer text / the reference "
        "itself / its CRLF twin / same-size different text / a prefix / the reference plus a tail; "
        "each item is run "
        "with output to a file and to '-', in-process through run(argv) and runpy -m, and a sample "
        "as subprocesses through the console script and python -m, in 4 locale environments; "
        "distinct = (environment, item, invocation, output kind); non-trivial = the reference "
        "emit_c_code() succeeded")
ASSUMPTIONS = [
    "the text of an input file is what Python's universal-newlines text reading gives: for "
    "read-sources files containing CR the reference FFI receives the text with CRLF/CR -> LF",
    "when FFI.emit_c_code(path) itself raises in the same environment (invalid cdef, text not "
    "encodable in an ASCII locale) the property demands nothing; such runs are counted as vacuous",
    "only the bytes written to the output (file or stdout) are compared; what a file-output run "
    "prints on stdout is not part of the property",
    "'the FFI the script binds' is what the name is bound to when the script is executed the way "
    "Python runs it (its own directory first on sys.path, also while a factory is being called): an "
    "FFI instance is taken as it is even if it is callable, any other callable is called exactly once",
    "in-process runs replace only fd 1; the process-level matrix (console script / python -m) is "
    "covered by the sampled subprocess runs",
]

ENVS = {'default': {},
        'c_utf8': {'LC_ALL': 'C.UTF-8'},
        'utf8mode': {'LC_ALL': 'C', 'PYTHONUTF8': '1'},
        'ascii': {'LC_ALL': 'C', 'PYTHONCOERCECLOCALE': '0', 'PYTHONUTF8': '0'}}
COMBOS = [('proc-script', 'file'), ('proc-module', 'stdout'),
          ('proc-module', 'file'), ('proc-script', 'stdout')]
GEN_LINE = re.compile(rb'\Agenerating <_io\.StringIO object at 0x[0-9a-f]+>\r?\n\Z')


# ---------------------------------------------------------------------------
# item generation (pure function of the seed; used by worker, child and replay)

WORDS = ['alpha', 'héllo', 'grüße', 'λόγος', 'Жук',
         '中文', '\U0001f600', 'naïve', 'x', 'é', ' ', '42', 'café']
ODD = ['\x0c', '\x85', '\u2028', '\ufeff', '\x1c', '\t', '\x7f', '\u00a0']


def rtext(rnd, odd=False):
    w = [rnd.choice(WORDS) for _ in range(rnd.randint(1, 4))]
    if odd and rnd.random() < 0.3:
        w.insert(rnd.randrange(len(w) + 1), rnd.choice(ODD))
    return ' '.join(w)


def make_cdef(rnd, tag):
    decls = []
    for k in range(rnd.choice([0, 1, 1, 2, 3, 4, 6])):
        n = '%s_%d' % (tag, k)
        decls.append(rnd.choice([
            'int %s(int, long);' % n,
            'double %s(double x, ...);' % n,
            'typedef struct { int a; char b[%d]; double c; } %s_t;' % (rnd.randint(1, 9), n),
            'struct %s { unsigned x:3; short y; struct %s *next; };' % (n, n),
            'enum %s { %s_A, %s_B = %d, %s_C };' % (n, n, n, rnd.randint(-5, 900), n),
            '#define %s %d' % (n.upper(), rnd.randint(0, 70000)),
            '#define %s ...' % n.upper(),
            'extern int %s;' % n,
            'static const int %s;' % n,
            'typedef int (*%s_cb)(void *, char **);' % n,
            'extern "Python" int %s(int);' % n,
            'typedef ... %s_opaque;' % n,
            'union %s_u { int i; float f; };' % n,
            'typedef struct %s_s { int n; ...; } %s_s;' % (n, n),
            'const char *%s(const char *, size_t);' % n,
            'void %s(void);' % n,
        ]))
        if rnd.random() < 0.4:
            decls.append(rnd.choice(['/* %s */', '// %s\n', '/* %s\n   %s */']).replace('%s', rtext(rnd)))
    sep, text = rnd.choice(['\n', '\n', ' ', '\n\n', '\n\t']), ''
    for dcl in decls:
        if dcl.startswith('#'):               # a directive needs its own line
            dcl = ('' if text.endswith('\n') or not text else '\n') + dcl + '\n'
        text += dcl + sep
    if decls and rnd.random() < 0.7:
        text += '\n'
    if rnd.random() < 0.03:                       # invalid cdef: the reference raises too
        text += rnd.choice(['int (;', 'int é(void);', 'struct {', 'foo_t bar(void);'])
    return text


def make_prelude(rnd, tag):
    lines = []
    for k in range(rnd.choice([0, 1, 2, 3, 3, 5, 7])):
        n = '%s_p%d' % (tag, k)
        lines.append(rnd.choice([
            '#include <stddef.h>', '#include "%s.h"' % n, '/* %s */' % rtext(rnd, True),
            '// %s' % rtext(rnd, True), 'static int %s(int x) { return x * %d; }' % (n, rnd.randint(0, 99)),
            'static const char *%s = "%s";' % (n, rtext(rnd, True)),
            '#define %s(x) \\\n    ((x) + 1)' % n.upper(), '', '\t  int %s;   ' % n,
            'static const char %s[] = u8"%s";' % (n, rtext(rnd)),
        ]))
    eol = rnd.choice(['\n'] * 6 + ['\r\n', '\r\n', '\r', 'mixed'])
    text = ''
    for ln in ('\n'.join(lines).split('\n') if lines else []):
        text += ln + (rnd.choice(['\n', '\r\n', '\r']) if eol == 'mixed' else eol)
    if text and rnd.random() < 0.25:
        text = text.rstrip('\r\n')
    if rnd.random() < 0.12:
        text = '\ufeff' + text          # a prelude file saved "with BOM": U+FEFF is its first character
    return text


NAMES = ['m', '_m', 'pkg.m', 'a.b._c', 'x1.y2.z3.w4', 'squared._squared', 'Mod_9',
         'averyveryveryveryveryverylongpackagename.and_a_long_module_name_too']
ODD_NAMES = ['my-mod', ' m', 'pkg.m ', 'M.m', 'pkg/m', 'a..b', '9m', 'm.', 'pkg.my-mod', 'm\t']
VARS = ['my_ffi', '_b', 'ffi2', 'make_ffi', 'FFIBUILDER', 'ffibuilder_', 'bâtisseur']


PREEXISTING = ['stale-long', 'identical', 'crlf-twin', 'same-size', 'prefix', 'ref-plus-tail']


DECOY3 = ['_decoy3 = FFI()', "_decoy3.cdef('int decoy3(void);')",
          "_decoy3.set_source('decoy3.mod', '/* decoy3 */')"]


def nl(text):
    return text.replace('\r\n', '\n').replace('\r', '\n')


def make_item(seed):
    rnd = random.Random(seed)
    tag = 's%x' % (seed & 0xfffff)
    it = {'seed': seed, 'tag': tag, 'files': {}, 'dirs': []}
    it['cdef'] = make_cdef(rnd, tag)
    it['prelude'] = make_prelude(rnd, tag)
    it['name'] = rnd.choice(NAMES) if rnd.random() < 0.93 else rnd.choice(['pkg.mödul', 'mé'])
    it['odd_name'] = rnd.random() < 0.08
    if it['odd_name']:                      # not an identifier path: the name goes through as it is
        it['name'] = rnd.choice(ODD_NAMES)
    it['sub'] = sub = rnd.choice(['read-sources', 'exec-python'])
    it['abs'] = rnd.random() < 0.3
    it['out'] = rnd.choice(['out.c', 'out.c', 'gen/_m.c', 'généré.c', 'o u t.cpp', 'my-out.c',
                            './-', 'out-', 'gen/-x-.c'])
    if os.path.dirname(it['out']) not in ('', '.'):
        it['dirs'].append(os.path.dirname(it['out']))
    it['preexisting'] = rnd.choice([None] * 7 + ['stale-long', 'stale-long'] + PREEXISTING[1:])
    if sub == 'read-sources':
        it['twin_inputs'] = rnd.random() < 0.05
        if it['twin_inputs']:                      # two different files with the same content
            it['cdef'] = it['prelude'] = rnd.choice(['', '/* %s */\n' % rtext(rnd), '\n'])
        if rnd.random() < 0.25:                    # CRLF cdef file
            it['cdef'] = it['cdef'].replace('\n', '\r\n')
        cn, pn = rnd.choice([('x.cdef', 'x.c'), ('défs.txt', 'prélude.h'),
                             ('in/cdef.h', 'in/csrc.c'), ('a b.txt', 'c d.txt')])
        if '/' in cn:
            it['dirs'].append('in')
        it['files'][cn] = it['cdef']
        it['files'][pn] = it['prelude']
        it['ref'] = {'cdef': nl(it['cdef']), 'prelude': nl(it['prelude'])}
        it['has_cr'] = '\r' in it['cdef'] or '\r' in it['prelude']
        it['style'] = 'files'
        it['args'] = ['read-sources', it['name'], cn, pn]
        it['inputs'] = [2, 3]
        return it
    # ---- exec-python: write the build script
    style = rnd.choice(['direct', 'direct', 'var', 'var', 'def', 'def', 'lambda', 'obj',
                        'subclass', 'class', 'callable-ffi', 'once', 'partial', 'method', 'new'])
    it['style'] = style
    var = 'ffibuilder' if style == 'direct' or rnd.random() < 0.15 else rnd.choice(VARS)
    it['var'] = var
    how = rnd.choice(['literal', 'literal', 'sibling', 'helper'])
    pep263 = rnd.random() < 0.04
    it['script_kind'] = 'pep263-latin1' if pep263 else 'utf8'
    L = ['# build script: %s' % rtext(rnd), 'import os, sys', 'from cffi import FFI',
         '_here = os.path.dirname(__file__)',
         "_m = sys.modules.get('cffi._cffi_gen_src')",
         "if _m: open(os.path.join(_here, 'ORIGIN'), 'w').write(_m.__file__)"]
    if pep263:
        L.insert(0, '# -*- coding: latin-1 -*-')
    sdir = rnd.choice(['', '', '', 'bld/', 'sub dir/', 'répertoire/in/'])
    it['scriptdir'] = sdir
    if sdir:
        it['dirs'].append(sdir.rstrip('/'))
    it['decoy_helper'] = False
    if how == 'sibling':
        it['files'][sdir + 'prelude_in.c'] = it['prelude']
        L.append("with open(os.path.join(_here, 'prelude_in.c'), encoding='utf-8', newline='') as _f:")
        L.append('    PRELUDE = _f.read()')
    elif how == 'helper':
        it['files'][sdir + 'c24h_%s.py' % tag] = '# helper\nPRELUDE = %r\n' % (it['prelude'],)
        if sdir and rnd.random() < 0.6:      # same module name in the working directory
            it['decoy_helper'] = True
            it['files']['c24h_%s.py' % tag] = '# decoy helper\nPRELUDE = "/* decoy helper */"\n'
        # the import is either at module level or the first statement of the code that builds the
        # FFI (inside the factory, for the styles that have one)
        it['lazy_import'] = rnd.random() < 0.5
        if not it['lazy_import']:
            L.append('from c24h_%s import PRELUDE' % tag)
    else:
        L.append('PRELUDE = %r' % (it['prelude'],))
    it['prelude_from'] = how
    kw = rnd.choice(['', '', ", libraries=['m']", ", source_extension='.cpp'",
                     ", extra_compile_args=['-O0'], define_macros=[('X', '1')]"])
    embed = rnd.random() < 0.12
    it['embedding'] = embed

    def body(obj, ind):
        b = ['%s.cdef(%r)' % (obj, it['cdef']),
             '%s.set_source(%r, PRELUDE%s)' % (obj, it['name'], kw)]
        if it.get('lazy_import'):
            b.insert(0, 'from c24h_%s import PRELUDE' % tag)
        if embed:
            b.insert(0, '%s.embedding_api("int %s_emb(int);")' % (obj, tag))
            b.append('%s.embedding_init_code(%r)' % (
                obj, '# %s\nfrom %s import ffi\n@ffi.def_extern()\ndef %s_emb(x):\n    return x\n'
                % (rtext(rnd), it['name'].split('.')[-1], tag)))
        return [ind + x for x in b]
    if style in ('direct', 'var'):
        L += ['%s = FFI()' % var] + body(var, '')
    elif style == 'def':
        L += ['def %s():' % var, '    b = FFI()'] + body('b', '    ') + ['    return b']
    elif style == 'lambda':
        L += ['_f = FFI()'] + body('_f', '') + ['%s = lambda: _f' % var]
    elif style == 'obj':
        L += ['_f = FFI()'] + body('_f', '') + ['class Maker(object):', '    def __call__(self):',
                                               '        return _f', '%s = Maker()' % var]
    elif style == 'subclass':
        L += ['class MyFFI(FFI):', '    pass', '%s = MyFFI()' % var] + body(var, '')
    elif style == 'class':   # the name is bound to a class; calling it gives the FFI
        L += ['class %s(FFI):' % var, '    def __init__(self):', '        FFI.__init__(self)'] + \
            body('self', '        ')
    elif style == 'callable-ffi':   # an FFI instance that happens to be callable is bound directly
        L += DECOY3 + ['class CallableFFI(FFI):', '    def __call__(self):', '        return _decoy3',
                       '%s = CallableFFI()' % var] + body(var, '')
    elif style == 'once':           # a factory with state: only its first call gives the FFI
        L += ['_f = FFI()'] + body('_f', '') + DECOY3 + [
            '_calls = []', 'def %s():' % var, '    _calls.append(1)',
            '    return _f if len(_calls) == 1 else _decoy3']
    elif style == 'partial':
        L += ['import functools', 'def _build(b):'] + body('b', '    ') + [
            '    return b', '%s = functools.partial(_build, FFI())' % var]
    elif style == 'method':
        L += ['class _Factory(object):', '    def make(self):', '        b = FFI()'] + \
            body('b', '        ') + ['        return b', '%s = _Factory().make' % var]
    else:   # 'new': a class that is not an FFI subclass; calling it gives the FFI
        L += ['class %s(object):' % var, '    def __new__(cls):', '        b = FFI()'] + \
            body('b', '        ') + ['        return b']
    if var != 'ffibuilder' and rnd.random() < 0.6:     # decoy under the default name
        L += ['ffibuilder = FFI()', "ffibuilder.cdef('int decoy(void);')",
              "ffibuilder.set_source('decoy.mod', '/* decoy */')"]
    elif rnd.random() < 0.4:
        L += ['other = FFI()', "other.cdef('int decoy2(void);')",
              "other.set_source('decoy2', '/* decoy2 */')", 'something_else = 42']
    L += ['if __name__ == %s:' % rnd.choice(['"__main__"', "'__main__'"]),
          "    open(os.path.join(_here, 'MAIN_RAN'), 'w').write(__name__)"]
    src = rnd.choice(['\n', '\n', '\n', '\r\n']).join(L) + '\n'
    pn = sdir + rnd.choice(['build.py', '_squared_build.py', 'construït.py', 'b d.py'])
    it['files'][pn] = src
    if pep263:
        it['latin1'] = pn
    elif rnd.random() < 0.06:
        it['bom_script'] = pn            # a build script saved as UTF-8 with BOM (valid Python)
        it['script_kind'] = 'utf8-bom'
    flag = []
    if var != 'ffibuilder' or rnd.random() < 0.2:
        flag = rnd.choice([['--ffi-var', var], ['--ffi-var=' + var]])
    it['args'] = ['exec-python'] + flag + [pn]
    it['inputs'] = [len(it['args']) - 1]
    it['script'] = pn
    it['has_cr'] = False
    return it


def item_key(it):
    import hashlib
    h = hashlib.md5(json.dumps([it['cdef'], it['prelude'], it['files']], sort_keys=True)
                    .encode()).hexdigest()[:10]
    return [it['sub'], it['style'], it['name'], it['out'], it['abs'], h]


def describe(it):
    return ascii({k: it[k] for k in ('seed', 'sub', 'style', 'name', 'args', 'out', 'abs',
                                      'preexisting') if k in it})


def B(d, name):
    """bytes path (file names are created as UTF-8 whatever the locale of the process)"""
    return os.path.join(d, name).encode('utf-8')


def argv_for(it, d, out):
    a = list(it['args'])
    if it['abs']:
        for i in it['inputs']:
            a[i] = os.path.join(d, a[i])
    if out == 'stdout':
        return a + ['-']
    return a + [os.path.join(d, it['out']) if it['abs'] else it['out']]


def materialize(it, d):
    os.makedirs(d)
    for sd in it['dirs']:
        os.makedirs(B(d, sd), exist_ok=True)
    for name, text in it['files'].items():
        if it.get('latin1') == name:
            data = text.encode('latin-1', 'backslashreplace')
        else:
            data = text.encode('utf-8')
            if it.get('bom_script') == name:
                data = b'\xef\xbb\xbf' + data
        with open(B(d, name), 'wb') as f:
            f.write(data)


def marker(it, d, m):
    """path of a marker file that the build script writes next to itself"""
    return B(d, it.get('scriptdir', '') + m)


def preexisting_kind(it, ref):
    """what the output path holds before the run (most kinds are derived from the reference bytes)"""
    kind = it['preexisting']
    if kind and kind != 'stale-long' and not ref.get('bytes'):
        kind = 'stale-long'
    return kind


def preexisting_bytes(kind, ref):
    refb = ref.get('bytes')
    if kind == 'identical':
        return refb
    if kind == 'crlf-twin':                 # reads back equal to the reference in text mode
        return refb.replace(b'\r\n', b'\n').replace(b'\n', b'\r\n')
    if kind == 'same-size':
        return refb.swapcase()
    if kind == 'prefix':
        return refb[:len(refb) * 2 // 3]
    if kind == 'ref-plus-tail':
        return refb + b'/* stale tail \xc3\xa9 */\n' * 40
    return b'/* stale \xc3\xa9 */\n' * 3000


def prepare_output(it, d, ref):
    p = B(d, it['out'])
    if os.path.lexists(p):
        os.unlink(p)
    kind = preexisting_kind(it, ref)
    if kind:
        with open(p, 'wb') as f:
            f.write(preexisting_bytes(kind, ref))
    for m in ('MAIN_RAN', 'ORIGIN'):
        if os.path.exists(marker(it, d, m)):
            os.unlink(marker(it, d, m))


# ---------------------------------------------------------------------------
# the oracle (shared by worker and child)

def first_diff(a, b):
    n = min(len(a), len(b))
    i = next((k for k in range(n) if a[k] != b[k]), n)
    return 'lengths %d vs reference %d, first difference at byte %d: got %r, reference %r' % (
        len(a), len(b), i, a[max(0, i - 20):i + 40], b[max(0, i - 20):i + 40])


def judge_run(rep, env, it, d, how, out, status, got, ref, err=''):
    sub = it['sub']
    rep.stat('runs_%s' % how)
    rep.stat('runs_%s_%s' % (sub, out))
    ok = 'bytes' in ref
    rep.case([env, how, out] + item_key(it), nontrivial=ok,
             sample={'env': env, 'how': how, 'out': out, 'item': describe(it)})
    what = '[%s, %s, env %s] %s' % (how, out, env, describe(it))
    if sub == 'exec-python':
        if os.path.exists(marker(it, d, 'MAIN_RAN')):
            rep.bad('exec-python:main-block-ran', 'the __main__ block of the script ran ' + what,
                    it['seed'])
        if how.startswith('proc') and os.path.exists(marker(it, d, 'ORIGIN')):
            with open(marker(it, d, 'ORIGIN')) as f:
                org = f.read()
            if not org.startswith(os.path.join(build.REPO, 'src') + os.sep):
                rep.bad('harness:wrong-cffi', 'the command line ran %s' % org, it['seed'])
    if not ok:
        rep.stat('vacuous_reference_raised')
        rep.stat('vacuous:%s:tool_%s' % (ref['err'].split(':')[0],
                                         'failed_too' if status != 0 else 'succeeded'))
        return
    refb = ref['bytes']
    rep.stat('style_' + it['style'])
    if it['has_cr']:
        rep.stat('input_files_with_CR')
    if any(ord(c) > 127 for c in it['prelude'] + it['name']):
        rep.stat('nonascii_in_output')
    if out == 'file':
        rep.stat('preexisting_%s' % (preexisting_kind(it, ref) or 'absent'))
        if '-' in it['out']:
            rep.stat('output_name_with_dash')
        if os.path.basename(it['out']) == '-':
            rep.stat('output_file_named_dash')
    if it.get('odd_name'):
        rep.stat('module_name_not_identifier_path')
    if it.get('twin_inputs'):
        rep.stat('read_sources_inputs_with_identical_content')
    if it.get('scriptdir'):
        rep.stat('script_in_subdirectory')
        rep.stat('script_in_subdirectory:prelude_%s' % it['prelude_from'])
    if it.get('decoy_helper'):
        rep.stat('decoy_helper_module_in_cwd')
    if it.get('lazy_import') and it['style'] in ('def', 'class', 'partial', 'method', 'new'):
        rep.stat('helper_imported_inside_factory')
    if sub == 'exec-python' and it['script_kind'] != 'utf8':
        sub += '(%s)' % it['script_kind']
    tag = '%s:%s' % (sub, out)
    if status != 0:
        rep.bad(sub + ':exit-status', 'exit status %r, reference emit_c_code() wrote %d bytes; %s\n%s'
                % (status, len(refb), what, err[-700:]), it['seed'])
        return
    if got is None:
        rep.bad(tag + ':no-output', 'exit status 0 but no output file; ' + what, it['seed'])
        return
    if got == refb:
        rep.stat('identical_%s' % out)
        return
    if out == 'stdout' and got.endswith(refb) and GEN_LINE.match(got[:len(got) - len(refb)]):
        rep.stat('stdout_identical_after_generating_line')
        rep.bad('stdout:generating-line-prefixed',
                "output '-' writes the line %r to stdout before the generated source (the rest is "
                "identical); %s" % (got[:len(got) - len(refb)], what), it['seed'])
        return
    rep.bad(tag + ':bytes-differ', '%s; %s' % (first_diff(got, refb), what), it['seed'])


def read_bytes(p):
    try:
        with open(p, 'rb') as f:
            return f.read()
    except OSError:
        return None


# ---------------------------------------------------------------------------
# worker: runs in the environment under test

class Fd1(object):
    """redirect fd 1 (the real sys.stdout stays in place) into a file"""
    def __init__(self, path):
        self.path = path

    def __enter__(self):
        sys.stdout.flush()
        self.saved = os.dup(1)
        fd = os.open(self.path, os.O_WRONLY | os.O_CREAT | os.O_TRUNC, 0o644)
        os.dup2(fd, 1)
        os.close(fd)

    def __exit__(self, *a):
        try:
            sys.stdout.flush()
        finally:
            os.dup2(self.saved, 1)
            os.close(self.saved)


def reference(it, d):
    """bytes that FFI.emit_c_code(path) writes, in this process' environment"""
    from cffi import FFI
    refp = os.path.join(d, 'REF.c')
    for x in (it['name'], it.get('var', '')):
        if os.fsdecode(x.encode('utf-8')) != x:     # not cffi's doing: argv cannot carry it
            return {'err': 'ArgvNotRepresentableInLocale: %s' % ascii(x)}
    old = sys.path[:]
    try:
        with Fd1(os.path.join(d, 'REF.stdout')):
            if it['sub'] == 'read-sources':
                ffi = FFI()
                ffi.cdef(it['ref']['cdef'])
                ffi.set_source(it['name'], it['ref']['prelude'])
            else:
                path = os.fsdecode(B(d, it['script']))         # as a process receives it
                with open(B(d, it['script']), 'rb') as f:
                    code = compile(f.read(), path, 'exec')     # Python's own source decoding
                g = {'__name__': 'c24_reference', '__file__': path}
                sys.path.insert(0, os.path.dirname(path))      # as when Python runs the script
                exec(code, g, g)
                ffi = g[it['var']]
                if not isinstance(ffi, FFI):
                    ffi = ffi()
            ffi.emit_c_code(refp)
        return {'bytes': read_bytes(refp)}
    except Exception as e:
        return {'err': '%s: %s' % (type(e).__name__, ascii(str(e))[:300])}
    finally:
        sys.path[:] = old
        forget_helpers()


def forget_helpers():
    """every execution of a build script imports its helper module afresh"""
    for k in [k for k in sys.modules if k.startswith('c24h_')]:
        del sys.modules[k]


def run_inproc(how, argv, capture):
    """the real command line, in this process; returns (status, stderr-ish text)"""
    import runpy
    import cffi._cffi_gen_src as gs
    argv = [os.fsdecode(a.encode('utf-8')) for a in argv]     # what a process would receive
    old_argv = sys.argv
    status, err = 0, ''
    try:
        with Fd1(capture):
            try:
                if how == 'inproc-run':
                    status = gs.run(argv)
                else:
                    sys.argv = [os.path.join(os.path.dirname(gs.__file__), 'gen_src.py')] + argv
                    runpy.run_module('cffi.gen_src', run_name='__main__', alter_sys=True)
            except SystemExit as e:
                status = e.code
            except Exception as e:
                import traceback
                status, err = 1, traceback.format_exc()
    except Exception as e:            # flushing stdout failed
        status, err = 1, 'flush: %r' % (e,)
    finally:
        sys.argv = old_argv
        forget_helpers()
    return (0 if status is None else status), err


def worker():
    jobp, outp = sys.argv[1:3]
    with open(jobp) as f:
        job = json.load(f)
    case, wd = job['case'], job['wd']
    env = case['env']
    import cffi
    rep = core.ChildRep()
    if not os.path.abspath(cffi.__file__).startswith(os.path.join(build.REPO, 'src') + os.sep):
        rep.bad('harness:wrong-cffi', 'worker imported %s' % cffi.__file__)
    import locale
    rep.stat('env_%s[stdout=%s,locale=%s]' % (env, sys.stdout.encoding,
                                             locale.getpreferredencoding(False)))
    keep = set(case['proc'])
    refs = {}
    for n, seed in enumerate(case['seeds']):
        it = make_item(seed)
        d = os.path.join(wd, 'i%x' % seed)
        try:
            materialize(it, d)
            os.chdir(d)
            ref = reference(it, d)
            order = ['inproc-run', 'inproc-m'] if n % 2 else ['inproc-m', 'inproc-run']
            for how, out in zip(order, ['file', 'stdout']):
                prepare_output(it, d, ref)
                cap = os.path.join(d, 'STDOUT.bin')
                status, err = run_inproc(how, argv_for(it, d, out), cap)
                got = read_bytes(cap if out == 'stdout' else B(d, it['out']))
                judge_run(rep, env, it, d, how, out, status, got, ref, err)
        except Exception:
            import traceback
            rep.bad('harness:worker-exception', traceback.format_exc()[-900:], seed)
            continue
        finally:
            os.chdir(wd)
        if seed in keep:
            refs[str(seed)] = {'err': ref['err']} if 'err' in ref else {'file': os.path.join(d, 'REF.c')}
        else:
            shutil.rmtree(d, ignore_errors=True)
    with open(outp, 'w') as f:
        json.dump({'rep': rep.result(), 'refs': refs}, f)


# ---------------------------------------------------------------------------
# framework entry points

def generate(ctx):
    rng = ctx.rng('gen')
    per_env = ctx.scale(4, 8)
    nseeds = ctx.scale(80, 300)
    nproc = ctx.scale(3, 12)
    cases = []
    for k in range(per_env):
        for env in ENVS:
            seeds = [rng.getrandbits(40) for _ in range(nseeds)]
            cases.append({'env': env, 'seeds': seeds, 'proc': seeds[:nproc],
                          'runs': 4 if ctx.thorough else 2, 'rot': len(cases)})
    return None, cases


def child_setup(setup, wd):
    script = os.path.join(os.path.dirname(build.PY), 'cffi-gen-src')
    st = {'wd': wd, 'script': script, 'installed': os.path.exists(script)}
    if not st['installed']:      # same text as the entry point that pip generates
        script = os.path.join(wd, 'cffi-gen-src')
        with open(script, 'w') as f:
            f.write('#!%s\nimport sys\nfrom cffi._cffi_gen_src import run\n'
                    "if __name__ == '__main__':\n    sys.exit(run())\n" % build.PY)
        os.chmod(script, 0o755)
        st['script'] = script
    return st


def child_case(st, case):
    wd = tempfile.mkdtemp(prefix='c24-', dir=st['wd'])
    env = build.child_env('plain', extra=ENVS[case['env']])
    jobp, outp = os.path.join(wd, 'job.json'), os.path.join(wd, 'out.json')
    with open(jobp, 'w') as f:
        json.dump({'case': case, 'wd': wd}, f)
    rep = core.ChildRep()
    p = None
    try:
        p = subprocess.run([build.PY, '-c', 'from props.c24 import worker; worker()', jobp, outp],
                           env=env, cwd=wd, stdout=subprocess.PIPE, stderr=subprocess.PIPE,
                           timeout=800)
        with open(outp) as f:
            wres = json.load(f)
    except subprocess.TimeoutExpired:
        rep.bad('harness:worker-timeout', 'worker timed out')
        return {'parts': [rep.result()]}
    except (OSError, ValueError):
        rep.bad('harness:worker-failed', 'worker failed: %s' % (
            p and 'rc=%s %s' % (p.returncode, p.stderr.decode(errors='replace')[-1500:]),))
        return {'parts': [rep.result()]}
    rep.stat('console_script_installed' if st['installed'] else 'console_script_generated')
    for k, seed in enumerate(case['proc']):
        it = make_item(seed)
        d = os.path.join(wd, 'i%x' % seed)
        r = wres['refs'].get(str(seed))
        if r is None:
            continue
        ref = {'err': r['err']} if 'err' in r else {'bytes': read_bytes(r['file'])}
        for j in range(case['runs']):
            how, out = COMBOS[(case.get('rot', 0) + k + j) % 4]
            prepare_output(it, d, ref)
            cmd = [st['script']] if how == 'proc-script' else [build.PY, '-m', 'cffi.gen_src']
            try:
                p = subprocess.run(cmd + argv_for(it, d, out), env=env, cwd=d, timeout=120,
                                   stdin=subprocess.DEVNULL, stdout=subprocess.PIPE,
                                   stderr=subprocess.PIPE)
            except subprocess.TimeoutExpired:
                rep.bad('harness:tool-timeout', 'command line timed out: ' + describe(it), seed)
                continue
            got = p.stdout if out == 'stdout' else read_bytes(B(d, it['out']))
            judge_run(rep, case['env'], it, d, how, out, p.returncode, got, ref,
                      p.stderr.decode(errors='replace'))
    shutil.rmtree(wd, ignore_errors=True)
    return {'parts': [wres['rep'], rep.result()]}


def judge(ctx, setup, case, obs):
    for part in obs['parts']:
        core.absorb(ctx, case, part, lambda seed: {'env': case['env'], 'seeds': [seed],
                                                   'proc': [seed], 'runs': 4, 'rot': 0})
