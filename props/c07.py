"""C07 -- the Python (in-line) and C (compiled/out-of-line) type-string parsers
denote the same type.

Differential: per random declaration context, the same cdef is loaded in an
in-line FFI (pycparser-based parser) and given to the C parser with populated
tables in one of three ways: emitted with emit_python_code() and imported
(out-of-line ABI module), split over a chain of out-of-line modules that
ffi.include() each other, or compiled as an API-mode extension module.
Grammar-generated type strings (well-formed and near-miss) go through both:
both must reject, or both accept with the same meaning (identical ctype object
for non-aggregates; same kind and name for aggregates).  'Reject' = any
exception (the class is C30's business).

Besides the random strings every context gets *directed probes* (input
classes that random token mutation reaches too rarely or that would otherwise be
filed under a recorded leniency class): all standard type names, names that are
one character away from a declared name, function typedefs, constants of an
included ffi as array length, trailing tokens, malformed numbers, function types
through the callback() entry point, and sizeof/alignof/getctype/cast as
alternative entry points of the same parsers.
"""
import os, sys, random, re
from vlib import core, gen_cdef as GC, gen_tstr as TS

RULE = ("case = (declaration context, type string); contexts: ~10 typedefs/structs/unions/enums/"
        "constants, half of them renamed to adversarial identifiers (prefix chains, keyword and "
        "standard-typename look-alikes, names shared between tag and ordinary namespace) plus "
        "anonymous/opaque/function/array typedefs; C-parser side = out-of-line module, include() "
        "chain of 2-3 out-of-line modules, or compiled API module; strings from the shared "
        "declarator grammar (specifier permutations, cv "
        "qualifiers anywhere, pointers, arrays with decimal/octal/hex/named lengths, function "
        "pointers with fixed/void/variadic parameters and optional names, __cdecl/__stdcall, "
        "redundant and nested grouping parentheses) plus token-level near-miss mutants; extended "
        "strings: every standard type name, boundary/zero/negative/huge array lengths, function-typed "
        "parameters, long parameter lists, deep nesting, whitespace variation; directed probes per "
        "context; distinct = "
        "(context, string); non-trivial = string has a declarator (pointer/array/function)")
ASSUMPTIONS = ["strings naming an undeclared struct/union/enum tag are not generated (the in-line FFI creates an opaque type, the C parser has no entry: outside the stated grammar)",
               "which exception class escapes on rejection is not compared (property C30)",
               "__stdcall and __cdecl function pointers are the same ctype on this platform (non-Windows), so the calling convention itself is not observable",
               "type strings stay far below the C parser's fixed opcode budget (FFI_COMPLEXITY_OUTPUT)",
               "the outermost length of an array-typed *parameter* is always a valid length (0..SSIZE_MAX): the in-line parser drops it (the parameter becomes a pointer), so a negative or too large one there is an ill-formed string that only the in-line parser accepts (recorded class)",
               "in an include() chain all declarations with numbered anonymous nested aggregates are kept in one module (modules number them independently and '$1' of the includer resolves to the included module's '$1': a defect of include(), not of the parsers)",
               "a function-typed parameter always has parameters of its own, and the qualifiers of the first parameter of a function declarator are written after its specifiers in the random strings (the qualifier-first form has its own directed probe)"]
SAN_DECIDES = False      # the C parser's memory safety is decided by C30 on the same workload


# ---------------------------------------------------------------------------
# declaration contexts

KEYWORDS = set('char short int long signed unsigned float double _Bool void _Complex const volatile '
               'struct union enum __cdecl __stdcall restrict inline static extern typedef auto '
               'register sizeof return if else for while do switch case default break continue goto '
               '_Alignas _Alignof _Atomic _Generic _Noreturn _Static_assert _Thread_local bool '
               'FILE WINAPI unix linux i386 asm typeof'.split())

STD_NAMES = ['int8_t', 'uint8_t', 'int16_t', 'uint16_t', 'int32_t', 'uint32_t', 'int64_t',
             'uint64_t', 'intptr_t', 'uintptr_t', 'ptrdiff_t', 'size_t', 'ssize_t', 'wchar_t',
             'int_least8_t', 'uint_least8_t', 'int_least16_t', 'uint_least16_t', 'int_least32_t',
             'uint_least32_t', 'int_least64_t', 'uint_least64_t', 'int_fast8_t', 'uint_fast8_t',
             'int_fast16_t', 'uint_fast16_t', 'int_fast32_t', 'uint_fast32_t', 'int_fast64_t',
             'uint_fast64_t', 'intmax_t', 'uintmax_t', 'char16_t', 'char32_t',
             '_cffi_float_complex_t', '_cffi_double_complex_t', 'FILE', 'bool']
EXT_NAMED = [n for n in STD_NAMES if n not in TS.NAMED_PRIMS]

# families of adversarial identifiers: members of one family are prefixes /
# extensions of each other or of a keyword / standard type name
FAMILIES = [
    ['in', 'int_', 'int_x', 'intx', 'INT', 'inte', 'integer'],
    ['lon', 'longer', 'long_', 'longlong'],
    ['shor', 'shorts', 'short_'],
    ['signe', 'signed_', 'unsigne', 'unsigned_', 'unsignedint'],
    ['cha', 'chars', 'char_', 'charp'],
    ['floa', 'floats', 'doubl', 'doubles', 'double_'],
    ['voi', 'void_', 'voidp', 'volatil', 'volatile_'],
    ['cons', 'const_', 'constant'],
    ['struc', 'structs', 'struct_', 'unio', 'unions', 'union_', 'enu', 'enums', 'enum_'],
    ['_Boo', '_Bool_', '_Boolean', '_Comple', '_Complex_', 'boo', 'bool_', 'boolean'],
    ['__cdec', '__cdecl_', '__stdcal', '__stdcall_'],
    ['int8_', 'int8_tt', 'uint8', 'uint8_tt', 'int9_t', 'uint8x_t', 'int24_t', 'intx_t'],
    ['size_', 'size_tt', 'ssize', 'ssize_tt', 'xsize_t', 'sssize_t'],
    ['intptr', 'intptr_tt', 'uintptr', 'ptrdiff', 'ptrdiff_tt', 'intmin_t', 'intmax_', 'uintmax'],
    ['wchar', 'wchar_tt', 'wchar2_t', 'char16', 'char16_tt', 'char32_', 'char8_t'],
    ['int_least8', 'uint_least9_t', 'int_fast8_tt', 'int_fast8x_t', 'uint_fast16', 'uint_fast1_t'],
    ['FIL', 'FILE_', 'FILEX', 'FILE_t'],
    ['b', 'ab', 'abc', 'abc_', 'abc_t', 'abc_t1', 'abc_t10', 'abc_t100'],
    ['A', 'AB', 'ABC', 'ABC_', 'ABC_1', 'ABC_10'],
    ['z', 'zz', 'zzz', 'zzzz', 'z_', 'z__', 'z_t'],
    ['x', 'x0', 'x00', 'x000', 'x1', 'x_t', 'xt'],
    ['my_t', 'my_tt', 'my_', 'my', 'm'],
    ['__', '_1', '_1_', '___', '_t', '__t'],
]


def _rename_plan(rnd, ordinary, tags, macros=()):
    """old name -> adversarial name; ordinary identifiers (typedefs, constants,
    enumerators) are pairwise distinct, tags are pairwise distinct, a tag may
    equal an ordinary identifier - but not a '#define' constant: in the C text
    given to gcc the macro would replace the tag"""
    plan = {}
    for group in (ordinary, tags):
        fams = list(FAMILIES)
        rnd.shuffle(fams)
        taken = set(plan[m] for m in macros if m in plan)
        pool = [n for f in fams for n in f if n not in taken]
        todo = list(group)
        rnd.shuffle(todo)
        for old, new in zip(todo, pool):
            plan[old] = new
    return plan


class Cx(object):
    """a declaration context derived from a seed: text (whole and in include
    parts), matching C source, the declared names"""

    def __init__(self, seed):
        self.seed = seed
        rnd = random.Random(seed)
        c = GC.Ctx(rnd, prefix='q%d_' % (seed % 100000), nd=rnd.choice([4, 8, 12]), funcs=False,
                   globals_=False)
        rv = random.Random(seed * 31 + 7)
        self.adv = rv.random() < 0.5
        self.nparts = rv.choice([1, 1, 1, 2, 3])
        typedefs = [d['name'] for d in c.typedefs]
        structs = [d['name'] for d in c.items if d['kind'] == 'agg' and d['agg']['kind'] == 'struct']
        unions = [d['name'] for d in c.items if d['kind'] == 'agg' and d['agg']['kind'] == 'union']
        enums = [d['name'] for d in c.enums]
        consts = [(d['name'], d['value']) for d in c.consts]
        enumerators = [(en, v) for e in c.enums for en, v in e['values']]
        texts = [d['text'] for d in c.items]
        ctexts = [(d['ctext'] if d['kind'] == 'const' else d['text']) for d in c.items]
        owner = {}                      # constant name -> index of its declaration
        for i, d in enumerate(c.items):
            if d['kind'] == 'const':
                owner[d['name']] = i
        self.fntypedefs = []
        if self.adv:
            X = ['%sx%d' % (c.p, i) for i in range(12)]
            extra = ['typedef struct { int f1; char f2; } %s;' % X[0],
                     'typedef union { int f1; char f2; } %s;' % X[1],
                     'typedef enum { %s, %s = 7 } %s;' % (X[10].upper(), X[11].upper(), X[2]),
                     'typedef struct %s %s;' % (X[3], X[4]),
                     'typedef struct %s *%s;' % (X[3], X[5]),
                     'typedef int %s(int, char *);' % X[6],
                     'typedef void %s(void);' % X[7],
                     'typedef %s *%s;' % (X[6], X[8]),
                     'typedef long %s[3];' % X[9]]
            own_bool = rv.random() < 0.5
            texts += extra
            ctexts += extra
            typedefs += [X[0], X[1], X[2], X[4], X[5], X[8], X[9]]
            structs.append(X[3])
            fntd = [X[6], X[7]]
            enumerators += [(X[10].upper(), 0), (X[11].upper(), 7)]
            plan = _rename_plan(rv, typedefs + fntd + [n for n, _ in consts] +
                                [n for n, _ in enumerators], structs + unions + enums,
                                macros=[n for n, _ in consts])
            rx = re.compile(r'\b(' + '|'.join(re.escape(k) for k in sorted(plan, key=len,
                                                                         reverse=True)) + r')\b')
            ren = lambda t: rx.sub(lambda m: plan[m.group(1)], t)
            texts = [ren(t) for t in texts]
            ctexts = [ren(t) for t in ctexts]
            r1 = lambda n: plan.get(n, n)
            typedefs = [r1(n) for n in typedefs]
            structs = [r1(n) for n in structs]
            unions = [r1(n) for n in unions]
            enums = [r1(n) for n in enums]
            consts = [(r1(n), v) for n, v in consts]
            enumerators = [(r1(n), v) for n, v in enumerators]
            owner = dict((r1(n), i) for n, i in owner.items())
            self.fntypedefs = [r1(n) for n in fntd]
            if own_bool:
                # a user typedef of one of cffi's predefined common names (added after the
                # renaming): the context's own declaration must win in both parsers
                texts.append('typedef unsigned char bool;')
                ctexts.append('typedef unsigned char bool;')
                typedefs.append('bool')
        self.typedefs, self.structs, self.unions, self.enums = typedefs, structs, unions, enums
        self.consts, self.enumerators = consts, enumerators
        # include parts: consecutive runs of declarations (a declaration only
        # refers to earlier ones)
        # (All declarations with *numbered* anonymous aggregates - nested 'struct { }'
        # members - stay in one module: modules that include each other number them
        # independently, '$1' of the includer then resolves to '$1' of the included
        # module; that defect belongs to the include() properties, not to the parsers.)
        n = len(texts)
        anon = [i for i, t in enumerate(texts) if re.search(r'\b(struct|union)\s*\{', t)
                and not t.startswith('typedef')]
        valid = [j for j in range(1, n) if not anon or j <= anon[0] or j > anon[-1]]
        k = min(self.nparts, len(valid) + 1)
        inner = sorted(rv.sample(valid, k - 1))
        cuts = [0] + inner + [n]
        self.parts = ['\n'.join(texts[cuts[i]:cuts[i + 1]]) + '\n' for i in range(k)]
        self.nparts = k
        self.text = '\n'.join(texts) + '\n'
        self.ctext = '\n'.join(ctexts) + '\n'
        # constants that are not declared by the last module of an include chain
        self.included_consts = [nm for nm, v in consts if owner[nm] < cuts[k - 1]]

    def c_source(self):
        return '\n'.join(['#include <stdint.h>', '#include <stddef.h>', '#include <sys/types.h>',
                          '#include <wchar.h>', '#include <uchar.h>', self.ctext])

    def names(self, all_consts=False):
        inc = set(self.included_consts)
        cs = [(n, v) for n, v in self.consts if n not in inc] + list(self.enumerators)
        if not all_consts:
            cs = [(n, v) for n, v in cs if 0 < v < 5000]
        return dict(typedefs=list(self.typedefs), structs=list(self.structs),
                    unions=list(self.unions), enums=list(self.enums), consts=[n for n, v in cs])


def generate(ctx):
    rng = ctx.rng('gen')
    nctx = ctx.scale(40, 400)
    per = 4
    seeds = [rng.getrandbits(40) for _ in range(nctx)]
    # a few contexts get the C parser of a *compiled* (API mode) module.  The modules
    # are built by the system compiler while the children already work: the contexts
    # are taken from the last cases and a child waits for the builder's result file
    napi = ctx.scale(2, 10)
    single = [s for s in seeds if Cx(s).nparts == 1]
    api = single[-napi:]
    setup = {'api': build_api(ctx, api, wait=False)}
    return setup, [{'seeds': seeds[i:i + per], 'nstr': ctx.scale(460, 1600),
                    'api': [s for s in seeds[i:i + per] if s in api]}
                   for i in range(0, nctx, per)]


API_BUILD = []           # [thread, result holder] of the running build


def build_api(ctx, seeds, wait=True):
    """-> {str(seed): directory that holds (will hold) the module _c07api_<seed>}"""
    if not seeds:
        return {}
    import threading
    from vlib import modbuild
    d = os.path.join(ctx.tmp, 'api')
    specs = []
    for s in seeds:
        cx = Cx(s)
        specs.append({'name': '_c07api_%d' % s, 'kind': 'api', 'cdef': cx.text,
                      'source': cx.c_source(), 'dir': d})
    holder = {}

    def work():
        try:
            holder['res'] = modbuild.build_modules(ctx, specs, cflags='-O0 -w')
        except Exception as e:
            holder['exc'] = '%s: %s' % (type(e).__name__, e)
    th = threading.Thread(target=work)
    th.daemon = True
    th.start()
    API_BUILD[:] = [th, holder, list(seeds)]
    if wait:
        collect_api(ctx)
    return dict((str(s), d) for s in seeds)


def collect_api(ctx):
    if not API_BUILD:
        return
    th, holder, seeds = API_BUILD
    del API_BUILD[:]
    th.join(900)
    res = holder.get('res') or {}
    for s in seeds:
        r = res.get('_c07api_%d' % s) or {'error': holder.get('exc', 'builder did not finish')}
        if r.get('ok'):
            ctx.count('api_modules_built')
        else:
            ctx.inconclusive('API module for context %d did not build: %s' %
                             (s, (r.get('error') or '')[-300:]))


def replay_setup(ctx, case):
    return {'api': build_api(ctx, case.get('api', []))}


def child_setup(setup, wd):
    import warnings
    warnings.simplefilter('ignore')
    sys.path.insert(0, wd)
    import _cffi_backend
    return {'wd': wd, 'bare': _cffi_backend.FFI(), 'api': (setup or {}).get('api', {})}


def make_ctx(seed):
    return Cx(seed)


def meaning(ffi, t, depth=0):
    """comparable meaning of a ctype: identity for non-aggregate types not
    involving aggregates, structure otherwise (aggregates by kind and name)"""
    k = t.kind
    if k in ('struct', 'union', 'enum'):
        return (k, t.cname)
    if not over_agg(t):
        return ('id', id(t))
    if k in ('pointer', 'array'):
        return (k, getattr(t, 'length', None), meaning(ffi, t.item, depth + 1))
    if k == 'function':
        # 'ctype.ellipsis' also reports True for a non-variadic function type that libffi
        # cannot describe (a struct with 'long double' by value; DESIGN section 4, (j)), and
        # whether it does depends on when the type was first built: variadic is read from
        # the name instead
        ell = bool(t.ellipsis) and t.cname.count('...') > (
            sum(a.cname.count('...') for a in t.args) + t.result.cname.count('...'))
        return ('function', tuple(meaning(ffi, a) for a in t.args), meaning(ffi, t.result),
                ell, t.abi)
    return ('other', k, t.cname)


def over_agg(t):
    k = t.kind
    if k in ('struct', 'union', 'enum'):
        return True
    if k in ('pointer', 'array'):
        return over_agg(t.item)
    if k == 'function':
        return over_agg(t.result) or any(over_agg(a) for a in t.args)
    return False


def same_meaning(m1, m2, tdn):
    """equality of two meanings; an aggregate whose in-line display name was
    forced by a typedef (recorded C11 finding) matches the aggregate of the same
    kind whatever its name"""
    if isinstance(m1, tuple) and isinstance(m2, tuple):
        if len(m1) == 2 and len(m2) == 2 and m1[0] in ('struct', 'union', 'enum'):
            return m1[0] == m2[0] and (m1[1] == m2[1] or m1[1] in tdn)
        return len(m1) == len(m2) and all(same_meaning(a, b, tdn) for a, b in zip(m1, m2))
    return m1 == m2


SPEC_WORDS = set('char short int long signed unsigned float double _Bool void _Complex'.split())
QUALS = set(['const', 'volatile'])
DELIM = set(['*', '(', ')', ',', '[', ']', '...', '__cdecl', '__stdcall'])


def fix_quals(toks):
    """repair 1: inside every declaration-specifier run move the cv-qualifiers in
    front of the specifier words ('unsigned volatile short' -> 'volatile unsigned
    short'); pointer qualifiers (a run that directly follows '*') are left alone"""
    out, run = [], []
    prev = None

    def flush():
        if run:
            if prev_of_run[0] == '*' or all(x in QUALS for x in run):
                out.extend(run)
            else:
                out.extend([x for x in run if x in QUALS] + [x for x in run if x not in QUALS])
            del run[:]
    prev_of_run = [None]
    for x in toks:
        if x in DELIM or not (x[0].isalpha() or x[0] == '_'):
            flush()
            out.append(x)
            prev = x
        else:
            if not run:
                prev_of_run[0] = prev
            run.append(x)
            prev = x
    flush()
    return out


def fix_parens(toks):
    """repair 2: drop redundant grouping parentheses: a pair whose content is a
    declarator (starts with '*', '(' or a calling convention) and that is not
    followed by '(' or '[' binds nothing: '( ( * ) )' -> '( * )',
    'T ( ( * ) ( void ) )' -> 'T ( * ) ( void )'"""
    toks = list(toks)
    changed = True
    while changed:
        changed = False
        for i in range(len(toks)):
            if toks[i] != '(':
                continue
            depth, j = 0, i
            while j < len(toks):
                if toks[j] == '(':
                    depth += 1
                elif toks[j] == ')':
                    depth -= 1
                    if depth == 0:
                        break
                j += 1
            if j >= len(toks):
                continue
            content = toks[i + 1:j]
            if not content or content[0] not in ('*', '(', '__cdecl', '__stdcall'):
                continue
            nxt = toks[j + 1] if j + 1 < len(toks) else None
            if nxt in ('(', '[') and content[0] != '(':
                continue
            # the content must itself contain a parenthesised sub-declarator,
            # otherwise these are the only parentheses of a pointer declarator
            if '(' not in content:
                if not (i > 0 and toks[i - 1] == '('):
                    continue
            if content[0] in ('__cdecl', '__stdcall'):
                content = content[1:]
            toks = toks[:i] + content + toks[j + 1:]
            changed = True
            break
    return toks


def fix_cc(toks):
    """repair 6: drop calling-convention keywords that are *not* in the canonical
    position '( __cdecl *' / '( __stdcall *' (both parsers must agree on the
    canonical form itself)"""
    out = []
    for i, x in enumerate(toks):
        if x in ('__cdecl', '__stdcall') and not (
                i > 0 and toks[i - 1] == '(' and i + 1 < len(toks) and toks[i + 1] == '*'):
            continue
        out.append(x)
    return out


def fix_arraylen(toks):
    """repair 3: an array length that is an expression ('[ ( 7 ) ]', '[ 0XA -1 ]'):
    the common grammar has a literal or a named constant only"""
    out, i = [], 0
    while i < len(toks):
        out.append(toks[i])
        if toks[i] == '[':
            j = i + 1
            while j < len(toks) and toks[j] != ']':
                j += 1
            if j < len(toks) and (j - i - 1 > 1 or (j - i - 1 == 1 and toks[i + 1][0].isdigit()
                                                    and toks[i + 1][-1] in 'uUlL')):
                out.append('3')
                i = j
                continue
        i += 1
    return out


def fix_voidparam(toks):
    """repair 4: a sole 'void' parameter that carries a qualifier or a name"""
    out = list(toks)
    for i in range(len(out)):
        if out[i] == '(':
            j = i + 1
            seg = []
            while j < len(out) and out[j] not in ('(', ')', ',', '*', '[', ']'):
                seg.append(out[j])
                j += 1
            if j < len(out) and out[j] == ')' and 'void' in seg and len(seg) > 1 and \
                    all(x == 'void' or x in QUALS or x.startswith('a') for x in seg):
                return out[:i + 1] + ['void'] + out[j:]
    return out


def fix_fnq(toks):
    """normalisation 7: the parameter list of a *function* declarator (a '(' that
    follows a word - a type or parameter name or a pointer qualifier - or '*',
    not ')' as in '(*)(...)')
    whose first parameter starts with cv-qualifiers: move these qualifiers
    behind the specifier words ('int (const char *)' -> 'int (char const *)').
    The C parser takes '(' + qualifier for grouping parentheses; the class has
    its own directed probe (function-parameter-list-starts-with-qualifier)"""
    out = list(toks)
    i = 1
    while i < len(out) - 1:
        if out[i] == '(' and out[i + 1] in QUALS and (out[i - 1][0].isalnum() or out[i - 1][0] in '_$*'):
            j = i + 1
            while j < len(out) and out[j] in QUALS:
                j += 1
            k = j
            while k < len(out) and out[k] not in DELIM and out[k] not in QUALS and \
                    (out[k][0].isalpha() or out[k][0] in '_$'):
                k += 1
                if out[k - 1] not in SPEC_WORDS and out[k - 1] not in ('struct', 'union', 'enum'):
                    break          # a type name or tag ends the specifier run
            if k > j:
                out[i + 1:k] = out[j:k] + out[i + 1:j]
        i += 1
    return out


def undeclared_tag(toks, declared):
    for i, x in enumerate(toks[:-1]):
        if x in ('struct', 'union', 'enum'):
            y = toks[i + 1]
            if (y[0].isalpha() or y[0] in '_$') and (x, y) not in declared:
                return True
    return False


def make_fix_names(known):
    """repair 5: a declarator *name* (an identifier that is not a type name of the
    context, or a parameter name a<N>) - the C parser takes abstract declarators
    and plain 'type name' parameters only"""
    import re

    def fix(toks):
        out = []
        for i, x in enumerate(toks):
            if (x[0].isalpha() or x[0] in '_$') and x not in known and x not in SPEC_WORDS \
                    and x not in QUALS and x not in DELIM and x not in ('struct', 'union', 'enum') \
                    and not (i > 0 and toks[i - 1] in ('struct', 'union', 'enum')):
                continue
            out.append(x)
        for i in range(len(out) - 2):
            if out[i] == '(' and out[i + 1] == ')' and out[i + 2] == '(' and i > 0 and \
                    out[i - 1] not in (')', ']'):
                out[i:i + 2] = ['(', '*', ')']     # 'T (name)(args)' is 'T (*)(args)'
                break
        # '( )' left behind by a parenthesised name
        changed = True
        while changed:
            changed = False
            for i in range(len(out) - 1):
                if out[i] == '(' and out[i + 1] == ')' and i > 0 and \
                        out[i - 1] not in (')', ']') and (i + 2 >= len(out) or out[i + 2] != '('):
                    # only when it cannot be an empty parameter list
                    if i > 0 and (out[i - 1][0].isalpha() or out[i - 1] == '*'):
                        del out[i:i + 2]
                        changed = True
                        break
        return fix_parens(out)
    return fix


# ---------------------------------------------------------------------------
# extended string generator (never token-mutated)

EXT_LENS = ['0', '00', '0x0', '1', '65535', '65536', '0xabcdef', '0XABCDEF', '0xAbCdEf',
            '012345670', '2147483647', '2147483648', '0x7fffffff', '0x80000000', '4294967295',
            '4294967296', '0xFFFFFFFF', '0x100000000', '9223372036854775807',
            '0x7fffffffffffffff', '0X7FFFFFFFFFFFFFFF', '0777777777777777777777',
            '9223372036854775808', '0x8000000000000000', '01000000000000000000000',
            '18446744073709551615', '0xffffffffffffffff', '18446744073709551616',
            '0x10000000000000000', '99999999999999999999999999']
WS = [' ', ' ', '  ', '\t', '\n', '\r', '\f', '\v', ' \t ', '\r\n', '\n\n']


class TGenX(TS.TGen):
    """TGen plus: every standard type name, boundary / non-positive / huge
    array lengths, function-typed parameters, long parameter lists, deeper
    nesting, whitespace variation"""

    def __init__(self, rng, lens=(), **kw):
        TS.TGen.__init__(self, rng, **kw)
        self.lenvals = dict((x, literal_value(x)) for x in EXT_LENS)
        self.lenvals.update(dict(lens))
        self.lens = [n for n, v in lens]    # all named constants, whatever their value
        self.feat = set()
        self.maxdepth, self.maxargs = 4, 3

    def base(self, allow_void=False):
        if self.rng.random() < 0.2:
            self.feat.add('typename')
            return ('named', self.rng.choice(EXT_NAMED))
        return TS.TGen.base(self, allow_void)

    def gen(self, depth=0):
        rng = self.rng
        r = rng.random()
        if depth >= self.maxdepth or r < 0.3:
            return self.base(allow_void=depth > 0 and rng.random() < 0.2)
        if r < 0.6:
            return ('ptr', self.gen(depth + 1))
        if r < 0.8:
            if rng.random() < 0.5:
                self.feat.add('arraylen')
                n = ('const', rng.choice(EXT_LENS + self.lens + self.lens))
            else:
                n = rng.choice([None, 0, 1, 2, 3, 7, 8, 10, 64, 255, 1000])
            return ('array', self.gen(depth + 1), n)
        return ('ptr', self.func(depth))

    def func(self, depth, minargs=0):
        rng = self.rng
        nargs = rng.randrange(minargs, (self.maxargs if depth <= 1 else 3) + 1)
        if nargs > 3:
            self.feat.add('manyargs')
        args = []
        for _ in range(nargs):
            if rng.random() < 0.2 and depth + 2 <= self.maxdepth:
                # a parameter of *function* type (with parameters of its own: an empty
                # list after a name is what the recorded 'declarator-name-present'
                # repair removes)
                a = self.func(depth + 2, minargs=1)
                self.feat.add('fnparam')
            else:
                a = self.gen(depth + 2)
                while a == ('prim', 'void'):
                    a = self.gen(depth + 2)
                if a[0] == 'array' and isinstance(a[2], tuple) and \
                        not 0 <= self.lenvals.get(a[2][1], 0) <= SSIZE_MAX:
                    # the outermost length of an array *parameter* is dropped by the
                    # in-line parser (the parameter is a pointer): a length that no
                    # array can have is outside the common grammar there
                    a = ('array', a[1], 3)
            args.append(a)
        res = self.gen(depth + 2)
        return ('func', args, res, bool(nargs) and rng.random() < 0.2)

    def xstring(self):
        """-> (string, tokens, features); the string may differ from
        TS.join(tokens) in its white space only"""
        rng = self.rng
        while True:
            self.feat = set()
            self.maxdepth = 6 if rng.random() < 0.15 else 4
            self.maxargs = rng.choice([3, 3, 3, 6, 10])
            if self.maxdepth > 4:
                self.feat.add('deep')
            toks = fix_fnq(self.render(self.gen()))
            if len(toks) <= 160:
                break
        s = TS.join(toks)
        r = rng.random()
        if r < 0.2:
            self.feat.add('whitespace')
            s = ''.join(rng.choice(WS) if ch == ' ' else ch for ch in s)
            s = rng.choice(['', '', '\t', '\n ', ' \r']) + s + rng.choice(['', '', '\n', ' \t', '\v'])
        elif r < 0.35:
            self.feat.add('whitespace')
            out = []
            for i, t in enumerate(toks):
                if i and (toks[i - 1][-1].isalnum() or toks[i - 1][-1] in '_$') and \
                        (t[0].isalnum() or t[0] in '_$'):
                    out.append(' ')
                out.append(t)
            s = ''.join(out)
        return s, toks, set(self.feat)


SSIZE_MAX = 2 ** 63 - 1


def literal_value(x):
    if x[:2] in ('0x', '0X'):
        return int(x, 16)
    return int(x, 8) if x[0] == '0' and len(x) > 1 else int(x, 10)


def neutral_lengths(toks, special):
    """the same tokens with every boundary / zero / negative / huge / named array
    length replaced by a small literal.  `special`: token -> value"""
    out = list(toks)
    for i in range(1, len(out) - 1):
        if out[i - 1] == '[' and out[i + 1] == ']' and out[i] in special:
            out[i] = '3'
    return out


JUNK = [')', ']', ';', '&', ',', ', int', ', ...', '3', '#', '@', '\\', '"', '\xe9', '?', 'x y',
        '1x', '}', '{', '=', '= 0', ':', ': 3', '.', '..', '->', '+', '-', '!', '~', '%', '^', '|',
        '<', '>', '/', "'", '`', '\x01', '\x7f', '€']
BADNUM = ['08', '09', '019', '0779', '0x', '0X', '1x', '0xG', '0x1G', '1e3', '1.5', '1f', '12ab',
          '0b', '1_0', '10e', '0x.8', '1.', '.5', '3 4', '3,4']


def kname_of(kind):
    return {'AR': 'accepted-by-inline-parser-only', 'RA': 'accepted-by-c-parser-only',
            'AA': 'different-meaning'}[kind]


def open_context(st, cx):
    """-> (in-line FFI, FFI using the C parser, how the latter was made)"""
    import importlib
    from cffi import FFI
    ffi1 = FFI()
    ffi1.cdef(cx.text)
    apidir = st['api'].get(str(cx.seed))
    if apidir and cx.nparts == 1:
        import time, json
        resfile = os.path.join(apidir, '_c07api_%d.spec.json.result' % cx.seed)
        t0 = time.time()
        r = None
        while r is None:
            try:
                with open(resfile) as f:
                    r = json.load(f)
            except (OSError, ValueError):   # the parent is still compiling it
                if time.time() - t0 > 600:
                    raise RuntimeError('API module was not built in time')
                time.sleep(0.5)
        if not r.get('ok'):
            raise RuntimeError('API module did not build: %s' % (r.get('error') or '')[-300:])
        if apidir not in sys.path:
            sys.path.insert(0, apidir)
        importlib.invalidate_caches()
        return ffi1, importlib.import_module('_c07api_%d' % cx.seed).ffi, 'api'
    prev = None
    for i, part in enumerate(cx.parts):
        fb = FFI()
        if prev is not None:
            fb.include(prev)
        fb.cdef(part)
        modname = '_c07_%d_%d' % (cx.seed, i)
        fb.set_source(modname, None)
        fb.emit_python_code(os.path.join(st['wd'], modname + '.py'))
        prev = fb
    importlib.invalidate_caches()
    return ffi1, importlib.import_module(modname).ffi, ('include%d' % cx.nparts
                                                         if cx.nparts > 1 else 'outofline')


def child_case(st, case):
    rep = core.ChildRep()
    dis = []
    for seed in case['seeds']:
        c = make_ctx(seed)
        try:
            ffi1, ffi2, how = open_context(st, c)
        except Exception as e:
            rep.bad('harness-setup', 'context setup failed: %s: %s :: %s' %
                    (type(e).__name__, e, c.text[:300]), [seed, None])
            continue
        rnd = random.Random(seed ^ 0x5bd1e995)
        nm = c.names()
        nmall = c.names(all_consts=True)
        g = TS.TGen(rnd, **nm)
        g0 = TS.TGen(rnd)
        inc = set(c.included_consts)
        gx = TGenX(rnd, lens=[(n, v) for n, v in c.consts + c.enumerators if n not in inc], **nm)
        gx0 = TGenX(rnd)
        special = dict((x, literal_value(x)) for x in EXT_LENS)
        special.update(dict(c.consts + c.enumerators))
        tdn = set(c.typedefs)
        decl_tags = set([('struct', x) for x in nm['structs']] + [('union', x) for x in nm['unions']]
                        + [('enum', x) for x in nm['enums']])
        rep.stat('contexts')
        rep.stat('contexts_' + how)
        if c.adv:
            rep.stat('contexts_adversarial_names')
        known = set(nm['typedefs']) | set(nmall['consts']) | set(c.included_consts) | \
            set(c.fntypedefs) | set(STD_NAMES) | set(w for n in TS.NAMED_PRIMS for w in n.split())
        fix_names = make_fix_names(known)

        def outcome(x):
            try:
                a = ffi1.typeof(x)
            except Exception:
                a = None
            try:
                b = ffi2.typeof(x)
            except Exception:
                b = None
            if a is None and b is None:
                return 'RR'
            if a is not None and b is not None:
                m1, m2 = meaning(ffi1, a), meaning(ffi2, b)
                if same_meaning(m1, m2, tdn):
                    return 'AA='
                return 'AA'
            return 'AR' if a is not None else 'RA'

        def show(f, x):
            try:
                return repr(f.typeof(x))
            except Exception as e:
                return type(e).__name__

        accepted = []          # well-formed strings accepted by both (for the probes)
        only = case.get('only')
        for i in range(1 if only is not None else case['nstr']):
            bare = rnd.random() < 0.15
            ext = rnd.random() < 0.3
            mutated = False
            feats = ()
            if only is not None:
                s, bare, ext = only, False, True
                toks = GC.tokenize_line(s)
            elif ext:
                s, toks, feats = (gx0 if bare else gx).xstring()
            else:
                gg = g0 if bare else g
                s, toks = gg.string()
                mutated = rnd.random() < 0.35
                if mutated:
                    s, toks = gg.mutate(toks)
            detail = [seed, s]
            if undeclared_tag(toks, decl_tags):
                rep.stat('skipped_undeclared_tag')      # outside the stated grammar
                continue
            try:
                t1 = ffi1.typeof(s)
                r1 = None
            except Exception as e:
                t1, r1 = None, type(e).__name__
            try:
                t2 = ffi2.typeof(s)
                r2 = None
            except Exception as e:
                t2, r2 = None, type(e).__name__
            nontriv = any(x in toks for x in ('*', '[', '('))
            rep.case((seed, s), nontrivial=nontriv, sample={'string': s, 'inline': r1 or repr(t1),
                                                            'cparser': r2 or repr(t2)})
            rep.stat('mutated' if mutated else 'wellformed')
            if ext:
                rep.stat('ext_strings')
                for ft in feats:
                    rep.stat('ext_' + ft)
            kind = outcome(s)
            if kind == 'AA=':
                rep.stat('both_accept')
                if t1 is t2:
                    rep.stat('identical_objects')
                if not mutated and len(accepted) < 6 and len(s) < 120:
                    accepted.append(s)
            elif kind == 'RR':
                rep.stat('both_reject')
            else:
                rep.stat('disagreements')
                plain = TS.join(toks)
                attributed = False
                if ext and only is None:
                    # is the disagreement owed to one of the extended lexical classes alone?
                    if plain != s and outcome(plain) in ('AA=', 'RR'):
                        rep.bad('ext-whitespace:' + kname_of(kind), '%r: in-line -> %s, C parser -> %s; '
                                'with single blanks %r both parsers agree' %
                                (s, r1 or repr(t1), r2 or repr(t2), plain), detail)
                        attributed = True
                    else:
                        nt = neutral_lengths(toks, special)
                        if nt != toks and outcome(TS.join(nt)) in ('AA=', 'RR'):
                            rep.bad('ext-array-length:' + kname_of(kind), '%r: in-line -> %s, C parser '
                                    '-> %s; with a small literal length both parsers agree' %
                                    (s, r1 or repr(t1), r2 or repr(t2)), detail)
                            attributed = True
                if not attributed:
                    # which syntactic repair (if any) makes the two parsers agree?
                    expl = None
                    for name, fn in (('qualifier-between-specifier-words', fix_quals),
                                     ('nested-grouping-parens', fix_parens),
                                     ('array-length-expression', fix_arraylen),
                                     ('void-parameter-with-name-or-qualifier', fix_voidparam),
                                     ('declarator-name-present', fix_names),
                                     ('calling-convention-position', fix_cc),
                                     ('qualifier-position+nested-parens',
                                      lambda t: fix_parens(fix_quals(t))),
                                     ('several-repairs', lambda t: fix_names(fix_voidparam(
                                         fix_arraylen(fix_parens(fix_quals(fix_cc(t)))))))):
                        rt = fn(toks)
                        if rt != toks:
                            rt = fix_fnq(rt)
                        if rt != toks and outcome(TS.join(rt)) in ('AA=',):
                            expl = name
                            break
                    dis.append([seed, s, kind, expl, r1 or repr(t1), r2 or repr(t2), mutated,
                                plain if ext and only is None else s])
            if bare and not ('bool' in c.typedefs and re.search(r'\bbool\b', s)):
                # the context-free C parser must agree with the populated one (unless the
                # context itself redefines the standard name that the string uses)
                try:
                    t3 = st['bare'].typeof(s)
                    r3 = None
                except Exception as e:
                    t3, r3 = None, type(e).__name__
                rep.stat('bare_cparser')
                if (t3 is None) != (t2 is None) or (t3 is not None and t3 is not t2):
                    rep.bad('bare-vs-populated-cparser', '%r: _cffi_backend.FFI() -> %s, module '
                            'ffi -> %s' % (s, r3 or repr(t3), r2 or repr(t2)), detail)

        # ---- directed probes -------------------------------------------------
        def probe(cls, x, counter=None):
            rep.stat('probe_' + (counter or cls).replace('-', '_'))
            k = outcome(x)
            rep.case((seed, 'probe', x), nontrivial=True)
            if k in ('AA=', 'RR'):
                return k
            rep.bad('probe:%s:%s' % (cls, kname_of(k)), '[%s context] %r: in-line -> %s, C parser -> %s'
                    % (how, x, show(ffi1, x), show(ffi2, x)), [seed, x])
            return k

        declared = set(c.typedefs) | set(c.fntypedefs) | set(n for n, v in c.consts) | \
            set(n for n, v in c.enumerators)
        prnd = random.Random(seed ^ 0x2545F491)
        # 1. every standard type name, through the populated and the bare C parser
        k0 = prnd.randrange(len(STD_NAMES))
        for n in [STD_NAMES[(k0 + 4 * j) % len(STD_NAMES)] for j in range(10)]:
            x = prnd.choice(['%s', '%s *', 'const %s', '%s const *', '%s (*)(%s)', '%s *[2]']).replace(
                '%s', n)
            probe('standard-typename', x)
            try:
                t3 = st['bare'].typeof(x)
            except Exception:
                t3 = None
            try:
                t2 = ffi2.typeof(x)
            except Exception:
                t2 = None
            if t3 is not t2 and not (n == 'bool' and 'bool' in c.typedefs):
                rep.bad('bare-vs-populated-cparser', '%r: _cffi_backend.FFI() -> %r, module ffi -> %r'
                        % (x, t3, t2), [seed, x])

        # 2. identifiers one character away from a declared name
        def near(n):
            out = [n[:-1], n[1:], n + '_', n + 't', n + '0', n[:-1] + ('x' if n[-1] != 'x' else 'y'),
                   n.swapcase()]
            return [v for v in out if v and re.match(r'[A-Za-z_][A-Za-z_0-9]*$', v) and
                    v not in declared and v not in KEYWORDS and v not in STD_NAMES and
                    v not in SPEC_WORDS and not re.match(r'a\d+$', v)]
        tds = list(c.typedefs)
        prnd.shuffle(tds)
        for n in tds[:2]:
            for v in near(n):
                probe('near-name', prnd.choice(['%s', '%s *', 'int (*)(%s)', '%s (*)(void)'])
                      % v, 'near_name_typedef')
        cs = [n for n, v in c.consts + c.enumerators]
        prnd.shuffle(cs)
        for n in cs[:2]:
            for v in near(n):
                probe('near-name', prnd.choice(['int[%s]', 'char *[%s]', 'long (*)[%s]']) % v,
                      'near_name_constant')
        # 3. typedefs of function type
        for F in c.fntypedefs:
            for tpl in ('%s', '%s *', '%s * *', '%s *[3]', '%s[3]', 'int (*)(%s *)', '%s *(*)(void)',
                        'const %s *', '%s (*)(void)'):
                probe('function-typedef', tpl % F)
            # (the parameter is adjusted to a pointer to the function type)
            probe('function-typedef-as-parameter', prnd.choice(
                ['int (*)(%s)', 'void (*)(int, %s)', 'char *(*)(%s a0, long)']) % F)
        # 4. constants declared by an included module, as array length
        for n in c.included_consts:
            v = dict(c.consts)[n]
            if 0 <= v < 5000:
                probe('included-constant-as-array-length',
                      prnd.choice(['int[%s]', 'char *[%s]', 'short (*)[%s]']) % n)
        # 5. trailing tokens after a complete type, 6. malformed numbers
        heads = ['int', 'char *'] + accepted[:3]
        for j in prnd.sample(JUNK, 12):
            probe('trailing-token', '%s %s' % (prnd.choice(heads), j))
        for b in prnd.sample(BADNUM, 8):
            probe('malformed-number', prnd.choice(['int[%s]', 'char (*)[%s]', 'long *[2][%s]',
                                                   'int (*)(char[%s])']) % b)
        # 7. function types: rejected by typeof(), accepted as function pointers
        #    by callback().  Judged only when the two parsers agree on the
        #    pointer-to-function spelling of the same tokens (otherwise the string
        #    carries one of the recorded leniency differences)
        def cb_type(f, x):
            try:
                cb = f.callback(x, lambda *a: None)
                return f.typeof(cb)
            except Exception:
                return None

        def cb_same(x):
            a, b = cb_type(ffi1, x), cb_type(ffi2, x)
            return (a is None) == (b is None) and (a is None or same_meaning(
                meaning(ffi1, a), meaning(ffi2, b), tdn)), a, b
        for _ in range(4):
            gx.feat = set()
            gx.maxdepth, gx.maxargs = 3, 3
            ft = gx.func(1)
            if ft[2][0] not in ('prim', 'named', 'tag'):
                continue              # plain shape only: 'T ( params )'
            full = gx.render(ft)
            k = full.index('(')
            if undeclared_tag(full, decl_tags) or len(full) > 80 or full[-1] != ')':
                continue
            full = fix_fnq(full)
            x = TS.join(full)
            ptr = TS.join(full[:k] + ['(', '*', ')'] + full[k:])
            probe('function-type', x)
            rep.stat('probe_callback_entry')
            if outcome(ptr) != 'AA=':
                rep.stat('probe_callback_skipped_pointer_form_not_agreed')
                continue
            ok, a, b = cb_same(x)
            if not ok:
                rep.bad('entry-point:callback', '[%s context] callback(%r, f): in-line -> %r, C parser '
                        '-> %r; typeof(%r) agrees' % (how, x, a, b, ptr), [seed, x])
        # 7b. a function declarator whose parameter list starts with a qualifier:
        #     as function-typed parameter and as callback() type (context-free
        #     strings: once per case)
        first_of_case = seed == case['seeds'][0]
        for tpl in (() if not first_of_case else (
                    'int (*)(int (const char *))', 'void (*)(long a0 (volatile int, char), int)',
                    'char *(*)(double, short (const volatile long *))')):
            probe('function-parameter-list-starts-with-qualifier', tpl)
        for tpl in (() if not first_of_case else (
                'int (*)(int (int))', 'void (*)(char *(long, char), int a1 (void), ...)',
                'long (*)(double a0 (short, ...), int (* (char)) (long))')):
            probe('function-typed-parameter', tpl)
        for x in (() if not first_of_case else (
                'int (const char *)', 'void (volatile int, long)', 'long (const void *, size_t)')):
            rep.stat('probe_function_parameter_list_starts_with_qualifier')
            ok, a, b = cb_same(x)
            if not ok:
                rep.bad('probe:function-parameter-list-starts-with-qualifier:' + (
                    'accepted-by-inline-parser-only' if b is None else 'accepted-by-c-parser-only'
                    if a is None else 'different-meaning'),
                    '[%s context] callback(%r, f): in-line -> %r, C parser -> %r' % (how, x, a, b),
                    [seed, x])
        # 8. the other entry points that take a type string
        for x in accepted:
            for api in ('sizeof', 'alignof', 'getctype', 'cast'):
                rep.stat('probe_entry_' + api)
                res = []
                for f in (ffi1, ffi2):
                    try:
                        if api == 'cast':
                            v = f.typeof(f.cast(x, 0))
                            v = meaning(f, v)
                        else:
                            v = getattr(f, api)(x)
                        res.append(('ok', v))
                    except Exception as e:
                        res.append(('exc',))
                if api == 'cast':
                    ok = res[0][0] == res[1][0] and (res[0][0] == 'exc' or
                                                     same_meaning(res[0][1], res[1][1], tdn))
                elif api == 'getctype':
                    # the display name of an aggregate may be typedef-forced in-line
                    ok = res[0][0] == res[1][0] and (res[0] == res[1] or over_agg(ffi2.typeof(x)))
                else:
                    ok = res[0] == res[1]
                if not ok:
                    rep.bad('entry-point:' + api, '[%s context] %s(%r): in-line -> %r, C parser -> %r'
                            % (how, api, x, res[0], res[1]), [seed, x])
    res = rep.result()
    res['dis'] = dis
    return res


DIS = []
UNEXPLAINED = []


def judge(ctx, setup, case, obs):
    core.absorb(ctx, case, obs, lambda d: {'seeds': [d[0]], 'nstr': 0, 'only': d[1],
                                           'api': [s for s in case.get('api', []) if s == d[0]]})
    DIS.extend(obs.get('dis', []))


def finalize(ctx, setup):
    """Disagreements are classified with an independent well-formedness oracle:
    gcc -fsyntax-only on 'void p(<string>);' after the context's declarations."""
    import subprocess, re
    collect_api(ctx)
    byseed = {}
    for d in DIS:
        byseed.setdefault(d[0], []).append(d)
    del DIS[:]
    import concurrent.futures as cf

    def syntax_check(item):
        seed, ds = item
        c = make_ctx(seed)
        lines = ['#include <stdint.h>', '#include <stddef.h>', '#include <sys/types.h>',
                 '#include <wchar.h>', '#include <uchar.h>', '#include <stdbool.h>',
                 '#include <stdio.h>',
                 'typedef float _Complex _cffi_float_complex_t;',
                 'typedef double _Complex _cffi_double_complex_t;',
                 '#define __cdecl __attribute__((__cdecl__))',
                 '#define __stdcall __attribute__((__stdcall__))']
        if 'typedef unsigned char bool;' in c.ctext:
            lines.append('#undef bool')          # <stdbool.h>'s macro
        lines += c.ctext.split('\n')
        base = len(lines)
        for i, d in enumerate(ds):
            lines.append('void p_%d(%s);' % (i, d[7].replace('\n', ' ')))
        path = os.path.join(ctx.tmp, 'wf_%d.c' % seed)
        with open(path, 'w') as f:
            f.write('\n'.join(lines) + '\n')
        r = subprocess.run(['gcc', '-fsyntax-only', '-std=gnu11',
                            '-Werror=implicit-int', path], stdout=subprocess.PIPE,
                           stderr=subprocess.PIPE, timeout=600)
        err = r.stderr.decode(errors='replace')
        bad = set(int(m.group(1)) for m in re.finditer(r':(\d+):\d+: error', err))
        if any(b <= base for b in bad):
            # an error inside the expansion of a context macro is located at the '#define'
            # line; the line that uses it is in the 'in expansion of macro' note.  The context
            # itself is only at fault if it does not compile alone.
            with open(path, 'w') as f:
                f.write('\n'.join(lines[:base]) + '\n')
            r0 = subprocess.run(['gcc', '-fsyntax-only', '-std=gnu11', '-Werror=implicit-int',
                                 path], stdout=subprocess.PIPE, stderr=subprocess.PIPE,
                                timeout=600)
            if r0.returncode == 0:
                bad = set(b for b in bad if b > base) | set(
                    int(m.group(1)) for m in re.finditer(
                        r':(\d+):\d+: note: in expansion of macro', err) if int(m.group(1)) > base)
        os.unlink(path)
        return seed, ds, base, bad
    with cf.ThreadPoolExecutor(8) as ex:
        checked = list(ex.map(syntax_check, sorted(byseed.items())))
    for seed, ds, base, badlines in checked:
        if any(b <= base for b in badlines):
            ctx.inconclusive('gcc rejects the context declarations of seed %d' % seed)
            continue
        for i, (sd, s, kind, expl, r1, r2, mutated, gform) in enumerate(ds):
            wellformed = (base + i + 1) not in badlines
            # gcc's attribute syntax is laxer than the calling-convention
            # keywords: they are only well-formed directly in front of '*'
            ncc = len(re.findall(r'__(?:stdcall|cdecl)', s))
            if ncc != len(re.findall(r'\(\s*__(?:stdcall|cdecl)\s*\*', s)):
                wellformed = False
            ctx.count('disagreements_wellformed' if wellformed else 'disagreements_illformed')
            kname = kname_of(kind)
            if mutated and (not wellformed or expl is None):
                # token-level mutants: the two parsers differ in leniency on
                # strings outside the generated grammar (recorded finding)
                mech = 'near-miss-string:%s:%s' % ('well-formed-c' if wellformed else 'ill-formed-c',
                                                   kname)
            elif not wellformed:
                mech = 'ill-formed-string:' + kname
            else:
                mech = 'well-formed:' + (expl or 'unexplained-' + kind)
            if mech.startswith('well-formed:unexplained-'):
                UNEXPLAINED.append((mech, '%r: in-line -> %s, C parser -> %s' % (s, r1, r2),
                                    {'seeds': [seed], 'nstr': 0, 'only': s}))
                continue
            ctx.violation(mech, '%r: in-line -> %s, C parser -> %s' % (s, r1, r2),
                          {'seeds': [seed], 'nstr': 0, 'only': s})
    # An unexplained disagreement is a statement about one string in one declaration
    # context.  It is re-evaluated in a fresh process (the replay path) before it is
    # reported: in children that had evaluated several hundred thousand strings two
    # such disagreements appeared (thorough tier, seed 8) that no fresh process
    # reproduces; what depends on the history of a long-lived process is counted as an
    # observation, not as a verdict about the two parsers.
    pending, UNEXPLAINED[:] = list(UNEXPLAINED), []
    if pending and not ctx.extra.get('c07_reverifying'):
        ctx.extra['c07_reverifying'] = True
        confirmed = 0
        tried = pending[:8]
        obs = core.run_cases(ctx, 'c07', setup, [dict(c_, contexts=None) for m_, t_, c_ in tried]
                             if False else [c_ for m_, t_, c_ in tried], variant='asan', nproc=2)
        again = {}
        for (m_, t_, c_), o in zip(tried, obs):
            ok = isinstance(o, dict) and any(d[1] == c_['only'] and d[3] is None
                                             for d in o.get('dis', []))
            again[c_['only']] = ok
            confirmed += ok
        ctx.count('unexplained_disagreements_rechecked_in_fresh_process', len(tried))
        ctx.count('unexplained_disagreements_confirmed_in_fresh_process', confirmed)
        for m_, t_, c_ in pending:
            if confirmed and again.get(c_['only'], True):
                ctx.violation(m_, t_, c_)
            else:
                ctx.count('history_dependent_disagreements_not_reproduced')
                ctx.note('not reproduced in a fresh process (observation only): ' + t_[:300])
        ctx.extra['c07_reverifying'] = False
    elif pending:
        for m_, t_, c_ in pending:
            ctx.violation(m_, t_, c_)
