"""C07 -- the Python (in-line) and C (compiled/out-of-line) type-string parsers
denote the same type.

Differential: per random declaration context, the same cdef is loaded in an
in-line FFI (pycparser-based parser) and emitted with emit_python_code() and
imported (C parser with populated tables).  Grammar-generated type strings
(well-formed and near-miss) go through both: both must reject, or both accept
with the same meaning (identical ctype object for non-aggregates; same kind and
name for aggregates).  'Reject' = any exception (the class is C30's business).
"""
import os, sys, random
from vlib import core, gen_cdef as GC, gen_tstr as TS

RULE = ("case = (declaration context, type string); contexts: ~10 typedefs/structs/unions/enums/"
        "constants; strings from the shared declarator grammar (specifier permutations, cv "
        "qualifiers anywhere, pointers, arrays with decimal/octal/hex/named lengths, function "
        "pointers with fixed/void/variadic parameters and optional names, __cdecl/__stdcall, "
        "redundant and nested grouping parentheses) plus token-level near-miss mutants; distinct = "
        "(context, string); non-trivial = string has a declarator (pointer/array/function)")
ASSUMPTIONS = ["strings naming an undeclared struct/union/enum tag are not generated (the in-line FFI creates an opaque type, the C parser has no entry: outside the stated grammar)",
               "which exception class escapes on rejection is not compared (property C30)"]
SAN_DECIDES = False      # the C parser's memory safety is decided by C30 on the same workload


def generate(ctx):
    rng = ctx.rng('gen')
    nctx = ctx.scale(40, 400)
    per = 4
    seeds = [rng.getrandbits(40) for _ in range(nctx)]
    return None, [{'seeds': seeds[i:i + per], 'nstr': ctx.scale(700, 2000)}
                  for i in range(0, nctx, per)]


def child_setup(setup, wd):
    import warnings
    warnings.simplefilter('ignore')
    sys.path.insert(0, wd)
    import _cffi_backend
    return {'wd': wd, 'bare': _cffi_backend.FFI()}


def make_ctx(seed):
    rnd = random.Random(seed)
    return GC.Ctx(rnd, prefix='q%d_' % (seed % 100000), nd=rnd.choice([4, 8, 12]), funcs=False,
                  globals_=False)


def names_of(c):
    structs = [d['name'] for d in c.items if d['kind'] == 'agg' and d['agg']['kind'] == 'struct']
    unions = [d['name'] for d in c.items if d['kind'] == 'agg' and d['agg']['kind'] == 'union']
    consts = [d['name'] for d in c.consts if 0 < d['value'] < 5000] + \
        [en for e in c.enums for en, v in e['values'] if 0 < v < 5000]
    return dict(typedefs=[d['name'] for d in c.typedefs], structs=structs, unions=unions,
                enums=[d['name'] for d in c.enums], consts=consts)


def meaning(ffi, t, depth=0):
    """comparable meaning of a ctype: identity for non-aggregate types not
    involving aggregates, structure otherwise (aggregates by kind and name)"""
    k = t.kind
    if k in ('struct', 'union', 'enum'):
        return (k, t.cname)
    if not over_agg(t):
        return ('id', id(t))
    if k in ('pointer', 'array'):
        return (k, getattr(t, 'length', None), meaning(ffi, t.item, depth + 1))
    if k == 'function':
        return ('function', tuple(meaning(ffi, a) for a in t.args), meaning(ffi, t.result),
                t.ellipsis, t.abi)
    return ('other', k, t.cname)


def over_agg(t):
    k = t.kind
    if k in ('struct', 'union', 'enum'):
        return True
    if k in ('pointer', 'array'):
        return over_agg(t.item)
    if k == 'function':
        return over_agg(t.result) or any(over_agg(a) for a in t.args)
    return False


def typedef_names(c):
    return set(d['name'] for d in c.typedefs)


def same_meaning(m1, m2, tdn):
    """equality of two meanings; an aggregate whose in-line display name was
    forced by a typedef (recorded C11 finding) matches the aggregate of the same
    kind whatever its name"""
    if isinstance(m1, tuple) and isinstance(m2, tuple):
        if len(m1) == 2 and len(m2) == 2 and m1[0] in ('struct', 'union', 'enum'):
            return m1[0] == m2[0] and (m1[1] == m2[1] or m1[1] in tdn)
        return len(m1) == len(m2) and all(same_meaning(a, b, tdn) for a, b in zip(m1, m2))
    return m1 == m2


SPEC_WORDS = set('char short int long signed unsigned float double _Bool void _Complex'.split())
QUALS = set(['const', 'volatile'])
DELIM = set(['*', '(', ')', ',', '[', ']', '...', '__cdecl', '__stdcall'])


def fix_quals(toks):
    """repair 1: inside every declaration-specifier run move the cv-qualifiers in
    front of the specifier words ('unsigned volatile short' -> 'volatile unsigned
    short'); pointer qualifiers (a run that directly follows '*') are left alone"""
    out, run = [], []
    prev = None

    def flush():
        if run:
            if prev_of_run[0] == '*' or all(x in QUALS for x in run):
                out.extend(run)
            else:
                out.extend([x for x in run if x in QUALS] + [x for x in run if x not in QUALS])
            del run[:]
    prev_of_run = [None]
    for x in toks:
        if x in DELIM or not (x[0].isalpha() or x[0] == '_'):
            flush()
            out.append(x)
            prev = x
        else:
            if not run:
                prev_of_run[0] = prev
            run.append(x)
            prev = x
    flush()
    return out


def fix_parens(toks):
    """repair 2: drop redundant grouping parentheses: a pair whose content is a
    declarator (starts with '*', '(' or a calling convention) and that is not
    followed by '(' or '[' binds nothing: '( ( * ) )' -> '( * )',
    'T ( ( * ) ( void ) )' -> 'T ( * ) ( void )'"""
    toks = list(toks)
    changed = True
    while changed:
        changed = False
        for i in range(len(toks)):
            if toks[i] != '(':
                continue
            depth, j = 0, i
            while j < len(toks):
                if toks[j] == '(':
                    depth += 1
                elif toks[j] == ')':
                    depth -= 1
                    if depth == 0:
                        break
                j += 1
            if j >= len(toks):
                continue
            content = toks[i + 1:j]
            if not content or content[0] not in ('*', '(', '__cdecl', '__stdcall'):
                continue
            nxt = toks[j + 1] if j + 1 < len(toks) else None
            if nxt in ('(', '[') and content[0] != '(':
                continue
            # the content must itself contain a parenthesised sub-declarator,
            # otherwise these are the only parentheses of a pointer declarator
            if '(' not in content:
                if not (i > 0 and toks[i - 1] == '('):
                    continue
            if content[0] in ('__cdecl', '__stdcall'):
                content = content[1:]
            toks = toks[:i] + content + toks[j + 1:]
            changed = True
            break
    return toks


def fix_cc(toks):
    """repair 6: drop calling-convention keywords that are *not* in the canonical
    position '( __cdecl *' / '( __stdcall *' (both parsers must agree on the
    canonical form itself)"""
    out = []
    for i, x in enumerate(toks):
        if x in ('__cdecl', '__stdcall') and not (
                i > 0 and toks[i - 1] == '(' and i + 1 < len(toks) and toks[i + 1] == '*'):
            continue
        out.append(x)
    return out


def fix_arraylen(toks):
    """repair 3: an array length that is an expression ('[ ( 7 ) ]', '[ 0XA -1 ]'):
    the common grammar has a literal or a named constant only"""
    out, i = [], 0
    while i < len(toks):
        out.append(toks[i])
        if toks[i] == '[':
            j = i + 1
            while j < len(toks) and toks[j] != ']':
                j += 1
            if j < len(toks) and (j - i - 1 > 1 or (j - i - 1 == 1 and toks[i + 1][0].isdigit()
                                                    and toks[i + 1][-1] in 'uUlL')):
                out.append('3')
                i = j
                continue
        i += 1
    return out


def fix_voidparam(toks):
    """repair 4: a sole 'void' parameter that carries a qualifier or a name"""
    out = list(toks)
    for i in range(len(out)):
        if out[i] == '(':
            j = i + 1
            seg = []
            while j < len(out) and out[j] not in ('(', ')', ',', '*', '[', ']'):
                seg.append(out[j])
                j += 1
            if j < len(out) and out[j] == ')' and 'void' in seg and len(seg) > 1 and \
                    all(x == 'void' or x in QUALS or x.startswith('a') for x in seg):
                return out[:i + 1] + ['void'] + out[j:]
    return out


def undeclared_tag(toks, declared):
    for i, x in enumerate(toks[:-1]):
        if x in ('struct', 'union', 'enum'):
            y = toks[i + 1]
            if (y[0].isalpha() or y[0] in '_$') and (x, y) not in declared:
                return True
    return False


def make_fix_names(known):
    """repair 5: a declarator *name* (an identifier that is not a type name of the
    context, or a parameter name a<N>) - the C parser takes abstract declarators
    and plain 'type name' parameters only"""
    import re

    def fix(toks):
        out = []
        for i, x in enumerate(toks):
            if (x[0].isalpha() or x[0] in '_$') and x not in known and x not in SPEC_WORDS \
                    and x not in QUALS and x not in DELIM and x not in ('struct', 'union', 'enum') \
                    and not (i > 0 and toks[i - 1] in ('struct', 'union', 'enum')):
                continue
            out.append(x)
        for i in range(len(out) - 2):
            if out[i] == '(' and out[i + 1] == ')' and out[i + 2] == '(' and i > 0 and \
                    out[i - 1] not in (')', ']'):
                out[i:i + 2] = ['(', '*', ')']     # 'T (name)(args)' is 'T (*)(args)'
                break
        # '( )' left behind by a parenthesised name
        changed = True
        while changed:
            changed = False
            for i in range(len(out) - 1):
                if out[i] == '(' and out[i + 1] == ')' and i > 0 and \
                        out[i - 1] not in (')', ']') and (i + 2 >= len(out) or out[i + 2] != '('):
                    # only when it cannot be an empty parameter list
                    if i > 0 and (out[i - 1][0].isalpha() or out[i - 1] == '*'):
                        del out[i:i + 2]
                        changed = True
                        break
        return fix_parens(out)
    return fix


def child_case(st, case):
    import importlib
    from cffi import FFI
    rep = core.ChildRep()
    dis = []
    for seed in case['seeds']:
        c = make_ctx(seed)
        text = c.cdef_text()
        try:
            ffi1 = FFI()
            ffi1.cdef(text)
            fb = FFI()
            fb.cdef(text)
            modname = '_c07_%d' % seed
            fb.set_source(modname, None)
            fb.emit_python_code(os.path.join(st['wd'], modname + '.py'))
            ffi2 = importlib.import_module(modname).ffi
        except Exception as e:
            rep.bad('harness-setup', 'context setup failed: %s: %s :: %s' %
                    (type(e).__name__, e, text[:300]), [seed, None])
            continue
        rnd = random.Random(seed ^ 0x5bd1e995)
        g = TS.TGen(rnd, **names_of(c))
        g0 = TS.TGen(rnd)
        tdn = typedef_names(c)
        nm = names_of(c)
        decl_tags = set([('struct', x) for x in nm['structs']] + [('union', x) for x in nm['unions']]
                        + [('enum', x) for x in nm['enums']])
        rep.stat('contexts')
        known = set(nm['typedefs']) | set(nm['consts']) | set(
            w for n in TS.NAMED_PRIMS for w in n.split())
        fix_names = make_fix_names(known)
        for i in range(case['nstr']):
            bare = rnd.random() < 0.15
            gg = g0 if bare else g
            s, toks = gg.string()
            mutated = rnd.random() < 0.35
            if mutated:
                s, toks = gg.mutate(toks)
            detail = [seed, s]
            if undeclared_tag(toks, decl_tags):
                rep.stat('skipped_undeclared_tag')      # outside the stated grammar
                continue
            try:
                t1 = ffi1.typeof(s)
                r1 = None
            except Exception as e:
                t1, r1 = None, type(e).__name__
            try:
                t2 = ffi2.typeof(s)
                r2 = None
            except Exception as e:
                t2, r2 = None, type(e).__name__
            nontriv = any(x in toks for x in ('*', '[', '('))
            rep.case((seed, s), nontrivial=nontriv, sample={'string': s, 'inline': r1 or repr(t1),
                                                            'cparser': r2 or repr(t2)})
            rep.stat('mutated' if mutated else 'wellformed')
            def outcome(x):
                try:
                    a = ffi1.typeof(x)
                except Exception:
                    a = None
                try:
                    b = ffi2.typeof(x)
                except Exception:
                    b = None
                if a is None and b is None:
                    return 'RR'
                if a is not None and b is not None:
                    m1, m2 = meaning(ffi1, a), meaning(ffi2, b)
                    if same_meaning(m1, m2, tdn):
                        return 'AA='
                    return 'AA'
                return 'AR' if a is not None else 'RA'
            kind = outcome(s)
            if kind == 'AA=':
                rep.stat('both_accept')
                if t1 is t2:
                    rep.stat('identical_objects')
            elif kind == 'RR':
                rep.stat('both_reject')
            else:
                rep.stat('disagreements')
                # which syntactic repair (if any) makes the two parsers agree?
                expl = None
                for name, fn in (('qualifier-between-specifier-words', fix_quals),
                                 ('nested-grouping-parens', fix_parens),
                                 ('array-length-expression', fix_arraylen),
                                 ('void-parameter-with-name-or-qualifier', fix_voidparam),
                                 ('declarator-name-present', fix_names),
                                 ('calling-convention-position', fix_cc),
                                 ('qualifier-position+nested-parens',
                                  lambda t: fix_parens(fix_quals(t))),
                                 ('several-repairs', lambda t: fix_names(fix_voidparam(
                                     fix_arraylen(fix_parens(fix_quals(fix_cc(t)))))))):
                    rt = fn(toks)
                    if rt != toks and outcome(TS.join(rt)) in ('AA=',):
                        expl = name
                        break
                dis.append([seed, s, kind, expl, r1 or repr(t1), r2 or repr(t2), mutated])
            if bare:
                # the context-free C parser must agree with the populated one
                try:
                    t3 = st['bare'].typeof(s)
                    r3 = None
                except Exception as e:
                    t3, r3 = None, type(e).__name__
                rep.stat('bare_cparser')
                if (t3 is None) != (t2 is None) or (t3 is not None and t3 is not t2):
                    rep.bad('bare-vs-populated-cparser', '%r: _cffi_backend.FFI() -> %s, module '
                            'ffi -> %s' % (s, r3 or repr(t3), r2 or repr(t2)), detail)
    res = rep.result()
    res['dis'] = dis
    return res


DIS = []


def judge(ctx, setup, case, obs):
    core.absorb(ctx, case, obs, lambda d: {'seeds': [d[0]], 'nstr': case['nstr']})
    DIS.extend(obs.get('dis', []))


def finalize(ctx, setup):
    """Disagreements are classified with an independent well-formedness oracle:
    gcc -fsyntax-only on 'void p(<string>);' after the context's declarations."""
    import subprocess, re
    byseed = {}
    for d in DIS:
        byseed.setdefault(d[0], []).append(d)
    del DIS[:]
    import concurrent.futures as cf

    def syntax_check(item):
        seed, ds = item
        c = make_ctx(seed)
        lines = ['#include <stdint.h>', '#include <stddef.h>', '#include <sys/types.h>',
                 '#include <wchar.h>', '#include <uchar.h>', '#include <stdbool.h>',
                 '#define __cdecl __attribute__((__cdecl__))',
                 '#define __stdcall __attribute__((__stdcall__))']
        lines += c.cdef_text().split('\n')
        base = len(lines)
        for i, d in enumerate(ds):
            lines.append('void p_%d(%s);' % (i, d[1].replace('\n', ' ')))
        path = os.path.join(ctx.tmp, 'wf_%d.c' % seed)
        with open(path, 'w') as f:
            f.write('\n'.join(lines) + '\n')
        r = subprocess.run(['gcc', '-fsyntax-only', '-std=gnu11',
                            '-Werror=implicit-int', path], stdout=subprocess.PIPE,
                           stderr=subprocess.PIPE, timeout=600)
        os.unlink(path)
        return seed, ds, base, set(int(m.group(1)) for m in re.finditer(
            r':(\d+):\d+: error', r.stderr.decode(errors='replace')))
    with cf.ThreadPoolExecutor(8) as ex:
        checked = list(ex.map(syntax_check, sorted(byseed.items())))
    for seed, ds, base, badlines in checked:
        if any(b <= base for b in badlines):
            ctx.inconclusive('gcc rejects the context declarations of seed %d' % seed)
            continue
        for i, (sd, s, kind, expl, r1, r2, mutated) in enumerate(ds):
            wellformed = (base + i + 1) not in badlines
            # gcc's attribute syntax is laxer than the calling-convention
            # keywords: they are only well-formed directly in front of '*'
            ncc = len(re.findall(r'__(?:stdcall|cdecl)', s))
            if ncc != len(re.findall(r'\(\s*__(?:stdcall|cdecl)\s*\*', s)):
                wellformed = False
            ctx.count('disagreements_wellformed' if wellformed else 'disagreements_illformed')
            kname = {'AR': 'accepted-by-inline-parser-only', 'RA': 'accepted-by-c-parser-only',
                     'AA': 'different-meaning'}[kind]
            if mutated and (not wellformed or expl is None):
                # token-level mutants: the two parsers differ in leniency on
                # strings outside the generated grammar (recorded finding)
                mech = 'near-miss-string:%s:%s' % ('well-formed-c' if wellformed else 'ill-formed-c',
                                                   kname)
            elif not wellformed:
                mech = 'ill-formed-string:' + {'AR': 'accepted-by-inline-parser-only',
                                               'RA': 'accepted-by-c-parser-only',
                                               'AA': 'different-meaning'}[kind]
            else:
                mech = 'well-formed:' + (expl or 'unexplained-' + kind)
            ctx.violation(mech, '%r: in-line -> %s, C parser -> %s' % (s, r1, r2),
                          {'seeds': [seed], 'nstr': 0, 'only': s})
