"""C04 -- ffi.cast to integer and character types follows C conversion rules.

Monitor: differential against (a) a Python big-int model of C conversion and
(b) for in-range inputs the value gcc prints for `(T)x`.  ASan/UBSan backend.

Every value is cast through the pure-Python FFI with a type string (primary)
and through the other equivalent entry points (ctype object, _cffi_backend.cast,
the C-implemented FFI class with its own type parser, a compiled module's
ffi); the child reports every entry whose result differs from the primary one
and the parent judges it against the model.
"""
import math, struct, os, sys
from vlib import gen, cc, core, modbuild

RULE = ("cases = (target type T, source kind, value); kinds: int (boundary lattice of every "
        "width up to 2**130 + random + huge 2**200..2**13000), int/float subclass instances, "
        "finite float (edges, near 2**k, random bit patterns), "
        "bool, 1-byte bytes, 1-char str, pointer/array/function cdata at random addresses and of "
        "many pointer ctypes, owned / from_buffer / gc / handle / callback / addressof cdata with "
        "their real addresses, API-mode lib functions; T also as alias spellings and typedef names; "
        "entry points py-FFI(str), py-FFI(ctype), _cffi_backend.cast, C-FFI(str), C-FFI(ctype), "
        "compiled module ffi; "
        "distinct = distinct (T, kind, value); non-trivial = value outside [-1,1] or non-int kind")
ASSUMPTIONS = ["plain 'char' cdata is a character: int() gives its byte value 0..255 (cffi's documented "
               "character semantics), wchar_t is signed as the compiler says",
               "gcc's implementation-defined narrowing (modulo 2**N) is the C conversion meant by the statement",
               "every entry point that reaches do_cast (FFI.cast of the Python and of the C-implemented "
               "FFI class, with a string or a ctype object, and _cffi_backend.cast) is 'ffi.cast'",
               "an API-mode lib function (builtin, cffi's own test_recompiler casts it to intptr_t) is a "
               "function source whose address is that of ffi.addressof(lib, name); it is only judged "
               "for non-_Bool T (the statement speaks of function *cdata*)",
               "'and back' of the pointer round trip includes going back from int(result) (a possibly "
               "negative Python int), reported under its own mechanism ptr-roundtrip:pyint"]

TYPES = gen.INT_TYPES + [('_Bool', 1, False)] + \
    [('char', 1, False), ('wchar_t', 4, True), ('char16_t', 2, False), ('char32_t', 4, False)]

# other spellings of the same types (both type parsers accept them) and
# typedef names (py-FFI: cdef; C-FFI: the compiled module's ffi)
ALIASES = [('unsigned', 4, False), ('signed', 4, True), ('long int', 8, True),
           ('unsigned long int', 8, False), ('short int', 2, True),
           ('unsigned short int', 2, False), ('long long int', 8, True),
           ('unsigned long long int', 8, False), ('signed int', 4, True),
           ('signed long', 8, True), ('long unsigned', 8, False), ('signed short', 2, True),
           ('long signed int', 8, True), ('long long unsigned int', 8, False),
           ('const int', 4, True), ('volatile unsigned char', 1, False), ('char const', 1, False),
           ('bool', 1, False)]
TYPEDEFS = [('c04_u16', 'unsigned short', 2, False), ('c04_i32', 'int', 4, True),
            ('c04_u64', 'unsigned long long', 8, False), ('c04_i8', 'signed char', 1, True),
            ('c04_bool', '_Bool', 1, False), ('c04_wc', 'wchar_t', 4, True),
            ('c04_ch', 'char', 1, False), ('c04_iptr', 'intptr_t', 8, True),
            ('c04_uptr', 'uintptr_t', 8, False), ('c04_c16', 'char16_t', 2, False)]
BOOL_TYPES = ('_Bool', 'bool', 'c04_bool')
IPTR_TYPES = ('intptr_t', 'uintptr_t', 'c04_iptr', 'c04_uptr')

CDEF_COMMON = "struct c04_s { int a; long b; };\n" + \
    ''.join('typedef %s %s;\n' % (base, name) for name, base, _, _ in TYPEDEFS)
CDEF_FUNCS = "int c04_f1(int); long c04_f2(void); int c04_f3(struct c04_s);\n"
MOD_SOURCE = ("#include <stdint.h>\n#include <stddef.h>\n#include <wchar.h>\n#include <uchar.h>\n"
              + CDEF_COMMON +
              "int c04_f1(int x) { return x * 3 + 1; }\n"
              "long c04_f2(void) { return 424242; }\n"
              "int c04_f3(struct c04_s s) { return s.a + 7; }\n")
LIBFNS = {'c04_f1': 'int(*)(int)', 'c04_f2': 'long(*)(void)', 'c04_f3': 'int(*)(struct c04_s)'}

ENTRIES_ALL = ['py', 'pyct', 'be', 'c', 'cct', 'mod']     # 'py' is the primary one
ENTRIES_TYPEDEF = ['py', 'pyct', 'be', 'mod']             # the bare C FFI has no typedefs

PTR_TYPES = ['void *', 'char *', 'const char *', 'struct c04_s *', 'int **', 'int(*)[3]',
             'long(*)(void)', 'void(*)(int, ...)', 'int[3]', 'struct c04_s[2]', 'unsigned char[1]',
             'void **', 'c04_u64 *', 'FILE *']
OWN_KINDS = ['null', 'new_long', 'new_struct', 'new_structarr', 'new_chararr', 'addressof_field',
             'addressof_elem', 'addressof_struct', 'from_buffer', 'from_buffer_typed', 'handle',
             'callback', 'ptr_arith', 'gc', 'gc_owned', 'mod_new', 'fn_addr1', 'fn_addr2',
             'fn_addr3', 'new_allocator', 'cast_of_own', 'deref_ptrptr']
# sources outside the statement (non-finite floats, wrong lengths, wrong types, failing
# __int__): no oracle on the outcome, they only drive the error paths under the sanitizers
HOSTILE = ['inf', '-inf', 'nan', 'empty_str', 'str2', 'str_long', 'empty_bytes', 'bytes2',
           'none', 'list', 'complex', 'int_raises', 'int_returns_str', 'bytearray1', 'struct_cdata',
           'float_cdata_inf']
PTR_KINDS = ('ptr', 'fnptr', 'array', 'ptrT', 'own', 'libfn')
HUGE_BITS = (200, 521, 1000, 4096, 13000)     # < 4300 decimal digits (json / int->str limit)


def model(T, size, signed, kind, v):
    if kind in ('int', 'intsub'):
        x = v
    elif kind in ('float', 'floatsub'):
        x = int(v)  # trunc toward zero
    elif kind == 'bool':
        x = 1 if v else 0
    elif kind == 'bytes':
        x = v
    elif kind == 'str':
        x = v
    elif kind in PTR_KINDS:
        x = v
    if T in BOOL_TYPES:
        if kind in ('float', 'floatsub'):
            return 1 if v != 0 else 0
        return 1 if x != 0 else 0
    bits = 8 * size
    x &= (1 << bits) - 1
    if signed and x >= 1 << (bits - 1):
        x -= 1 << bits
    return x


def _huge_ints(rng, lo, hi, n):
    out = []
    for k in HUGE_BITS:
        for d in (-1, 0, 1, hi, lo, hi + 1, 0x5a5a5a5a5a5a5a5a5a):
            out.append((1 << k) + d)
            out.append(-(1 << k) + d)
    for _ in range(n):
        v = rng.getrandbits(rng.choice(HUGE_BITS) + rng.randrange(0, 64))
        out.append(-v if rng.random() < 0.5 else v)
    return out


def _pointer_vals(rng, n, full):
    vals = []
    addrs = [0, 1, 8, 0x7fffffff, 0x80000000, 0xffffffff, 0x100000000, (1 << 47) - 8,
             (1 << 63) - 1, 1 << 63, (1 << 64) - 1, (1 << 64) - 8]
    rnd = [rng.getrandbits(rng.choice([16, 32, 48, 64])) for _ in range(n)]
    if full:
        for a in addrs + rnd:
            vals.append((rng.choice(['ptr', 'ptr', 'fnptr']), a))
        vals.append(('array', 0))
        vals.append(('array', 1))
    for pt in PTR_TYPES:
        for a in ([0, 8, (1 << 63) + 16, (1 << 64) - 8] if full else []) + \
                [rng.choice(addrs), rng.getrandbits(rng.choice([16, 32, 48, 64]))]:
            vals.append(('ptrT', [pt, a]))
    for o in OWN_KINDS:
        vals.append(('own', o))
    for f in sorted(LIBFNS):
        vals.append(('libfn', f))
    for h in HOSTILE:
        vals.append(('hostile', h))
    return vals


def generate(ctx):
    rng = ctx.rng('gen')
    nrand = ctx.scale(40, 1500)
    # helper API-mode module: lib functions (builtin sources), typedef names for
    # the C-implemented FFI, and that FFI itself as an entry point
    d = os.path.join(ctx.tmp, 'mod')
    spec = {'name': '_c04mod', 'kind': 'api', 'cdef': CDEF_COMMON + CDEF_FUNCS,
            'source': MOD_SOURCE, 'dir': d}
    res = modbuild.build_modules(ctx, [spec])['_c04mod']
    if not res['ok']:
        raise core.Inconclusive('helper module build failed: ' + res['error'] + res.get('log', ''))
    cases = []
    for (T, size, signed) in TYPES:
        lo, hi = gen.int_range(size, signed)
        vals = []
        for v in gen.lattice(lo, hi):
            vals.append(('int', v))
        for _ in range(nrand):
            vals.append(('int', gen.rand_int(rng)))
        for v in _huge_ints(rng, lo, hi, 10 + nrand // 4):
            vals.append(('int', v))
        for v in gen.small_lattice(lo, hi) + _huge_ints(rng, lo, hi, 2)[::7]:
            vals.append(('intsub', v))
        fl = list(gen.FLOAT_EDGES)
        for k in list(range(0, 70)) + [100, 127, 200, 1000]:
            for d_ in (-1.0, -0.5, 0.0, 0.5, 1.0):
                fl.append(math.ldexp(1.0, k) + d_)
                fl.append(-math.ldexp(1.0, k) + d_)
            fl.append(math.nextafter(math.ldexp(1.0, k), 0))
            fl.append(math.nextafter(math.ldexp(1.0, k), math.inf))
        for _ in range(nrand):
            fl.append(gen.rand_double(rng))
        for x in fl:
            if x == x and x not in (math.inf, -math.inf):
                vals.append(('float', x.hex()))
        for x in [0.0, -0.0, -0.5, -1.5, 2.5, 1e-300, -1e300, float(hi) + 0.5, float(lo) - 0.5,
                  float(hi) * 2 + 3.5, 2.0 ** 64 + 4096.0] + [gen.rand_double(rng) for _ in range(6)]:
            if x == x and x not in (math.inf, -math.inf):
                vals.append(('floatsub', x.hex()))
        vals.append(('bool', True))
        vals.append(('bool', False))
        for b in range(256):
            vals.append(('bytes', b))
        cps = [0, 1, 0x41, 0x7f, 0x80, 0xff, 0x100, 0xd7ff, 0xd800, 0xdfff, 0xe000, 0xffff,
               0x10000, 0x10ffff] + [rng.randrange(0x110000) for _ in range(20 + nrand // 10)]
        for c in cps:
            vals.append(('str', c))
        vals.extend(_pointer_vals(rng, 20 + nrand // 10, True))
        # split into chunks so that shards balance
        for i in range(0, len(vals), 400):
            cases.append({'T': T, 'size': size, 'signed': signed, 'vals': vals[i:i + 400],
                          'entries': ENTRIES_ALL})
    # alias spellings and typedef names: reduced value set, all entry points
    for (T, size, signed, entries) in [(a[0], a[1], a[2], ENTRIES_ALL) for a in ALIASES] + \
            [(t[0], t[2], t[3], ENTRIES_TYPEDEF) for t in TYPEDEFS]:
        lo, hi = gen.int_range(size, signed)
        vals = [('int', v) for v in gen.small_lattice(lo, hi)]
        vals += [('int', gen.rand_int(rng)) for _ in range(10)]
        vals += [('int', v) for v in _huge_ints(rng, lo, hi, 2)[::5]]
        for x in [0.0, -0.0, 0.5, -0.5, -1.5, 2.5, 1e-300, 1e300, float(hi), float(hi) + 1.5,
                  float(lo) - 1.5, 2.0 ** 63, -2.0 ** 63 - 2048.0, 2.0 ** 64 + 4096.0] + \
                [gen.rand_double(rng) for _ in range(12)]:
            if x == x and x not in (math.inf, -math.inf):
                vals.append(('float', x.hex()))
        vals += [('bool', True), ('bool', False)]
        vals += [('bytes', b) for b in (0, 1, 0x7f, 0x80, 0xff, rng.randrange(256))]
        vals += [('str', c) for c in (0, 0x41, 0xff, 0x100, 0xffff, 0x10000, 0x10ffff,
                                      rng.randrange(0x110000))]
        vals.extend(_pointer_vals(rng, 0, False))
        cases.append({'T': T, 'size': size, 'signed': signed, 'vals': vals, 'entries': entries,
                      'alias': True})
    # gcc oracle for in-range inputs: (T)x
    units = []
    for ci, c in enumerate(cases):
        stm = []
        if c.get('alias'):
            units.append((ci, '', ''))
            continue
        for vi, (kind, v) in enumerate(c['vals']):
            if kind == 'int' and -(1 << 63) <= v < (1 << 64):
                lit = ('%dULL' % v) if v >= (1 << 63) else \
                    ('(-%dLL-1)' % (-(v + 1))) if v < 0 else '%dLL' % v
            elif kind == 'float':
                x = float.fromhex(v)
                lo, hi = gen.int_range(c['size'], c['signed'])
                if c['T'] == '_Bool':
                    lit = '%s' % x.hex()
                elif lo <= int(x) <= hi:
                    lit = '%s' % x.hex()
                else:
                    continue
            elif kind == 'bytes':
                lit = '(unsigned char)%d' % v
            else:
                continue
            Tc = c['T']
            fmt, castp = ('%llu', 'unsigned long long') if not c['signed'] else ('%lld', 'long long')
            if Tc == 'char':
                Tc = 'unsigned char'   # see ASSUMPTIONS
            stm.append('printf("%d %s\\n", (%s)(%s)(%s));' % (vi, fmt, castp, Tc, lit))
        units.append((ci, '', '\n'.join(stm)))
    res = cc.batch_probe(ctx.tmp, units, batch=20)
    for ci, c in enumerate(cases):
        r = res.get(ci)
        if isinstance(r, dict):
            raise core.Inconclusive('gcc probe failed: ' + r['error'][:300])
        c['gcc'] = {int(l.split()[0]): int(l.split()[1]) for l in r}
    return {'dir': d}, cases


def replay_setup(ctx, case):
    d = os.path.join(ctx.tmp, 'mod')
    spec = {'name': '_c04mod', 'kind': 'api', 'cdef': CDEF_COMMON + CDEF_FUNCS,
            'source': MOD_SOURCE, 'dir': d}
    res = modbuild.build_modules(ctx, [spec])['_c04mod']
    if not res['ok']:
        raise core.Inconclusive('helper module build failed: ' + res['error'] + res.get('log', ''))
    return {'dir': d}


def child_setup(setup, wd):
    import _cffi_backend, ctypes
    from cffi import FFI
    sys.path.insert(0, setup['dir'])
    import _c04mod
    ffi = FFI()
    ffi.cdef(CDEF_COMMON)
    cffi_ = _cffi_backend.FFI()
    mffi, lib = _c04mod.ffi, _c04mod.lib

    class IntSub(int):
        pass

    class FloatSub(float):
        pass
    # entry point -> (callable, how its type argument is made from the type string)
    entries = {
        'py': (ffi.cast, lambda T: T),
        'pyct': (ffi.cast, ffi.typeof),
        'be': (_cffi_backend.cast, ffi.typeof),
        'c': (cffi_.cast, lambda T: T),
        'cct': (cffi_.cast, cffi_.typeof),
        'mod': (mffi.cast, lambda T: T),
    }
    return {'ffi': ffi, 'cffi': cffi_, 'mffi': mffi, 'lib': lib, 'keep': [], 'ctypes': ctypes,
            'IntSub': IntSub, 'FloatSub': FloatSub, 'entries': entries}


def _addr_of(ffi, p):
    """Address held by a pointer/array/function cdata, read from memory after
    storing it into a void*[1] (does not go through cast)."""
    box = ffi.new('void *[1]', [p])
    return struct.unpack('N', bytes(ffi.buffer(box)))[0]


def _make_own(st, name):
    """-> (source cdata, keepalive, fnptr type or None, expected call result or None)"""
    ffi, mffi, lib = st['ffi'], st['mffi'], st['lib']
    if name == 'null':
        return ffi.NULL, None
    if name == 'new_long':
        return ffi.new('long *', 5), None
    if name == 'new_struct':
        return ffi.new('struct c04_s *'), None
    if name == 'new_structarr':
        return ffi.new('struct c04_s[]', 3), None
    if name == 'new_chararr':
        return ffi.new('char[]', b'hello'), None
    if name == 'addressof_field':
        s = ffi.new('struct c04_s *')
        return ffi.addressof(s, 'b'), s
    if name == 'addressof_elem':
        a = ffi.new('int[4]')
        return ffi.addressof(a, 2), a
    if name == 'addressof_struct':
        s = ffi.new('struct c04_s *')
        return ffi.addressof(s[0]), s
    if name == 'from_buffer':
        b = bytearray(24)
        return ffi.from_buffer(b), b
    if name == 'from_buffer_typed':
        b = bytearray(24)
        return ffi.from_buffer('int[]', b), b
    if name == 'handle':
        o = object()
        return ffi.new_handle(o), o
    if name == 'callback':
        return ffi.callback('int(int)', lambda x: x * 3 + 1), None
    if name == 'ptr_arith':
        a = ffi.new('short[10]')
        return a + 7, a
    if name == 'gc':
        return ffi.gc(ffi.cast('char *', 0x123450), lambda p: None), None
    if name == 'gc_owned':
        a = ffi.new('long[2]')
        return ffi.gc(a, lambda p: None), a
    if name == 'mod_new':
        return mffi.new('struct c04_s *'), None
    if name in ('fn_addr1', 'fn_addr2', 'fn_addr3'):
        return mffi.addressof(lib, 'c04_f' + name[-1]), None
    if name == 'new_allocator':
        return ffi.new_allocator(should_clear_after_alloc=False)('int[5]'), None
    if name == 'cast_of_own':
        a = ffi.new('long[3]')
        return ffi.cast('unsigned char *', a), a
    if name == 'deref_ptrptr':
        a = ffi.new('int[2]')
        pp = ffi.new('int *[1]', [a + 1])
        return pp[0], (a, pp)
    raise ValueError(name)


_NOSRC = object()


def _make_hostile(st, name):
    ffi = st['ffi']
    if name in ('inf', '-inf', 'nan'):
        return float(name)
    if name == 'float_cdata_inf':
        return ffi.cast('double', float('inf'))
    if name == 'struct_cdata':
        return ffi.new('struct c04_s *')[0]

    class IntRaises(object):
        def __int__(self):
            raise KeyError('c04')

    class IntReturnsStr(object):
        def __int__(self):
            return 'x'
    return {'empty_str': '', 'str2': 'ab', 'str_long': '\U0010ffff' * 3000, 'empty_bytes': b'',
            'bytes2': b'ab', 'none': None, 'list': [1], 'complex': 1j, 'int_raises': IntRaises(),
            'int_returns_str': IntReturnsStr(), 'bytearray1': bytearray(b'a')}[name]


def _call_through(ffi, fp, which):
    if which == 1:
        return fp(5) == 16
    if which == 2:
        return fp() == 424242
    s = ffi.new('struct c04_s *', [35, 0])
    return fp(s[0]) == 42


def child_case(st, case):
    ffi, cffi_ = st['ffi'], st['cffi']
    T = case['T']
    ents = case.get('entries') or ['py']
    alts = [e for e in ents if e != 'py']
    entries = {}
    entry_exc = {}
    for e in alts:
        fn, mk = st['entries'][e]
        try:
            entries[e] = (fn, mk(T))
        except Exception as ex:      # the type itself is not accepted through this entry
            entry_exc[e] = ['exc', type(ex).__name__, str(ex)[:100]]
    out = []
    altbad = []
    nalt = {}
    rot = sum(T.encode()) if alts else 0
    for vi, (kind, v) in enumerate(case['vals']):
        addr = None
        callable_as = None     # (fnptr type, which function) for sources that can be called
        src_ptype = None
        src = _NOSRC
        try:
            if kind == 'int':
                src = v
            elif kind == 'intsub':
                src = st['IntSub'](v)
            elif kind == 'float':
                src = float.fromhex(v)
            elif kind == 'floatsub':
                src = st['FloatSub'](float.fromhex(v))
            elif kind == 'bool':
                src = v
            elif kind == 'bytes':
                src = bytes([v])
            elif kind == 'str':
                src = chr(v)
            elif kind == 'ptr':
                src = ffi.cast('short *', v)
            elif kind == 'fnptr':
                src = ffi.cast('int(*)(int, char)', v)
            elif kind == 'array':
                src = ffi.new('int[]', 3) if v else ffi.new('char[5]')
                ct = st['ctypes']
                addr = ct.addressof(ct.c_char.from_buffer(ffi.buffer(src)))
            elif kind == 'ptrT':
                src = ffi.cast(v[0], v[1])
                if v[0].endswith('*') or '(*)' in v[0]:
                    src_ptype = v[0]
            elif kind == 'own':
                src, keep = _make_own(st, v)
                addr = _addr_of(ffi, src)
                if v == 'callback':
                    callable_as = ('int(*)(int)', 1)
                elif v.startswith('fn_addr'):
                    callable_as = (LIBFNS['c04_f' + v[-1]], int(v[-1]))
            elif kind == 'hostile':
                src = _make_hostile(st, v)
            elif kind == 'libfn':
                src = getattr(st['lib'], v)
                addr = _addr_of(ffi, st['mffi'].addressof(st['lib'], v))
                callable_as = (LIBFNS[v], int(v[-1]))
            r = ffi.cast(T, src)
            res = ['ok', int(r)]
            if kind in PTR_KINDS and T in IPTR_TYPES:
                back = ffi.cast('void *', r)
                res.append(back == ffi.cast('void *', src))
                res.append(int(ffi.cast('uintptr_t', back)))
                routes = {}
                todo = [('voidp', lambda: ffi.cast('void *', r)),
                        ('pyint', lambda: ffi.cast('void *', int(r))),
                        ('pyint_charp', lambda: cffi_.cast('char *', int(r))),
                        ('c_voidp', lambda: cffi_.cast('void *', r)),
                        ('src_to_voidp', lambda: ffi.cast('void *', src))]
                if src_ptype:
                    todo.append(('ptype', lambda: ffi.cast(src_ptype, r)))
                if callable_as:
                    todo.append(('fntype', lambda: ffi.cast(callable_as[0], r)))
                    todo.append(('fntype_pyint', lambda: st['mffi'].cast(callable_as[0], int(r))))
                for name, fn in todo:
                    try:
                        b = fn()
                        routes[name] = _addr_of(ffi, b)
                        # (only call through it when it is the right address)
                        if name.startswith('fntype') and routes[name] == addr:
                            routes['call_' + name] = bool(_call_through(
                                st['mffi'] if name == 'fntype_pyint' else ffi, b, callable_as[1]))
                    except Exception as e:
                        routes[name] = 'exc:%s: %s' % (type(e).__name__, str(e)[:80])
                res.append(routes)
        except Exception as e:
            res = ['exc', type(e).__name__, str(e)[:100]]
        if addr is not None:
            res.append({'addr': addr})
        out.append(res)
        # the same source object through the other entry points
        if alts and src is not _NOSRC:
            if kind == 'int':
                use = [alts[(vi + rot) % len(alts)]]
            elif kind in ('float', 'bytes'):
                # high-volume kinds: one alternate entry for every second value
                use = [alts[(vi // 2 + rot) % len(alts)]] if (vi + rot) % 2 == 0 else []
            else:
                use = alts
            for e in use:
                nalt[e] = nalt.get(e, 0) + 1
                if e in entry_exc:
                    r2 = entry_exc[e]
                else:
                    fn, targ = entries[e]
                    try:
                        r2 = ['ok', int(fn(targ, src))]
                    except Exception as ex:
                        r2 = ['exc', type(ex).__name__, str(ex)[:100]]
                if r2[:2] != res[:2]:
                    altbad.append([vi, e, r2])
    return {'r': out, 'alt': altbad, 'nalt': nalt}


def judge(ctx, setup, case, obs):
    T, size, signed = case['T'], case['size'], case['signed']
    if case.get('alias'):
        ctx.count('alias_type_cases')
    expd = {}
    for vi, ((kind, v), r) in enumerate(zip(case['vals'], obs['r'])):
        if kind == 'hostile':
            ctx.case((T, kind, v), sample={'T': T, 'kind': kind, 'v': v, 'result': r[:3]})
            ctx.count('hostile_' + ('returned' if r[0] == 'ok' else 'raised'))
            continue
        x = float.fromhex(v) if kind in ('float', 'floatsub') else v
        if kind in ('array', 'own', 'libfn'):
            if not isinstance(r[-1], dict) or 'addr' not in r[-1]:
                ctx.inconclusive('could not build source %s %r: %r' % (kind, v, r[:3]))
                continue
            x = r[-1]['addr']
        elif kind == 'ptrT':
            x = v[1]
        key_v = v if not isinstance(v, list) else tuple(v)
        ctx.case((T, kind, key_v), nontrivial=not (kind == 'int' and -1 <= v <= 1),
                 sample={'T': T, 'kind': kind, 'v': v if not (kind == 'int' and abs(v) > 1 << 200)
                         else 'int of %d bits' % v.bit_length(), 'result': r[:2]})
        ctx.count('kind_' + kind)
        if kind in ('int', 'intsub') and abs(v) >= 1 << 131:
            ctx.count('huge_ints')
        if kind == 'own':
            ctx.count('own_' + v)
        rd = {'T': T, 'size': size, 'signed': signed, 'vals': [[kind, v]], 'gcc': {},
              'entries': case.get('entries')}
        if kind == 'libfn' and T in BOOL_TYPES:
            # (_Bool) of a builtin lib function: not a function *cdata*, the statement does
            # not cover it (cffi raises TypeError there); observed, not judged
            ctx.count('libfn_to_bool_' + ('ok' if r[0] == 'ok' else 'raised_' + str(r[1])))
            continue
        exp = model(T, size, signed, kind, x)
        expd[vi] = (exp, kind, v, rd)
        if r[0] != 'ok':
            ctx.violation('cast-raised:%s:%s' % (kind, r[1]),
                          'ffi.cast(%r, <%s %r>) raised %s: %s' % (T, kind, v, r[1], r[2]), rd)
            continue
        if r[1] != exp:
            ctx.violation('cast-value:%s' % kind,
                          'int(ffi.cast(%r, <%s %r>)) = %d, C conversion gives %d' %
                          (T, kind, v, r[1], exp), rd)
        g = case['gcc'].get(vi, case['gcc'].get(str(vi)))
        if g is not None:
            ctx.count('gcc_checked')
            if g != exp:
                raise core.Inconclusive('model disagrees with gcc for (%s)%r: model %d gcc %d'
                                        % (T, v, exp, g))
        if kind in PTR_KINDS and T in IPTR_TYPES:
            ctx.count('ptr_roundtrips')
            if r[2] is not True or r[3] != x:
                ctx.violation('ptr-roundtrip', 'pointer %#x -> %s -> pointer gave %#x (equal=%r)'
                              % (x, T, r[3], r[2]), rd)
            for name, got in sorted(r[4].items()):
                ctx.count('rt_route_' + name)
                if name.startswith('call_'):
                    if got is not True:
                        ctx.violation('ptr-roundtrip:call', 'function %r -> %s -> function pointer: '
                                      'calling it does not behave as the function' % (v, T), rd)
                    continue
                if got != x:
                    mech = 'ptr-roundtrip:pyint' if 'pyint' in name else 'ptr-roundtrip'
                    ctx.violation(mech, 'pointer %#x -> %s -> back via route %s gave %s'
                                  % (x, T, name, hex(got) if isinstance(got, int) else got), rd)
    for e, n in (obs.get('nalt') or {}).items():
        ctx.count('entry_' + e, n)
    for vi, e, r2 in obs.get('alt') or []:
        if vi not in expd:
            continue
        exp, kind, v, rd = expd[vi]
        rd = dict(rd, entries=['py', e])
        if r2[0] != 'ok':
            ctx.violation('cast-raised:%s:%s@%s' % (kind, r2[1], e),
                          'cast(%r, <%s %r>) through entry point %s raised %s: %s'
                          % (T, kind, v, e, r2[1], r2[2]), rd)
        elif r2[1] != exp:
            ctx.violation('cast-value:%s@%s' % (kind, e),
                          'int(cast(%r, <%s %r>)) through entry point %s = %d, C conversion gives %d'
                          % (T, kind, v, e, r2[1], exp), rd)
