"""C04 -- ffi.cast to integer and character types follows C conversion rules.

Monitor: differential against (a) a Python big-int model of C conversion and
(b) for in-range inputs the value gcc prints for `(T)x`.  ASan/UBSan backend.
"""
import math, struct
from vlib import gen, cc, core

RULE = ("cases = (target type T, source kind, value); kinds: int (boundary lattice of every "
        "width up to 2**130 + random), finite float (edges, near 2**k, random bit patterns), "
        "bool, 1-byte bytes, 1-char str, pointer/array/function cdata at random addresses; "
        "distinct = distinct (T, kind, value); non-trivial = value outside [-1,1] or non-int kind")
ASSUMPTIONS = ["plain 'char' cdata is a character: int() gives its byte value 0..255 (cffi's documented "
               "character semantics), wchar_t is signed as the compiler says",
               "gcc's implementation-defined narrowing (modulo 2**N) is the C conversion meant by the statement"]

TYPES = gen.INT_TYPES + [('_Bool', 1, False)] + \
    [('char', 1, False), ('wchar_t', 4, True), ('char16_t', 2, False), ('char32_t', 4, False)]


def model(T, size, signed, kind, v):
    if kind == 'int':
        x = v
    elif kind == 'float':
        x = int(v)  # trunc toward zero
    elif kind == 'bool':
        x = 1 if v else 0
    elif kind == 'bytes':
        x = v
    elif kind == 'str':
        x = v
    elif kind in ('ptr', 'fnptr', 'array'):
        x = v
    if T == '_Bool':
        if kind == 'float':
            return 1 if v != 0 else 0
        return 1 if x != 0 else 0
    bits = 8 * size
    x &= (1 << bits) - 1
    if signed and x >= 1 << (bits - 1):
        x -= 1 << bits
    return x


def generate(ctx):
    rng = ctx.rng('gen')
    nrand = ctx.scale(40, 1500)
    cases = []
    for (T, size, signed) in TYPES:
        lo, hi = gen.int_range(size, signed)
        vals = []
        for v in gen.lattice(lo, hi):
            vals.append(('int', v))
        for _ in range(nrand):
            vals.append(('int', gen.rand_int(rng)))
        fl = list(gen.FLOAT_EDGES)
        for k in list(range(0, 70)) + [100, 127, 200, 1000]:
            for d in (-1.0, -0.5, 0.0, 0.5, 1.0):
                fl.append(math.ldexp(1.0, k) + d)
                fl.append(-math.ldexp(1.0, k) + d)
            fl.append(math.nextafter(math.ldexp(1.0, k), 0))
            fl.append(math.nextafter(math.ldexp(1.0, k), math.inf))
        for _ in range(nrand):
            fl.append(gen.rand_double(rng))
        for x in fl:
            if x == x and x not in (math.inf, -math.inf):
                vals.append(('float', x.hex()))
        vals.append(('bool', True))
        vals.append(('bool', False))
        for b in range(256):
            vals.append(('bytes', b))
        cps = [0, 1, 0x41, 0x7f, 0x80, 0xff, 0x100, 0xd7ff, 0xd800, 0xdfff, 0xe000, 0xffff,
               0x10000, 0x10ffff] + [rng.randrange(0x110000) for _ in range(20 + nrand // 10)]
        for c in cps:
            vals.append(('str', c))
        addrs = [0, 1, 8, 0x7fffffff, 0x80000000, 0xffffffff, 0x100000000, (1 << 47) - 8,
                 (1 << 63) - 1, 1 << 63, (1 << 64) - 1, (1 << 64) - 8] + \
                [rng.getrandbits(rng.choice([16, 32, 48, 64])) for _ in range(20 + nrand // 10)]
        for a in addrs:
            vals.append((rng.choice(['ptr', 'ptr', 'fnptr']), a))
        vals.append(('array', 0))
        vals.append(('array', 1))
        # split into chunks so that shards balance
        for i in range(0, len(vals), 400):
            cases.append({'T': T, 'size': size, 'signed': signed, 'vals': vals[i:i + 400]})
    # gcc oracle for in-range inputs: (T)x
    units = []
    for ci, c in enumerate(cases):
        stm = []
        for vi, (kind, v) in enumerate(c['vals']):
            if kind == 'int' and -(1 << 63) <= v < (1 << 64):
                lit = ('%dULL' % v) if v >= (1 << 63) else \
                    ('(-%dLL-1)' % (-(v + 1))) if v < 0 else '%dLL' % v
            elif kind == 'float':
                x = float.fromhex(v)
                lo, hi = gen.int_range(c['size'], c['signed'])
                if c['T'] == '_Bool':
                    lit = '%s' % x.hex()
                elif lo <= int(x) <= hi:
                    lit = '%s' % x.hex()
                else:
                    continue
            elif kind == 'bytes':
                lit = '(unsigned char)%d' % v
            else:
                continue
            Tc = c['T']
            fmt, castp = ('%llu', 'unsigned long long') if not c['signed'] else ('%lld', 'long long')
            if Tc == 'char':
                Tc = 'unsigned char'   # see ASSUMPTIONS
            stm.append('printf("%d %s\\n", (%s)(%s)(%s));' % (vi, fmt, castp, Tc, lit))
        units.append((ci, '', '\n'.join(stm)))
    res = cc.batch_probe(ctx.tmp, units, batch=20)
    for ci, c in enumerate(cases):
        r = res.get(ci)
        if isinstance(r, dict):
            raise core.Inconclusive('gcc probe failed: ' + r['error'][:300])
        c['gcc'] = {int(l.split()[0]): int(l.split()[1]) for l in r}
    return None, cases


def child_setup(setup, wd):
    import _cffi_backend, ctypes
    from cffi import FFI
    ffi = FFI()
    return {'ffi': ffi, 'keep': [], 'ctypes': ctypes}


def child_case(st, case):
    ffi = st['ffi']
    T = case['T']
    out = []
    for kind, v in case['vals']:
        addr = None
        try:
            if kind == 'int':
                src = v
            elif kind == 'float':
                src = float.fromhex(v)
            elif kind == 'bool':
                src = v
            elif kind == 'bytes':
                src = bytes([v])
            elif kind == 'str':
                src = chr(v)
            elif kind == 'ptr':
                src = ffi.cast('short *', v)
            elif kind == 'fnptr':
                src = ffi.cast('int(*)(int, char)', v)
            elif kind == 'array':
                src = ffi.new('int[]', 3) if v else ffi.new('char[5]')
                ct = st['ctypes']
                addr = ct.addressof(ct.c_char.from_buffer(ffi.buffer(src)))
            r = ffi.cast(T, src)
            res = ['ok', int(r)]
            if kind in ('ptr', 'fnptr', 'array') and T in ('intptr_t', 'uintptr_t'):
                back = ffi.cast('void *', r)
                res.append(back == ffi.cast('void *', src))
                res.append(int(ffi.cast('uintptr_t', back)))
        except Exception as e:
            res = ['exc', type(e).__name__, str(e)[:100]]
        if addr is not None:
            res.append({'addr': addr})
        out.append(res)
    return {'r': out}


def judge(ctx, setup, case, obs):
    T, size, signed = case['T'], case['size'], case['signed']
    for vi, ((kind, v), r) in enumerate(zip(case['vals'], obs['r'])):
        x = float.fromhex(v) if kind == 'float' else v
        if kind == 'array':
            x = r[-1]['addr']
        ctx.case((T, kind, v), nontrivial=not (kind == 'int' and -1 <= v <= 1),
                 sample={'T': T, 'kind': kind, 'v': v, 'result': r[:2]})
        ctx.count('kind_' + kind)
        exp = model(T, size, signed, kind, x)
        rd = {'T': T, 'size': size, 'signed': signed, 'vals': [[kind, v]], 'gcc': {}}
        if r[0] != 'ok':
            ctx.violation('cast-raised:%s:%s' % (kind, r[1]),
                          'ffi.cast(%r, <%s %r>) raised %s: %s' % (T, kind, v, r[1], r[2]), rd)
            continue
        if r[1] != exp:
            ctx.violation('cast-value:%s' % kind,
                          'int(ffi.cast(%r, <%s %r>)) = %d, C conversion gives %d' %
                          (T, kind, v, r[1], exp), rd)
        g = case['gcc'].get(vi, case['gcc'].get(str(vi)))
        if g is not None:
            ctx.count('gcc_checked')
            if g != exp:
                raise core.Inconclusive('model disagrees with gcc for (%s)%r: model %d gcc %d'
                                        % (T, v, exp, g))
        if kind in ('ptr', 'fnptr', 'array') and T in ('intptr_t', 'uintptr_t'):
            ctx.count('ptr_roundtrips')
            if r[2] is not True or r[3] != x:
                ctx.violation('ptr-roundtrip', 'pointer %#x -> %s -> pointer gave %#x (equal=%r)'
                              % (x, T, r[3], r[2]), rd)
