"""C32 -- verify() module names are deterministic and input-sensitive.

Monitors (child, real cffi from /repo/src):
  * cffi.verifier.binascii is replaced by a recording proxy: the two CRC32
    inputs key[0::2] / key[1::2] are re-joined into the hashed key, which must
    decode back to (python version, preamble, kwds, cdef sources);
  * an icontract postcondition on ffiplatform.flatten: unflatten(result) ==
    norm(x) with an explicit inverse parser (norm: list==tuple, bool==int,
    dict = set of pairs);
  * every base input is run next to equivalent respellings (same key and name
    demanded) and near-miss neighbours (different key demanded).
Determinism: the same inputs are re-evaluated by un-monitored fresh processes
under several PYTHONHASHSEEDs and compared name by name in the parent.
Audit extension:
  * entry points / histories that must give the key of the plain spelling:
    ffi.verify() itself (Verifier.load_library is stubbed in the children so
    that nothing is compiled; the name is chosen in Verifier.__init__), cdef()
    with override=/packed=/pack= and embedding_api(), Verifier() calls made
    between the cdef() calls of one FFI (every prefix key is decoded), failing
    cdef() calls in between (their text may or may not be part of the key:
    both accepted, counted);
  * keyword values of kinds flatten() does not list (set/frozenset/float/None/
    bytes): rejected or not, the outcome must not depend on the hash seed;
  * name probe: the CRC proxy returns chosen CRC values (leading zero nibbles,
    0, 2**32-1, digit strings that are ambiguous when concatenated) and the
    name must be distinct for distinct (crc1, crc2, tag, engine);
  * long strings / long lists (multi-digit length prefixes) as keyword values.
"""
import sys, os, re, hashlib, random, copy, warnings
import concurrent.futures as cf
from vlib import core

VARIANT = 'plain'
RULE = ("input = (preamble text, list of parseable cdef texts incl. ffi.include() nesting, "
        "Extension keywords with nested list/tuple/dict/int/bool/str values, tag, engine) drawn from "
        "a small hostile alphabet (digits, the type letters s/l/d/i, flatten look-alikes, non-ASCII, "
        "brackets); each base input is evaluated with equivalent respellings (keyword/dict order, "
        "tuple<->list, bool<->int, repeat) and near-miss neighbours (item boundary shifted, items "
        "merged/split/reordered/nested, str<->int, look-alike string, key/value swapped, comment "
        "moved across the preamble/cdef and cdef/cdef boundaries, include vs flat, tag, engine); "
        "plus flatten() alone on random nested values; distinct = normalised input; non-trivial = "
        "has keywords or cdefs; determinism = same inputs in un-monitored fresh processes under "
        "6 hash-seed runs; audit extension: each base input also through ffi.verify(), through "
        "cdef(override=/packed=/pack=)/embedding_api(), with Verifier() calls between the cdefs, with "
        "failing cdef() calls in between, with a set/frozenset/float/None/bytes keyword value, with "
        "long strings and lists; name probe = chosen CRC pairs x tags x engines")
ASSUMPTIONS = ["preamble and cdef texts are NUL-free (NUL is the key's field separator); note that "
               "a NUL inside a // or /* */ comment of a cdef does parse, see the nul-probe counters",
               "'keyword arguments' = the Extension keywords (**kwds) plus tag and "
               "force_generic_engine; tmpdir/flags/ext_package/source_extension/relative_to and "
               "cdef(packed=/pack=) are not inputs of the name by design of the statement",
               "keyword values are the kinds flatten() supports (str/int/bool/list/tuple/dict with "
               "mutually comparable keys); no lone surrogates (the key is UTF-8 encoded)",
               "the text of a cdef() call that raised may or may not count as a cdef source: a key "
               "that contains exactly those texts in call order is accepted (counter tolerated:...)",
               "cdef(override=/packed=/pack=) and embedding_api() are entry points for the same cdef "
               "source; ffi.verify() is driven with Verifier.load_library stubbed (nothing compiled)"]
TIMEOUT = 1500

FR = ['a', 'b', 'ab', '1', '2', '0', '12', 's', 'l', 'd', 'i', '-', '1s', '2l', '0d', '1sa', '1i',
      '1sa1sb', ' ', '\xe9', '中', '\U0001f600', '\x01', '.', '_', 'x', '3.12', '0x1', 'L',
      '[', ']']
KEYS = ['libraries', 'include_dirs', 'library_dirs', 'define_macros', 'extra_compile_args',
        'extra_link_args', 'sources', 'undef_macros', 'depends', 'language', 'py_limited_api']
RESERVED = {'ffi', 'preamble', 'tmpdir', 'modulename', 'ext_package', 'tag', 'force_generic_engine',
            'source_extension', 'flags', 'relative_to', 'source', 'self'}
CDEF_OPTS = ['override', 'packed', 'pack', 'embedding']
FAILING = ['int q{u}(int); undefined_{u}_t z{u};', 'int q{u}(int', 'typedef int;;; q{u} ((', 12]
UNSUP = ['set', 'set', 'set', 'frozenset', 'float', 'none', 'bytes']
PROBE_TAGS = ['', 't', 'a_x1', 'x', '0', 'x1', 'g', '_', 'a_', '1x2']
PROBE_CRCS = [0, 1, 2, 3, 0xf, 0x10, 0x12, 0x23, 0x123, 0x1230, 0x231, 0xabc, 0xabc00000,
              0x0fffffff, 0x10000000, 0x7fffffff, 0x80000000, 0xffffffff]
DECLS = ['int f{u}(int, char *);', 'typedef struct s{u}_s {{ int a; char b[{k}]; }} s{u}_t;',
         '#define C{u} {k}', 'extern double g{u};', 'enum e{u} {{ A{u}, B{u} = {k} }};',
         'typedef unsigned int u{u}_t;']
_NUM = re.compile(r'-?[0-9]+')
_INTSTR = re.compile(r'-?[1-9][0-9]*|0')
_LEAD = re.compile(r'^/\*.*?\*/', re.S)
_TRAIL = re.compile(r'/\*[^*]*\*/$')


# ---------------------------------------------------------------- model
class Unsupported(Exception):
    pass


class U(object):
    """a keyword value of a kind flatten() does not list; kept as a marker so that
    repr(input) does not depend on the hash seed, made real at the call"""
    def __init__(self, kind, items):
        self.kind, self.items = kind, items

    def __repr__(self):
        return 'U(%r, %r)' % (self.kind, self.items)

    def real(self):
        k = self.kind
        if k in ('set', 'frozenset'):
            return (set if k == 'set' else frozenset)(self.items)
        return {'float': 1.5, 'none': None, 'bytes': b'ab'}[k]


def realise(x):
    if isinstance(x, U):
        return x.real()
    if isinstance(x, dict):
        return {k: realise(v) for k, v in x.items()}
    if isinstance(x, (list, tuple)):
        return type(x)(realise(v) for v in x)
    return x


def norm(x):
    """what flatten() is allowed to identify: list==tuple, bool==int, dict order"""
    if isinstance(x, str):
        return x
    if isinstance(x, int):
        return int(x)
    if isinstance(x, (list, tuple)):
        return [norm(v) for v in x]
    if isinstance(x, dict):
        return ('D', sorted(([norm(k), norm(v)] for k, v in x.items()), key=repr))
    raise Unsupported(repr(x))


def unflatten(s, pos=0):
    """explicit inverse of an injective flatten(): returns (norm value, end)"""
    m = _NUM.match(s, pos)
    if not m:
        raise ValueError('no length/number at %d' % pos)
    n, t, pos = int(m.group()), s[m.end():m.end() + 1], m.end() + 1
    if t == 'i':
        return n, pos
    if n < 0 or t not in ('s', 'l', 'd'):
        raise ValueError('bad item header %r' % (m.group() + t))
    if t == 's':
        if pos + n > len(s):
            raise ValueError('string runs past the end')
        return s[pos:pos + n], pos + n
    items = []
    for _ in range(n * (2 if t == 'd' else 1)):
        v, pos = unflatten(s, pos)
        items.append(v)
    if t == 'l':
        return items, pos
    return ('D', sorted(([items[i], items[i + 1]] for i in range(0, len(items), 2)), key=repr)), pos


def unflatten_all(s):
    v, pos = unflatten(s)
    if pos != len(s):
        raise ValueError('trailing data after the value')
    return v


def enc(v):
    """model encoding, only used to build look-alike *strings* as hostile inputs"""
    if isinstance(v, str):
        return '%ds%s' % (len(v), v)
    if isinstance(v, int):
        return '%di' % v
    if isinstance(v, dict):
        return '%dd' % len(v) + ''.join(enc(k) + enc(v[k]) for k in v)
    return '%dl' % len(v) + ''.join(map(enc, v))


def flat_cdefs(cdefs):
    out = []
    for c in cdefs:
        out += (['['] + flat_cdefs(c) + [']']) if isinstance(c, list) else [c]
    return out


def ident(inp):
    """normalised identity of what the key must encode"""
    return repr((inp['pre'], norm(inp['kwds']), flat_cdefs(inp['cdefs'])))


def digest(s):
    return hashlib.md5(s.encode('utf-8', 'surrogatepass')).hexdigest()[:16]


# ---------------------------------------------------------------- generation
def text(rnd, maxn=4):
    return ''.join(rnd.choice(FR) for _ in range(rnd.randint(0, maxn)))


def rand_value(rnd, depth=2):
    r = rnd.random()
    if r < 0.03:
        return text(rnd, rnd.choice([10, 40, 150]))
    if depth and r < 0.05:
        return [text(rnd, 1) for _ in range(rnd.randint(10, 13))]
    if depth == 0 or r < 0.4:
        return text(rnd, 3)
    if r < 0.55:
        return rnd.choice([0, 1, 2, 10, 12, -1, -12, True, False, 2 ** 64, -2 ** 70,
                           rnd.randint(-1000, 1000)])
    if r < 0.9:
        items = [rand_value(rnd, depth - 1) for _ in range(rnd.randint(0, 3))]
        return tuple(items) if rnd.random() < 0.3 else items
    if rnd.random() < 0.7:
        return {text(rnd, 2): rand_value(rnd, depth - 1) for _ in range(rnd.randint(0, 3))}
    return {rnd.randint(-3, 12): rand_value(rnd, depth - 1) for _ in range(rnd.randint(0, 3))}


def rand_cdef(rnd, uid):
    s = rnd.choice(DECLS).format(u=uid, k=rnd.randint(1, 9))
    if rnd.random() < 0.5:
        s = '/*%s*/%s' % (text(rnd), s)
    r = rnd.random()
    if r < 0.4:
        s += '/*%s*/' % text(rnd)
    elif r < 0.6:
        s += ' //' + text(rnd)
    return rnd.choice(['', ' ', '\n']) + s


def rand_input(rnd):
    uid = [0]

    def cd():
        uid[0] += 1
        return rand_cdef(rnd, uid[0])
    cdefs = [cd() for _ in range(rnd.choice([0, 1, 1, 2, 2, 3]))]
    if rnd.random() < 0.25:
        inc = [cd() for _ in range(rnd.randint(0, 2))]
        if rnd.random() < 0.3:
            inc.insert(0, [cd()])
        cdefs.insert(rnd.randint(0, len(cdefs)), inc)
    kwds = {}
    for _ in range(rnd.choice([0, 1, 2, 2, 3, 4])):
        k = rnd.choice(KEYS) if rnd.random() < 0.7 else text(rnd, 3)
        if k in RESERVED:
            continue
        r = rnd.random()
        if r < 0.5:
            v = [text(rnd, 3) for _ in range(rnd.randint(0, 3))]
        elif r < 0.6:
            v = [(text(rnd, 2), text(rnd, 2)) for _ in range(rnd.randint(1, 2))]
        else:
            v = rand_value(rnd)
        kwds[k] = v
    pre = text(rnd, 5) if rnd.random() < 0.7 else '#include <math.h>\n' + text(rnd, 2)
    return {'pre': pre, 'cdefs': cdefs, 'kwds': kwds,
            'tag': rnd.choice(['', '', '', 't', 'a_x1', 'x', '0']), 'generic': rnd.random() < 0.2}


def nodes(x, path=()):
    yield path, x
    if isinstance(x, (list, tuple)):
        for i, v in enumerate(x):
            yield from nodes(v, path + (i,))
    elif isinstance(x, dict):
        for k, v in x.items():
            yield from nodes(v, path + (k,))


def replace(x, path, new):
    if not path:
        return new
    if isinstance(x, dict):
        return {k: (replace(v, path[1:], new) if k == path[0] else v) for k, v in x.items()}
    items = [replace(v, path[1:], new) if i == path[0] else v for i, v in enumerate(x)]
    return tuple(items) if isinstance(x, tuple) else items


def respell(rnd, x, what):
    """an equivalent spelling of x (must flatten identically)"""
    if isinstance(x, dict):
        items = [(respell(rnd, k, what) if what == 'bool-int' else k, respell(rnd, v, what))
                 for k, v in x.items()]
        if what == 'kw-order':
            rnd.shuffle(items)
            if len(items) > 1 and [k for k, _ in items] == list(x):
                items.reverse()
        return dict(items)
    if isinstance(x, (list, tuple)):
        items = [respell(rnd, v, what) for v in x]
        if what == 'tuple-list':
            return items if isinstance(x, tuple) else tuple(items)
        return tuple(items) if isinstance(x, tuple) else items
    if what == 'bool-int' and isinstance(x, int) and x in (0, 1):
        return int(x) if isinstance(x, bool) else bool(x)
    return x


def is_list(v):
    return isinstance(v, (list, tuple))


def strs2(v):
    return is_list(v) and len(v) >= 2 and isinstance(v[0], str) and isinstance(v[1], str) and v[0]


NODE_MUT = {
    'list-boundary': (strs2, lambda v: [v[0][:-1], v[0][-1] + v[1]] + list(v[2:])),
    'merge-items': (strs2, lambda v: [v[0] + v[1]] + list(v[2:])),
    'split-item': (lambda v: is_list(v) and v and isinstance(v[0], str) and len(v[0]) >= 2,
                   lambda v: [v[0][:1], v[0][1:]] + list(v[1:])),
    'reorder-list': (lambda v: is_list(v) and len(v) >= 2, lambda v: list(v[1:]) + [v[0]]),
    'nest': (is_list, lambda v: [v]),
    'str-int': (lambda v: isinstance(v, int) or (isinstance(v, str) and _INTSTR.fullmatch(v)),
                lambda v: str(int(v)) if isinstance(v, int) else int(v)),
    'lookalike': (lambda v: not isinstance(v, str), enc),
    'str-in-list': (lambda v: isinstance(v, str), lambda v: [v]),
}


def neighbour(rnd, inp, kind):
    """a near-miss input (normally a different one), or None when not applicable"""
    out = dict(inp)
    kw, cdefs, pre = inp['kwds'], inp['cdefs'], inp['pre']
    strs = [i for i, c in enumerate(cdefs) if isinstance(c, str)]
    if kind in NODE_MUT:
        pred, f = NODE_MUT[kind]
        cand = [(p, v) for p, v in nodes(kw) if p and pred(v)]
        if not cand:
            return None
        p, v = rnd.choice(cand)
        out['kwds'] = replace(kw, p, f(v))
    elif kind == 'drop-key':
        if not kw:
            return None
        k = rnd.choice(list(kw))
        out['kwds'] = {a: b for a, b in kw.items() if a != k}
    elif kind in ('key-value-swap', 'key-boundary'):
        cand = [k for k, v in kw.items() if isinstance(v, str)]
        if not cand:
            return None
        k = rnd.choice(cand)
        nk, nv = (kw[k], k) if kind == 'key-value-swap' else (k[:-1], k[-1:] + kw[k])
        if nk in RESERVED or (nk in kw and nk != k):
            return None
        out['kwds'] = {(nk if a == k else a): (nv if a == k else b) for a, b in kw.items()}
    elif kind == 'move-between-keys':
        cand = [k for k, v in kw.items() if is_list(v)]
        if len(cand) < 2 or not kw[cand[0]]:
            return None
        a, b = cand[:2]
        out['kwds'] = dict(kw, **{a: list(kw[a][:-1]), b: [kw[a][-1]] + list(kw[b])})
    elif kind == 'pre-append':
        out['pre'] = pre + rnd.choice(FR)
    elif kind == 'pre-cdef-boundary':
        if not cdefs or not isinstance(cdefs[0], str) or not _LEAD.match(cdefs[0].lstrip()):
            return None
        c = cdefs[0].lstrip()
        m = _LEAD.match(c)
        out['pre'], out['cdefs'] = pre + m.group(), [c[m.end():]] + cdefs[1:]
    elif kind in ('cdef-boundary', 'cdef-merge', 'cdef-swap'):
        pairs = [i for i in strs if i + 1 in strs]
        if not pairs:
            return None
        i = rnd.choice(pairs)
        a, b = cdefs[i], cdefs[i + 1]
        if kind == 'cdef-boundary':
            m = _TRAIL.search(a)
            if not m:
                return None
            new = [a[:m.start()], m.group() + b]
        else:
            new = [a + '\n' + b] if kind == 'cdef-merge' else [b, a]
        out['cdefs'] = cdefs[:i] + new + cdefs[i + 2:]
    elif kind in ('cdef-append-space', 'drop-cdef'):
        if not strs:
            return None
        i = rnd.choice(strs)
        out['cdefs'] = cdefs[:i] + ([cdefs[i] + ' '] if kind == 'cdef-append-space' else []) + \
            cdefs[i + 1:]
    elif kind == 'include-flat':
        incs = [i for i, c in enumerate(cdefs) if isinstance(c, list)]
        if not incs:
            return None
        i = incs[0]
        out['cdefs'] = cdefs[:i] + cdefs[i] + cdefs[i + 1:]
    elif kind == 'via-ffi-verify':
        out['via'] = 'ffi.verify'
    elif kind == 'cdef-options':
        if not strs:
            return None
        how = {i: rnd.choice(CDEF_OPTS) for i in strs if rnd.random() < 0.7}
        out['how'] = how or {strs[0]: rnd.choice(CDEF_OPTS)}
    elif kind == 'verify-between-cdefs':
        if not cdefs:
            return None
        out['hist'] = 'verify-between'
    elif kind == 'failed-cdef':
        out['failed'] = sorted([rnd.randint(0, len(cdefs)), rnd.randrange(len(FAILING))]
                               for _ in range(rnd.randint(1, 2)))
    elif kind == 'unsupported-value':
        items = []
        for _ in range(rnd.randint(2, 5)):
            t = text(rnd, 2)
            if t not in items:
                items.append(t)
        u = U(rnd.choice(UNSUP), items)
        cand = [p for p, v in nodes(kw) if p]
        if cand and rnd.random() < 0.6:
            out['kwds'] = replace(kw, rnd.choice(cand), u)
        else:
            out['kwds'] = dict(kw, libraries=[u] if rnd.random() < 0.3 else u)
        out['unsup'] = u.kind
    elif kind == 'tag':
        out['tag'] = inp['tag'] + rnd.choice(['a', '_', 'x1', '0'])
    elif kind == 'engine':
        out['generic'] = not inp['generic']
    return out


EQUIV = ['repeat', 'kw-order', 'tuple-list', 'bool-int']
ENTRY = ['via-ffi-verify', 'cdef-options', 'verify-between-cdefs', 'failed-cdef', 'unsupported-value']
DISTINCT = list(NODE_MUT) + ['drop-key', 'key-value-swap', 'key-boundary', 'move-between-keys',
                             'pre-append', 'pre-cdef-boundary', 'cdef-boundary', 'cdef-merge',
                             'cdef-swap', 'cdef-append-space', 'drop-cdef', 'include-flat']


def make_inputs(seed):
    """[(kind, input)]: a base input, its respellings and near-miss neighbours;
    a pure function of the seed (no set iteration: independent of the hash seed)"""
    rnd = random.Random(seed)
    base = rand_input(rnd)
    out = [('base', base)]
    for kind in EQUIV:
        out.append((kind, dict(base, kwds=base['kwds'] if kind == 'repeat'
                               else respell(rnd, base['kwds'], kind))))
    for kind in ENTRY:
        out.append((kind, neighbour(rnd, base, kind)))
    kinds = list(DISTINCT)
    rnd.shuffle(kinds)
    n = 0
    for kind in kinds:
        nb = neighbour(rnd, base, kind)
        out.append((kind, nb))
        n += nb is not None
        if n >= 5:
            break
    out += [('tag', neighbour(rnd, base, 'tag')), ('engine', neighbour(rnd, base, 'engine'))]
    return out


# ---------------------------------------------------------------- child
class FlattenContractError(AssertionError):
    pass


EVALS = {'n': 0}


def flatten_output_decodes_to_input(x, result):
    EVALS['n'] += 1
    try:
        return isinstance(result, str) and repr(unflatten_all(result)) == repr(norm(x))
    except (ValueError, Unsupported):
        return False


class CrcRecorder(object):
    """stands in for the binascii module inside cffi.verifier"""
    def __init__(self):
        import binascii
        self._real, self.calls, self.force = binascii, [], []

    def __getattr__(self, name):
        return getattr(self._real, name)

    def crc32(self, data, *a):
        r = self._real.crc32(data, *a)
        if self.force:              # name probe: a chosen CRC value instead of the real one
            r = self.force.pop(0)
        self.calls.append((bytes(data), r & 0xffffffff))
        return r


def child_setup(setup, wd):
    warnings.simplefilter('ignore')
    import cffi, cffi.verifier as V, cffi.ffiplatform as P
    st = {'tmp': os.path.join(wd, 'vtmp'), 'rec': None, 'contract': 'none', 'P': P,
          'pyver': '%d.%d' % sys.version_info[:2], 'cffiver': cffi.__version_verifier_modules__}
    # never compile anything: ffi.verify() = Verifier(...) + load_library(); the module name is
    # chosen in Verifier.__init__, which runs unchanged
    V.Verifier.load_library = lambda self: None
    if setup and setup.get('monitor'):
        st['rec'] = V.binascii = CrcRecorder()
        try:
            sys.path.append(os.path.join(core.VERIF, '.deps'))
            import icontract
            P.flatten = icontract.ensure(flatten_output_decodes_to_input,
                                         error=FlattenContractError)(P.flatten)
            st['contract'] = 'icontract'
        except ImportError:
            real = P.flatten

            def flatten(x):
                result = real(x)
                if not flatten_output_decodes_to_input(x, result):
                    raise FlattenContractError('flatten(%r) = %r' % (x, result))
                return result
            P.flatten = flatten
            st['contract'] = 'plain-wrapper'
    return st


class HarnessError(Exception):
    pass


def failing_cdef(ffi, which, n):
    bad = FAILING[which]
    if isinstance(bad, str):
        bad = bad.format(u='%d_%d' % (which, n))
    try:
        ffi.cdef(bad)
    except Exception:
        return
    raise HarnessError('cdef(%r) was expected to fail' % (bad,))


def failed_text(which, n):
    bad = FAILING[which]
    return bad.format(u='%d_%d' % (which, n)) if isinstance(bad, str) else None


def build_ffi(cdefs, how=None, failed=(), after=None):
    """how: {top-level index: cdef entry point}; failed: [[position, which]] failing cdef()
    calls made before the top-level element at that position; after(ffi): called after every
    top-level element (and once before the first)"""
    from cffi import FFI
    ffi = FFI()
    if after:
        after(ffi)
    for i, c in enumerate(list(cdefs) + [None]):
        for n, (pos, which) in enumerate(failed):
            if pos == i:
                failing_cdef(ffi, which, n)
        if c is None:
            break
        opt = (how or {}).get(i)
        if isinstance(c, list):
            ffi.include(build_ffi(c))
        elif opt == 'override':
            ffi.cdef(c, override=True)
        elif opt == 'packed':
            ffi.cdef(c, packed=True)
        elif opt == 'pack':
            ffi.cdef(c, pack=2)
        elif opt == 'embedding':
            ffi.embedding_api(c)
        else:
            ffi.cdef(c)
        if after:
            after(ffi)
    return ffi


def cdefs_with_failed(inp):
    """the cdef list if the texts of the failing cdef() calls were part of it"""
    out = []
    for i, c in enumerate(list(inp['cdefs']) + [None]):
        for n, (pos, which) in enumerate(inp.get('failed', ())):
            if pos == i and failed_text(which, n) is not None:
                out.append(failed_text(which, n))
        if c is not None:
            out.append(c)
    return out


def verifier_name(st, ffi, inp):
    """one name through the entry point the input asks for"""
    from cffi.verifier import Verifier
    kw = realise(inp['kwds']) if inp.get('unsup') else inp['kwds']
    if inp.get('via') == 'ffi.verify':
        ffi.verify(inp['pre'], st['tmp'] + '-b', tag=inp['tag'],
                   force_generic_engine=inp['generic'], **kw)
        return ffi.verifier.get_module_name()
    return Verifier(ffi, inp['pre'], st['tmp'], tag=inp['tag'],
                    force_generic_engine=inp['generic'], **kw).get_module_name()


def module_name(st, inp, cache=None):
    """cache: FFI objects of one seed by cdef list (Verifier() only reads them)"""
    if inp.get('hist') == 'verify-between':     # Verifier() after every cdef()/include()
        names = []
        build_ffi(inp['cdefs'], inp.get('how'), inp.get('failed', ()),
                  after=lambda ffi: names.append(verifier_name(st, ffi, inp)))
        return names[-1]
    ck = repr((inp['cdefs'], sorted((inp.get('how') or {}).items()), inp.get('failed')))
    ffi = cache.get(ck) if cache is not None else None
    if ffi is None:
        ffi = build_ffi(inp['cdefs'], inp.get('how'), inp.get('failed', ()))
        if cache is not None:
            cache[ck] = ffi
    return verifier_name(st, ffi, inp)


def decode_key(st, key, inp):
    """-> mechanism suffix of the first field that does not decode back, or None"""
    try:
        parts = key.decode('utf-8').split('\x00', 3)
        if len(parts) != 4:
            return 'malformed'
        kw, pos = unflatten(parts[3])
        rest = parts[3][pos:]
        if rest and rest[0] != '\x00':
            return 'malformed'
        cdefs = rest[1:].split('\x00') if rest else []
    except (ValueError, UnicodeDecodeError):
        return 'malformed'
    if parts[0] != st['pyver']:
        return 'python-version'
    if parts[1] != st['cffiver']:
        return 'cffi-version'
    if parts[2] != inp['pre']:
        return 'preamble'
    if repr(kw) != repr(norm(inp['kwds'])):
        return 'kwds'
    if cdefs != flat_cdefs(inp['cdefs']):
        if inp.get('failed') and cdefs == flat_cdefs(cdefs_with_failed(inp)):
            return 'tolerated:failed-cdef-text-in-key'
        return 'cdefs'
    return None


def observe(st, rep, inp, seed, kind, cache):
    """run the monitored Verifier on one input -> (key, crcs, name) or None"""
    rec = st['rec']
    del rec.calls[:]
    try:
        name = module_name(st, inp, None if kind == 'repeat' else cache)
    except FlattenContractError as e:
        rep.bad('flatten-not-invertible', 'flatten(kwds) does not decode back to kwds for %r: %s'
                % (inp['kwds'], str(e)[:300]), seed)
        return None
    # one Verifier() per prefix of the cdef list with 'verify-between', else one
    expect = [inp]
    if inp.get('hist') == 'verify-between':
        expect = [dict(inp, cdefs=inp['cdefs'][:j]) for j in range(len(inp['cdefs']) + 1)]
    allcalls = list(rec.calls)
    if len(allcalls) != 2 * len(expect):
        rep.bad('key-observation', 'expected crc32(key[0::2]), crc32(key[1::2]) per Verifier(); '
                'saw %d calls for %d' % (len(allcalls), len(expect)), seed)
        return None
    tolerated = False
    for j, exp in enumerate(expect):
        rep.stat('verifier_calls')
        calls = allcalls[2 * j:2 * j + 2]
        if not 0 <= len(calls[0][0]) - len(calls[1][0]) <= 1:
            rep.bad('key-observation', 'expected crc32(key[0::2]), crc32(key[1::2])', seed)
            return None
        key = bytearray(len(calls[0][0]) + len(calls[1][0]))
        key[0::2], key[1::2] = calls[0][0], calls[1][0]
        key = bytes(key)
        why = decode_key(st, key, exp)
        rep.stat('keys_decoded')
        if j < len(expect) - 1:
            rep.stat('prefix_keys_decoded')
        if why and why.startswith('tolerated:'):
            rep.stat(why)
            tolerated = True
        elif why:
            rep.bad('key-decode:' + why, 'hashed key %r does not decode back to the input %r '
                    '(variant %s, Verifier() call #%d)' % (key, exp, kind, j), seed)
    return key, (calls[0][1], calls[1][1]), name, tolerated


def observe_unsupported(st, rep, inp, seed, cache):
    """a keyword value of a kind flatten() does not list: rejected with TypeError, or accepted
    (then the un-monitored runs compare the name across hash seeds); never judged here"""
    u = inp['unsup']
    try:
        module_name(st, inp, cache)
        rep.stat('unsupported_value_accepted:' + u)
    except FlattenContractError:
        rep.stat('unsupported_value_accepted:' + u)
    except TypeError:
        rep.stat('unsupported_value_rejected:' + u)
    rep.case(('unsup', repr(inp['kwds']), repr(inp['cdefs'])), nontrivial=True)


def mon_seed(st, rep, seed, rows, seen):
    base, cache = None, {}
    for kind, inp in make_inputs(seed):
        if inp is None:
            rep.stat('neighbour_not_applicable')
            continue
        if inp.get('unsup'):
            observe_unsupported(st, rep, inp, seed, cache)
            continue
        o = observe(st, rep, inp, seed, kind, cache)
        if o is None:
            continue
        key, crcs, name, tolerated = o
        if tolerated:               # text of a failing cdef() in the key: a different, allowed key
            continue
        idn = ident(inp)
        rep.case((idn, inp['tag'], inp['generic']), nontrivial=bool(inp['kwds'] or inp['cdefs']),
                 sample={'input': repr(inp)[:300], 'name': name, 'key': repr(key)[:200]})
        if kind == 'base':      # the parent relates base inputs across the whole run
            if any((isinstance(v, str) and len(v) >= 100) or (is_list(v) and len(v) >= 10)
                   for _, v in nodes(inp['kwds'])):
                rep.stat('base_inputs_with_long_string_or_list')
            rows.append([seed, digest(idn), hashlib.md5(key).hexdigest()[:16], name, crcs[0],
                         crcs[1], inp['tag'], inp['generic']])
        other = seen.setdefault(key, idn)
        if other != idn:
            rep.bad('key-collision:unrelated', 'inputs %s and %s share the key %r' %
                    (other[:300], idn[:300], key), seed)
        if base is None:
            base = (idn, key, name, inp)
            continue
        bidn, bkey, bname, binp = base
        for opt in (inp.get('how') or {}).values():
            rep.stat('cdef_entry:' + opt)
        if inp.get('failed'):
            rep.stat('failing_cdef_calls', len(inp['failed']))
        same_rest = (inp['tag'], inp['generic']) == (binp['tag'], binp['generic'])
        what = '%r vs %r' % (binp, inp)
        if idn == bidn:
            rep.stat('pairs_equivalent:' + kind)
            if key != bkey:
                rep.bad('equivalent-inputs-different-key:' + kind, 'keys %r / %r for %s' %
                        (bkey, key, what), seed)
            elif same_rest and name != bname:
                rep.bad('equivalent-inputs-different-name:' + kind, 'names %s / %s for %s' %
                        (bname, name, what), seed)
            elif not same_rest and name == bname:
                rep.bad('name-ignores:' + kind, 'name %s for both of %s' % (name, what), seed)
        else:
            rep.stat('pairs_distinct:' + kind)
            if key == bkey:
                rep.bad('key-collision:' + kind, 'distinct inputs share the key %r: %s' %
                        (key, what), seed)
            elif name == bname:
                rep.stat('pairs_distinct_same_name')


def flatten_only(st, rep, seed, n):
    """flatten() alone (contract attached) on random nested values"""
    rnd = random.Random(seed ^ 0x5bd1e995)
    seen, P = {}, st['P']
    for _ in range(n):
        x = rand_value(rnd, 3)
        y = respell(rnd, x, rnd.choice(EQUIV[1:]))
        try:
            sx, sy = P.flatten(x), P.flatten(y)
        except FlattenContractError as e:
            rep.bad('flatten-not-invertible', 'flatten(%r): %s' % (x, str(e)[:300]), seed)
            continue
        nx = repr(norm(x))
        rep.case(('flat', nx), nontrivial=not isinstance(x, (str, int)))
        rep.stat('flatten_only_calls', 2)
        if seen.setdefault(sx, nx) != nx:
            rep.bad('flatten-collision', 'flatten() = %r for both %s and %s' % (sx, seen[sx], nx),
                    seed)
        if sx != sy:
            rep.bad('flatten-not-canonical', 'equivalent spellings %r / %r flatten differently'
                    % (x, y), seed)


def nul_probe(st):
    """documents that the NUL-free assumption is load-bearing (not judged)"""
    a = {'pre': 'p', 'cdefs': ['int fa(int); //a\x00int fb(int); //b'], 'kwds': {}, 'tag': '',
         'generic': False}
    b = dict(a, cdefs=['int fa(int); //a', 'int fb(int); //b'])
    try:
        return {'probe': [module_name(st, a), module_name(st, b)]}
    except Exception as e:
        return {'probe': 'rejected: %s' % type(e).__name__}


def name_probe(st, rep, case):
    """the name as a function of (crc1, crc2, tag, engine): the CRC proxy returns chosen values"""
    from cffi.verifier import Verifier
    rnd = random.Random(case['seed'])
    vals = list(PROBE_CRCS)
    for _ in range(case['nrand']):
        vals.append(int(''.join(rnd.choice('00123abf') for _ in range(rnd.randint(1, 8))), 16))
    vals += [rnd.getrandbits(32) for _ in range(3)]
    vals = sorted(set(vals))
    rec, seen = st['rec'], {}
    ffi = build_ffi(['int f(int);'])
    inp = {'pre': 'p', 'cdefs': [], 'kwds': {}}
    for tag in PROBE_TAGS:
        for generic in (False, True):
            for via in ('Verifier', 'ffi.verify') if tag in ('', 't') else ('Verifier',):
                for c1 in vals:
                    for c2 in vals:
                        rec.force[:] = [c1, c2]
                        name = verifier_name(st, ffi, dict(inp, tag=tag, generic=generic, via=via))
                        if rec.force:
                            raise HarnessError('crc32 was not called twice')
                        t = (c1, c2, tag, generic)
                        rep.stat('name_probe_names')
                        rep.case(('probe', t), nontrivial=True)
                        if seen.setdefault(name, t) != t:
                            rep.bad('name-collision:without-crc-collision', 'name %s for (crc1, crc2, '
                                    'tag, generic engine) = %r and %r' % (name, seen[name], t), None)
    del rec.calls[:]
    rep.stat('name_probe_crc_values', len(vals))


def child_case(st, case):
    import traceback
    if case['mode'] == 'nulprobe':
        return nul_probe(st)
    rep = core.ChildRep()
    rows = []
    if case['mode'] == 'nameprobe':
        try:
            name_probe(st, rep, case)
        except Exception:
            rep.bad('harness-exception', traceback.format_exc()[-900:], None)
    elif case['mode'] == 'mon':
        seen = {}
        e0 = EVALS['n']
        for seed in case['seeds']:
            try:
                mon_seed(st, rep, seed, rows, seen)
                flatten_only(st, rep, seed, case.get('nflat', 0))
            except Exception:
                rep.bad('harness-exception', traceback.format_exc()[-900:], seed)
        rep.stat('flatten_contract_evals:' + st['contract'], EVALS['n'] - e0)
    else:                       # 'plain': un-monitored names, twice
        for seed in case['seeds']:
            try:
                cache = {}
                for idx, (kind, inp) in enumerate(make_inputs(seed)):
                    if inp is None:
                        continue
                    try:
                        name = module_name(st, inp, cache)
                    except TypeError:
                        if not inp.get('unsup'):
                            raise
                        name = 'TypeError'
                        rep.stat('unmonitored_unsupported_value_rejected')
                    if idx == 0 and module_name(st, copy.deepcopy(inp)) != name:
                        rep.bad('name-differs-on-repeat', 'two evaluations of %r in one process'
                                % (inp,), seed)
                    rep.case(('plain', seed, idx), sample={'input': repr(inp)[:300], 'name': name})
                    rep.stat('unmonitored_names')
                    rows.append([seed, idx, digest(repr(inp)), name])
            except Exception:
                rep.bad('harness-exception', traceback.format_exc()[-900:], seed)
    res = rep.result()
    res['rows'] = rows
    return res


# ---------------------------------------------------------------- parent
def judge(ctx, setup, case, obs):
    core.absorb(ctx, case, obs, lambda seed: case if seed is None else dict(case, seeds=[seed]))


def _run(ctx, setup, cases, hashseed, nproc=None):
    obs = core.run_cases(ctx, 'c32', setup, cases, variant=VARIANT, nproc=nproc, timeout=TIMEOUT,
                         extra_env={'PYTHONHASHSEED': str(hashseed)})
    good = []
    for c, o in zip(cases, obs):
        if core.std_obs_check(ctx, c, o):
            good.append((c, o))
    return good


def monitored(ctx, cases):
    """phase A: keys decode, pair relations (child) + global relations (here)"""
    by_key, by_ident, by_name, names, base_names = {}, {}, {}, {}, {}
    for c, o in _run(ctx, {'monitor': True}, cases, 0):
        if c['mode'] == 'nulprobe':
            p = o.get('probe')
            ctx.count('nul_probe_runs')
            if isinstance(p, list) and p[0] == p[1]:
                ctx.count('nul_probe_same_name_for_distinct_cdef_lists')
                ctx.violation('key-collision:nul-in-cdef-comment',
                              "cdef lists ['int fa(int); //a\\0int fb(int); //b'] and ['int fa(int); "
                              "//a', 'int fb(int); //b'] are distinct inputs with one hashed key "
                              "and module name %s" % p[0], c)
                ctx.note("outside the NUL-free assumption: cdef lists ['int fa(int); //a\\0int "
                         "fb(int); //b'] and ['int fa(int); //a', 'int fb(int); //b'] both parse "
                         "and get the same module name %s" % p[0])
            continue
        judge(ctx, None, c, o)
        for seed, idd, keyd, name, c1, c2, tag, generic in o['rows']:
            base_names[seed] = name
            if by_key.setdefault(keyd, idd) != idd:
                ctx.violation('key-collision:unrelated', 'two distinct inputs of the run share '
                              'one key (digests %s / %s)' % (by_key[keyd], idd), c)
            if by_ident.setdefault(idd, keyd) != keyd:
                ctx.violation('equivalent-inputs-different-key:unrelated', 'one normalised input '
                              'got two keys (digest %s)' % idd, c)
            t = (c1, c2, tag, generic)
            if by_name.setdefault(name, t) != t:
                ctx.violation('name-collision:without-crc-collision', 'name %s for CRC pairs/tag/'
                              'engine %r and %r' % (name, by_name[name], t), c)
            elif names.setdefault(name, keyd) != keyd:
                ctx.count('crc32_collisions_observed')
    ctx.count('distinct_keys', len(by_key))
    ctx.count('distinct_names', len(by_name))
    return base_names


def determinism(ctx, seeds, hashseeds, mon_names=None, per=25):
    """phase B: un-monitored fresh processes, one run per entry of hashseeds;
    run 0 is the reference (hash seed 0, as the monitored run)"""
    cases = [{'mode': 'plain', 'seeds': seeds[i:i + per]} for i in range(0, len(seeds), per)]
    ctx.tmp
    with cf.ThreadPoolExecutor(max_workers=len(hashseeds)) as ex:
        futs = [ex.submit(_run, ctx, {'monitor': False}, cases, h, 3) for h in hashseeds]
        runs = [fu.result() for fu in futs]
    tables = []
    for k, run in enumerate(runs):
        tab = {}
        for c, o in run:
            judge(ctx, None, c, o)
            for seed, idx, dg, name in o['rows']:
                tab[(seed, idx)] = (dg, name)
        tables.append(tab)
        ctx.count('determinism_processes', len(run))
    ref = tables[0]
    for seed, name in (mon_names or {}).items():
        if (seed, 0) in ref:
            ctx.count('names_compared_monitored_vs_unmonitored')
            if ref[(seed, 0)][1] != name:
                ctx.inconclusive('harness: the monitors change the module name (seed %d)' % seed)
    for k in range(1, len(tables)):
        h = hashseeds[k]
        for sk, (dg, name) in tables[k].items():
            if sk not in ref:
                continue
            if ref[sk][0] != dg:
                ctx.inconclusive('harness: generator is not a pure function of the seed')
                return ref
            ctx.count('names_compared_across_processes')
            if str(h) != str(hashseeds[0]):
                ctx.count('names_compared_across_hash_seeds')
            if ref[sk][1] != name:
                mech = 'name-differs-across-processes' if str(h) == str(hashseeds[0]) else \
                    'name-differs-across-hash-seeds'
                ctx.violation(mech, 'input #%d of seed %d: %s under PYTHONHASHSEED=%s, %s under '
                              'PYTHONHASHSEED=%s' % (sk[1], sk[0], ref[sk][1], hashseeds[0], name, h),
                              {'mode': 'det', 'seeds': [sk[0]], 'hashseeds': [hashseeds[0], h]})
    return ref


def run(ctx):
    rng = ctx.rng('gen')
    n, per = ctx.scale(1500, 100000), 50
    seeds = [rng.getrandbits(48) for _ in range(n)]
    cases = [{'mode': 'mon', 'seeds': seeds[i:i + per], 'nflat': 12} for i in range(0, n, per)]
    cases.append({'mode': 'nulprobe'})
    cases.append({'mode': 'nameprobe', 'seed': rng.getrandbits(32), 'nrand': ctx.scale(8, 40)})
    mon_names = monitored(ctx, cases)
    dn = ctx.scale(150, 3000)
    hs = [0, 0, 1] + [rng.getrandbits(32) for _ in range(3)]
    ctx.extra['hash_seeds'] = hs
    determinism(ctx, seeds[:dn], hs, mon_names)


def replay(ctx, data):
    case = data['case']
    if case.get('mode') == 'det':
        determinism(ctx, case['seeds'], case['hashseeds'])
    elif case.get('mode') == 'plain':
        determinism(ctx, case['seeds'], [0, 0])
    else:
        monitored(ctx, [case])
