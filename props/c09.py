"""C09 -- integer constant expressions in cdef evaluate as C evaluates them.

Differential oracle: gcc prints, for every generated expression *in its
context* (array length -> sizeof, bitfield width -> bits set by an all-ones
store, enumerator, #define, static const), the value it computes.  A small
C-typing evaluator (LP64: literal typing by value/base/suffix, usual
arithmetic conversions, two's complement) only discards expressions whose C
evaluation is undefined and keeps values in the range of the context; if it
disagrees with gcc the run is inconclusive.  cffi's value is read in-line,
from an emitted out-of-line ABI module, from a compiled API module and (a few
chunks) from an ffi.verify() module of either engine.

Input classes beyond a single self-contained expression: named constants
('#define' and enumerators declared before the expression -- in the same
cdef(), in an earlier cdef() call or in an ffi.include()d FFI) used as leaves;
enums with several enumerators (implicit first / consecutive implicit values,
enumerators referring to earlier ones); named, typedef'd and anonymous enums;
binary literals; array lengths of typedefs and of two-dimensional fields; C operators that cparser does not
list (~ ! comparisons && || ?: casts: if cffi accepts one, the value must be
C's); the out-of-line type-string parser (ffi.typeof('char[<literal or named
constant>]') on the emitted / compiled module).
"""
import os, re, sys, subprocess
from vlib import core, cc

RULE = ("case = (context, expression text[, declared type]); contexts: array length of a struct "
        "field, bitfield width, enumerator value (1/4 with an implicit next enumerator), "
        "'#define N <literal|-literal>' (+ a few non-literal forms, expected to be rejected), "
        "'static const <integer type> N = <literal|-literal>'; expressions = random trees of depth "
        "<= 4 (plus extra unary minus on / % >> operands) over decimal/octal/hex literals (values 0..2**64-1 around the 2**7..2**64 "
        "boundaries, all u/l/ul/ll/ull suffix spellings), character constants (printable and "
        "simple escapes), unary + -, binary + - * / % << >> & | ^, with and without redundant "
        "parentheses (+ up to two '(t & m) + 1' levels steering array lengths / widths into range); "
        "C-undefined expressions discarded by the evaluator; distinct = (context, "
        "text (of the prelude and of the expression, item numbers in names removed), type, form, "
        "history); non-trivial = has an operator, or a literal that is not plain decimal. "
        "Extensions: binary literals (0b...); ~30% of the tree contexts get a prelude of 1-3 named "
        "constants ('#define R <-?literal>' / enumerators with explicit or implicit values, int "
        "range) that the expression uses as leaves, declared in the same cdef, in an earlier "
        "cdef() call or in an included FFI (out-of-line: an included base module); context "
        "'menum' = one enum with 2-5 enumerators, explicit (possibly referring to earlier "
        "enumerators) or implicit (also first / consecutive); array lengths also as 'typedef "
        "char t[E]' and as either dimension of 'char a[E][k]'; the single-expression enum also as "
        "'typedef enum {...} t' and as an anonymous enum; ~6% 'other forms' with ~ ! < > <= "
        ">= == != && || ?: and casts (judged only when cffi accepts them); '#define' lines with "
        "leading blanks, '# define', trailing comments, a continuation line; 'static const' "
        "qualifier orders; out-of-line type strings 'char[<expr>]' and 'char[<NAME>]' (judged "
        "only when the C type parser accepts them)")
ASSUMPTIONS = ["gcc -std=gnu11 on x86-64 (LP64) is the C compiler of the statement; enumerator "
               "values outside int and arithmetic >> of negative values follow gcc",
               "expressions whose untyped (unbounded-integer) reading contains a shift by more "
               "than 4096 are not sent to cffi (it would allocate without bound); counted",
               "static const initialisers are only generated inside the range of the declared "
               "type (the conversion to that type is not part of the expression)",
               "the API module is compiled by gcc -O0 directly from ffi.emit_c_code() output",
               "the ffi.verify() mode is exercised on 2 chunks (thorough: every 10th), one engine "
               "each, the other modes on every chunk",
               "enumerators used as operands are only generated with values inside int (their C "
               "type is then int); casts to signed types wrap modulo 2**N as gcc does",
               "binary literals (0b...) are the gcc extension, typed like octal/hex literals"]
VARIANT = 'plain'

I32, U32, I64, U64 = (32, True), (32, False), (64, True), (64, False)
SUFFIXES = [['u', 'U'], ['l', 'L'], ['ll', 'LL'], ['ul', 'uL', 'Ul', 'UL', 'lu', 'lU', 'Lu', 'LU'],
            ['ull', 'uLL', 'Ull', 'ULL', 'llu', 'llU', 'LLu', 'LLU']]
ESCAPES = {'n': 10, 't': 9, 'r': 13, 'a': 7, 'b': 8, 'f': 12, 'v': 11, '\\': 92, "'": 39,
           '"': 34, '?': 63, '0': 0, '1': 1, '2': 2, '3': 3, '4': 4, '5': 5, '6': 6, '7': 7}
BINOPS = ['+', '-', '*', '/', '%', '<<', '>>', '&', '|', '^']
CMPOPS = ['<', '>', '<=', '>=', '==', '!=']
LOGOPS = ['&&', '||']
PREC = {'*': 20, '/': 20, '%': 20, '+': 19, '-': 19, '<<': 18, '>>': 18, '<': 17, '>': 17,
        '<=': 17, '>=': 17, '==': 16, '!=': 16, '&': 15, '^': 14, '|': 13, '&&': 12, '||': 11}
OPNAME = {'+': 'add', '-': 'sub', '*': 'mul', '/': 'div', '%': 'mod', '<<': 'shl', '>>': 'shr',
          '&': 'and', '|': 'or', '^': 'xor', '<': 'ext_lt', '>': 'ext_gt', '<=': 'ext_le',
          '>=': 'ext_ge', '==': 'ext_eq', '!=': 'ext_ne', '&&': 'ext_land', '||': 'ext_lor'}
CAST_TYPES = [('int', 32, True), ('unsigned', 32, False), ('unsigned int', 32, False),
              ('long', 64, True), ('unsigned long', 64, False), ('long long', 64, True),
              ('unsigned long long', 64, False), ('short', 16, True), ('unsigned short', 16, False),
              ('signed char', 8, True), ('unsigned char', 8, False)]
TREE_KINDS = ('array', 'bitfield', 'enum', 'menum')
READING = {(True, False): 'G', (False, False): 'U', (True, True): 'Ge', (False, True): 'Ue'}
BF_TYPES = [('unsigned char', 8), ('signed char', 8), ('unsigned short', 16), ('short', 16),
            ('int', 32), ('unsigned int', 32), ('long', 64), ('unsigned long', 64),
            ('long long', 64), ('unsigned long long', 64)]
SC_TYPES = [('signed char', 8, True), ('unsigned char', 8, False), ('short', 16, True),
            ('unsigned short', 16, False), ('int', 32, True), ('unsigned', 32, False),
            ('unsigned int', 32, False), ('long', 64, True), ('unsigned long', 64, False),
            ('long long', 64, True), ('unsigned long long', 64, False), ('int8_t', 8, True),
            ('uint8_t', 8, False), ('int16_t', 16, True), ('uint16_t', 16, False),
            ('int32_t', 32, True), ('uint32_t', 32, False), ('int64_t', 64, True),
            ('uint64_t', 64, False), ('size_t', 64, False), ('ssize_t', 64, True),
            ('intptr_t', 64, True), ('uintptr_t', 64, False)]
MAX_ARRAY = 1 << 62
HUGE_SHIFT = 4096


# ---------------------------------------------------------------------------
# the C-typing evaluator (and its untyped, unbounded-integer counterpart)

class Undef(Exception):
    """the evaluation is undefined (C: UB; untyped: division by zero, negative shift)"""


class Huge(Exception):
    """untyped reading shifts by more than HUGE_SHIFT"""


def lit_type(v, base, suf):
    s = suf.lower()
    if 'u' in s:
        cands = [U64] if 'l' in s else [U32, U64]
    elif 'l' in s:
        cands = [I64] if base == 'd' else [I64, U64]
    else:
        cands = [I32, I64] if base == 'd' else [I32, U32, I64, U64]
    for t in cands:
        if fits(v, t):
            return t
    return None


def fits(v, t):
    bits, signed = t
    return -(1 << (bits - 1)) <= v < (1 << (bits - 1)) if signed else 0 <= v < (1 << bits)


def common(a, b):
    if a[1] == b[1]:
        return a if a[0] >= b[0] else b
    u, s = (a, b) if not a[1] else (b, a)
    return u if u[0] >= s[0] else s


def conv(v, t):
    return v if t[1] else v & ((1 << t[0]) - 1)


def tdiv(a, b):
    q = abs(a) // abs(b)
    return q if (a < 0) == (b < 0) else -q


def ev(n, typed, esclit, info):
    """-> (value, type).  typed=False: unbounded Python ints (type None).
    esclit=True: an escape '\\c' is read as the code of the letter c."""
    v, t = _ev(n, typed, esclit, info)
    if typed and not t[1]:
        info['unsigned_typed_node'] = True
    return v, t


def _ev(n, typed, esclit, info):
    k = n[0]
    if k == 'L':
        return n[2], (lit_type(n[2], n[3], n[4]) if typed else None)
    if k == 'C':
        return (n[3] if esclit else n[2]), (I32 if typed else None)
    if k == 'R':
        # a named constant: the four readings of its own definition were computed when it
        # was generated; an enumerator has type int (only generated inside int)
        c = n[2]
        v = c[READING[typed, esclit]]
        if v is None:
            raise Undef('the named constant is undefined in this reading')
        if typed and c['uns']:
            info['unsigned_typed_node'] = True
        if not typed:
            return v, None
        if c['kind'] == 'enumerator':
            if not fits(v, I32):
                raise Undef('enumerator outside int (not generated)')
            return v, I32
        return v, tuple(c['t'])
    if k == 'K':
        # (type)x: modulo 2**bits (gcc for signed targets), then the integer promotions
        v, t = ev(n[2], typed, esclit, info)
        bits, signed = n[3], n[4]
        v &= (1 << bits) - 1
        if signed and v >= 1 << (bits - 1):
            v -= 1 << bits
        return v, (((bits, signed) if bits >= 32 else I32) if typed else None)
    if k == 'T':
        c, tc = ev(n[2], typed, esclit, info)
        a, ta = ev(n[3], typed, esclit, info)
        b, tb = ev(n[4], typed, esclit, info)
        t = common(ta, tb) if typed else None
        r = a if c else b
        return (conv(r, t) if typed else r), t
    if k == 'U':
        v, t = ev(n[2], typed, esclit, info)
        if n[1] == '-':
            v = -v
            if typed:
                if t[1] and not fits(v, t):
                    raise Undef('negation overflows')
                v = conv(v, t)
        elif n[1] == '~':
            v = ~v
            if typed:
                v = conv(v, t)
        elif n[1] == '!':
            v, t = int(v == 0), (I32 if typed else None)
        return v, t
    op = n[1]
    a, ta = ev(n[2], typed, esclit, info)
    b, tb = ev(n[3], typed, esclit, info)
    if op in LOGOPS:
        return int(bool(a) and bool(b) if op == '&&' else bool(a) or bool(b)), \
            (I32 if typed else None)
    if op in CMPOPS:
        if typed:
            t = common(ta, tb)
            a, b = conv(a, t), conv(b, t)
        return int({'<': a < b, '>': a > b, '<=': a <= b, '>=': a >= b, '==': a == b,
                    '!=': a != b}[op]), (I32 if typed else None)
    if op in ('<<', '>>'):
        t = ta
        if b < 0 or (typed and b >= t[0]):
            raise Undef('shift count')
        if not typed and b > HUGE_SHIFT:
            raise Huge()
        if op == '>>':
            if typed and a < 0:
                info['shr_negative_impl_defined'] = True
            r = a >> b
        else:
            if typed and t[1] and a < 0:
                raise Undef('left shift of a negative value')
            r = a << b
    else:
        t = common(ta, tb) if typed else None
        if typed:
            a, b = conv(a, t), conv(b, t)
        if op in ('/', '%'):
            if b == 0:
                raise Undef('division by zero')
            q = tdiv(a, b)
            if typed and not fits(q, t):
                raise Undef('INT_MIN / -1')
            if typed and q != a // b:
                info['division_where_floor_differs'] = True
            r = q if op == '/' else a - q * b
        else:
            r = {'+': a + b, '-': a - b, '*': a * b, '&': a & b, '|': a | b, '^': a ^ b}[op]
    if typed:
        if t[1] and not fits(r, t):
            raise Undef('signed overflow')
        r = conv(r, t)
    return r, t


def children(n):
    k = n[0]
    return [] if k in 'LCR' else [n[2]] if k in 'UK' else n[2:4] if k == 'B' else n[2:5]


def models(tree):
    """-> (G, type, U, Ge, Ue, info); G raises Undef when C leaves it undefined;
    the other three are None where that reading is undefined."""
    info = {}
    G, t = ev(tree, True, False, info)
    out = []
    for typed, esclit in ((False, False), (True, True), (False, True)):
        try:
            out.append(ev(tree, typed, esclit, {})[0])
        except Undef:
            out.append(None)
    return G, t, out[0], out[1], out[2], info


# ---------------------------------------------------------------------------
# generator

def gen_lit(rng, small=False, bases='dddoxxb'):
    while True:
        r = rng.random()
        if small or r < .55:
            v = rng.randrange(0, 70)
        elif r < .8:
            v = (1 << rng.choice([7, 8, 15, 16, 31, 32, 63, 64])) + rng.choice([-2, -1, 0, 1])
        else:
            v = rng.getrandbits(rng.choice([8, 16, 31, 32, 33, 48, 63, 64]))
        base = rng.choice(bases)
        suf = '' if rng.random() < .55 else rng.choice(rng.choice(SUFFIXES))
        if not 0 <= v < (1 << 64) or lit_type(v, base, suf) is None:
            continue
        if base == 'd':
            text = str(v)
        elif base == 'o':
            text = '0' * rng.choice([1, 1, 1, 2]) + ('%o' % v if v else '')
        elif base == 'b':
            text = rng.choice(['0b', '0B']) + '0' * rng.choice([0, 0, 1, 2]) + bin(v)[2:]
        else:
            text = rng.choice(['0x', '0X']) + '0' * rng.choice([0, 0, 0, 1, 3]) + ''.join(
                rng.choice([c, c.upper()]) for c in '%x' % v)
        return ['L', text + suf, v, base, suf]


def gen_chr(rng):
    if rng.random() < .5:
        c = rng.choice(sorted(ESCAPES))
        return ['C', "'\\%s'" % c, ESCAPES[c], ord(c)]
    c = rng.choice([chr(x) for x in range(32, 127) if chr(x) not in "'\\"])
    return ['C', "'%s'" % c, ord(c), ord(c)]


def gen_leaf(rng, small=False, env=None):
    if env and env['refs'] and rng.random() < .4:
        return rng.choice(env['refs'])
    return gen_chr(rng) if rng.random() < .09 else gen_lit(rng, small)


def gen_ext(rng, depth, small, env):
    """a node with an operator that cparser._parse_constant does not list"""
    r = rng.random()
    sub = lambda: gen_tree(rng, rng.randrange(0, depth), small, env)
    if r < .25:
        return ['U', rng.choice('~~!'), sub()]
    if r < .55:
        return ['B', rng.choice(CMPOPS), sub(), sub()]
    if r < .7:
        return ['B', rng.choice(LOGOPS), sub(), sub()]
    if r < .82:
        return ['T', '?:', sub(), sub(), sub()]
    ty, bits, signed = rng.choice(CAST_TYPES)
    return ['K', ty, sub(), bits, signed]


def gen_tree(rng, depth, small=False, env=None):
    """a tree whose C evaluation is defined (undefined nodes are re-drawn locally)"""
    if depth <= 0 or rng.random() < .2:
        return gen_leaf(rng, small, env)
    if env and env['ext'] and rng.random() < .4:
        n = gen_ext(rng, depth, small, env)
        if defined(n):
            return n
    if rng.random() < .15:
        sub = gen_tree(rng, depth - 1, small, env)
        for op in rng.sample(['-', '+', '-'], 2):
            n = ['U', op, sub]
            if defined(n):
                return n
        return sub
    left = gen_tree(rng, depth - 1, small, env)
    for _ in range(6):
        op = rng.choice(BINOPS)
        sm = small or (op in ('<<', '>>') and rng.random() < .85)
        right = gen_tree(rng, rng.randrange(0, depth), sm, env)
        lt = left
        if op in ('/', '%', '>>') and rng.random() < .4:      # negative operands: truncation, sign of %
            lt, right = [x if rng.random() < .4 else ['U', '-', x] for x in (left, right)]
        n = ['B', op, lt, right]
        if defined(n):
            return n
    return left


def defined(n):
    try:
        ev(n, True, False, {})
        return True
    except Undef:
        return False


def render(n, rng):
    k = n[0]
    if k in 'LCR':
        return n[1]
    if k in 'UK':
        s = render(n[2], rng)
        s = s if n[2][0] in 'LCR' and rng.random() < .7 else '(%s)' % s
        return (n[1] if k == 'U' else '(%s)' % n[1] + rng.choice(['', ' '])) + s
    if k == 'T':
        parts = [render(c, rng) for c in n[2:5]]
        parts = [s if c[0] in 'LCR' or (c[0] in 'UB' and rng.random() < .4) else '(%s)' % s
                 for s, c in zip(parts, n[2:5])]
        return '%s ? %s : %s' % tuple(parts)
    parts = []
    for side, c in ((0, n[2]), (1, n[3])):
        s = render(c, rng)
        need = c[0] in 'UKT' or (c[0] == 'B' and (PREC[c[1]] < PREC[n[1]] or
                                                  (side == 1 and PREC[c[1]] == PREC[n[1]])))
        if need or (c[0] == 'B' and rng.random() < .4):
            s = '(%s)' % s
        parts.append(s)
    sp = rng.choice(['', ' ', ' '])
    if sp == '' and (parts[1][0] in '+-&' or (n[1] in '+-' and parts[0][-1] in 'eEpP')):
        sp = ' '        # 'a--b' is not 'a - -b'; '0xE+1' is one (invalid) pp-number
    return parts[0] + sp + n[1] + sp + parts[1]


def tags_of(n, out):
    k = n[0]
    if k == 'L':
        out.add('lit_' + {'d': 'dec', 'o': 'oct', 'x': 'hex', 'b': 'bin'}[n[3]])
        s = n[4].lower()
        if s:
            out.add('suffix_' + ''.join(sorted(set(s))))
        if n[3] == 'o' and n[2] >= 8:
            out.add('lit_oct_ge_8')
    elif k == 'C':
        out.add('chr_escape' if n[1][1] == '\\' else 'chr_plain')
        if n[2] != n[3]:
            out.add('chr_escape_letter_differs')
    elif k == 'R':
        out.add('ref_' + n[2]['kind'])
        if n[2]['G'] < 0:
            out.add('ref_negative_value')
        if 'chr_escape' in n[2]['tags']:
            out.add('chr_escape')
    elif k == 'K':
        out.add('ext_cast')
        tags_of(n[2], out)
    elif k == 'T':
        out.add('ext_ternary')
        for c in n[2:5]:
            tags_of(c, out)
    elif k == 'U':
        out.add({'-': 'op_unary_minus', '+': 'op_unary_plus', '~': 'ext_bitnot',
                 '!': 'ext_lognot'}[n[1]])
        tags_of(n[2], out)
    else:
        out.add((n[1] in BINOPS and 'op_' or '') + OPNAME[n[1]])
        tags_of(n[2], out)
        tags_of(n[3], out)
    return out


def depth_of(n):
    cs = children(n)
    return 1 + max(depth_of(c) for c in cs) if cs else 0


def nontrivial(tree):
    return depth_of(tree) > 0 or tree[0] in 'CR' or tree[3] != 'd' or bool(tree[4])


def wrap_into(rng, tree, kind):
    """expression forms that steer the value into the context's range"""
    if kind == 'bitfield':
        return rng.choice([['B', '+', ['B', '&', tree, gen_lit_of(63)], gen_lit_of(1)],
                           ['B', '|', ['B', '&', tree, gen_lit_of(rng.choice([7, 31, 62]))],
                            gen_lit_of(1)]])
    if kind == 'int':
        return ['B', '-', ['B', '&', tree, gen_lit_of(rng.choice([0xff, 0xffff, 0x7fffffff]))],
                gen_lit_of(rng.choice([0, 1, 300, 70000]))]
    m = rng.choice([63, 0xff, 0xffff, 0x7ffffffe, 0xfffffffffff])
    return ['B', '+', ['B', '&', tree, gen_lit_of(m)], gen_lit_of(1)]


def gen_lit_of(v):
    return ['L', str(v), v, 'd', '']


def in_range(kind, G):
    if kind == 'array':
        return 1 <= G <= MAX_ARRAY
    if kind == 'bitfield':
        return 1 <= G <= 64
    return True


def const_of(kind, name, expr, tree, m):
    """the record of a named constant (also the payload of an 'R' leaf)"""
    G, t, U, Ge, Ue, info = m
    return {'kind': kind, 'name': name, 'expr': expr, 'G': G, 't': list(t), 'U': U, 'Ge': Ge,
            'Ue': Ue, 'uns': 'unsigned_typed_node' in info,
            'tags': sorted(tags_of(tree, set()) | set(info))}


def gen_enumerators(rng, names, refs, first_implicit=.35):
    """-> (text of the enumerator list, [constant records]) or None / 'huge'; appends an 'R'
    leaf per enumerator to refs (so that later ones may use earlier ones); all values inside
    int, implicit ones = previous + 1 (the first one 0)"""
    out, texts, prev = [], [], None
    for j, name in enumerate(names):
        explicit = rng.random() >= (first_implicit if j == 0 else .45)
        for attempt in range(60):
            if explicit:
                tree = gen_tree(rng, rng.choice([0, 0, 1, 1, 2, 3]), rng.random() < .5,
                                {'refs': refs, 'ext': False})
            else:
                tree = gen_lit_of(0) if prev is None else ['B', '+', prev, gen_lit_of(1)]
            try:
                m = models(tree)
                if not fits(m[0], I32) and explicit and attempt % 2:
                    tree = wrap_into(rng, tree, 'int')
                    m = models(tree)
            except Undef:
                if not explicit:
                    explicit = True         # INT_MAX + 1
                continue
            except Huge:
                return 'huge'
            if fits(m[0], I32):
                break
            explicit = True
        else:
            return None
        expr = render(tree, rng) if explicit else None
        c = const_of('enumerator', name, expr, tree, m)
        c['implicit'] = not explicit
        if not explicit:
            c['tags'] = sorted(set(c['tags']) - {'op_add', 'lit_dec', 'ref_enumerator',
                                                  'ref_negative_value'} |
                               {'enumerator_implicit', 'enumerator_implicit_first' if prev is None
                                else 'enumerator_implicit_after_' +
                                ('implicit' if out[-1]['implicit'] else 'explicit')})
        out.append(c)
        texts.append(name if expr is None else '%s%s=%s%s' % (name, rng.choice(['', ' ']),
                                                             rng.choice(['', ' ']), expr))
        prev = ['R', name, c]
        refs.append(prev)
    return ', '.join(texts) + rng.choice(['', '', ',']), out


def gen_prelude(rng, i):
    """1-3 named constants declared before the item's own declaration"""
    text, consts, refs = '', [], []
    for j in range(rng.choice([1, 1, 2, 3])):
        tag = '%d%s' % (i, 'abc'[j])
        if rng.random() < .5:
            for attempt in range(20):
                lit = gen_lit(rng, rng.random() < .5, 'dddoxx')
                tree = lit if rng.random() < .65 else ['U', '-', lit]
                try:
                    m = models(tree)
                    break
                except Undef:
                    continue
            else:
                return None
            expr = ('-' if tree[0] == 'U' else '') + lit[1]
            c = const_of('define', 'R' + tag, expr, tree, m)
            text += '#define R%s %s\n' % (tag, expr)
            consts.append(c)
            refs.append(['R', c['name'], c])
        else:
            names = ['R%s%d' % (tag, k) for k in range(rng.choice([1, 2, 2, 3]))]
            r = gen_enumerators(rng, names, refs)
            if r is None or r == 'huge':
                return r
            text += 'enum r%s { %s };\n' % (tag, r[0])
            consts.extend(r[1])
    return {'text': text, 'consts': consts, 'refs': refs}


DEFINE_TAILS = ['', '', '', ' ', '\t', ' /* v */', '  // v', '/**/']


def gen_item(rng, i, kind):
    ext = kind in TREE_KINDS and kind != 'menum' and rng.random() < .08
    with_pre = kind in TREE_KINDS and rng.random() < .3
    for attempt in range(200):
        note = None
        pre = None
        if with_pre:
            pre = gen_prelude(rng, i)
            if pre == 'huge':
                return pre
            if pre is None:
                continue
        env = {'refs': list(pre['refs']) if pre else [], 'ext': ext}
        if kind == 'menum':
            names = ['M%d_%d' % (i, j) for j in range(rng.choice([2, 3, 3, 4, 5]))]
            r = gen_enumerators(rng, names, env['refs'])
            if r is None or r == 'huge':
                return r
            tags = set()
            for c in r[1]:
                tags.update(c['tags'])
            if pre and not any(tg.startswith('ref_') for tg in tags) and attempt < 30:
                continue
            it = {'i': i, 'ctx': kind, 'expr': r[0], 'enums': r[1], 'G': None,
                  'depth': 0, 'tags': sorted(tags), 'nontrivial': True,
                  'decl': 'enum me%d { %s };' % (i, r[0])}
        else:
            if kind in ('define', 'sconst'):
                r = rng.random()
                lit = gen_lit(rng, False, 'ddddddoooxxxxb')
                if kind == 'define' and r < .12:
                    tree = rng.choice([['U', '+', lit], gen_chr(rng), ['B', rng.choice('+-*|'), lit,
                                                                        gen_lit(rng, True)],
                                       ['U', '-', ['U', '-', lit]]])
                    note = 'nonliteral'
                else:
                    tree = lit if r < .6 else ['U', '-', lit]
            else:
                d = rng.choice([0, 1, 1, 2, 2, 3, 3, 4])
                tree = gen_tree(rng, d, kind == 'bitfield' and rng.random() < .6, env)
            try:
                G, t, U, Ge, Ue, info = models(tree)
                if not in_range(kind, G) and kind in ('array', 'bitfield') and attempt % 2:
                    tree = wrap_into(rng, tree, kind)
                    G, t, U, Ge, Ue, info = models(tree)
            except Undef:
                continue
            except Huge:
                return 'huge'
            if not in_range(kind, G):
                continue
            tags = tags_of(tree, set()) | set(info)
            if pre and not any(tg.startswith('ref_') for tg in tags) and attempt < 30:
                continue
            if ext and not any(tg.startswith('ext_') for tg in tags) and attempt < 30:
                continue
            if kind in ('define', 'sconst') and tree[0] == 'U' and tree[2][0] == 'L' and \
                    (kind == 'define' or rng.random() < .7):
                expr = tree[1] + tree[2][1]     # '-5': the only spelling '#define' accepts
            else:
                expr = render(tree, rng)
            it = {'i': i, 'ctx': kind, 'expr': expr, 'G': G, 'U': U, 'Ge': Ge, 'Ue': Ue,
                  'shape': {'L': 'literal', 'C': 'character', 'R': 'name'}.get(tree[0],
                                                                              'expression'),
                  'depth': depth_of(tree), 'tags': sorted(tags), 'nontrivial': nontrivial(tree)}
        if any(tg.startswith('ext_') for tg in it['tags']):
            it['ext'] = True
        if pre and any(tg.startswith('ref_') for tg in it['tags']):
            it['pre'] = pre['text']
            it['prefs'] = pre['consts']
            it['hist'] = rng.choice(['same', 'prior_cdef', 'include'])
        if note:
            it['tags'].append('define_' + note)
            it['nonliteral'] = True
        if kind == 'array':
            form = rng.choice(['field', 'field', 'typedef', 'outer2d', 'inner2d'])
            if form.endswith('2d') and G > MAX_ARRAY // 8:
                form = 'field'
            it['form'] = form
            it['k'] = k = rng.choice([2, 3, 5, 7])
            it['decl'] = {'field': 'struct sa%d { char a[%s]; };' % (i, expr),
                          'typedef': 'typedef char ta%d[%s];' % (i, expr),
                          'outer2d': 'struct sa%d { char a[%s][%d]; };' % (i, expr, k),
                          'inner2d': 'struct sa%d { char a[%d][%s]; };' % (i, k, expr)}[form]
        elif kind == 'bitfield':
            it['ty'] = rng.choice([ty for ty, w in BF_TYPES if w >= G])
            it['decl'] = 'struct sb%d { %s b : %s; };' % (i, it['ty'], expr)
        elif kind == 'enum':
            it['next'] = rng.random() < .25 and -(1 << 31) <= G < (1 << 31) - 1
            it['form'] = form = rng.choice(['named', 'named', 'named', 'typedef', 'anonymous'])
            it['decl'] = {'named': 'enum e%d {', 'typedef': 'typedef enum {', 'anonymous': 'enum {'}[
                form].replace('%d', str(i)) + ' E%d = %s%s }%s;' % (
                    i, expr, ', EN%d' % i if it['next'] else '',
                    ' te%d' % i if form == 'typedef' else '')
        elif kind == 'define':
            sep = rng.choice([' ', '\t', '  '])
            if rng.random() < .08:
                sep = rng.choice([' \\\n', ' \\\n  ', '\\\n\t'])
                it['tags'].append('define_continuation_line')
            head = rng.choice(['', '', '', ' ', '\t ']) + '#' + rng.choice(['', '', '', ' ', '\t'])
            tail = rng.choice(DEFINE_TAILS)
            if head != '#':
                it['tags'].append('define_blanks_around_hash')
            if '/' in tail:
                it['tags'].append('define_trailing_comment')
            it['decl'] = '%sdefine%sD%d%s%s%s\n' % (head, rng.choice(' \t'), i, sep, expr, tail)
        elif kind == 'sconst':
            it['ty'] = rng.choice([ty for ty, w, sg in SC_TYPES if fits(G, (w, sg))])
            form = rng.choice(['static const %s', 'static const %s', 'static const %s',
                               'static %s const', 'const static %s'])
            if not form.startswith('static const'):
                it['tags'].append('sconst_other_qualifier_order')
            it['decl'] = (form + ' S%d = %s;') % (it['ty'], i, expr)
        return it
    return None


PMACRO = ('#ifndef C09P\n#define C09P(x) ((x) < 0 ? printf("%lld\\n", (long long)(x)) : '
          'printf("%llu\\n", (unsigned long long)(x)))\n#endif\n')


def probe_unit(it):
    i, k = it['i'], it['ctx']
    st = ''.join('C09P(%s); ' % c['name'] for c in it.get('prefs', ()))
    if k == 'array':
        st += 'printf("%%zu\\n", sizeof(%s));' % names_of(it)
    elif k == 'bitfield':
        st += ('{ struct sb%d o; unsigned char *q = (unsigned char *)&o; size_t k; int n = 0; '
               'memset(&o, 0, sizeof o); o.b = -1; for (k = 0; k < sizeof o; k++) '
               'n += __builtin_popcount(q[k]); printf("%%d\\n", n); }' % i)
    elif k == 'enum':
        st += 'C09P(E%d);' % i + (' C09P(EN%d);' % i if it['next'] else '')
    elif k == 'menum':
        st += ' '.join('C09P(%s);' % c['name'] for c in it['enums'])
    else:
        st += 'C09P(%s%d);' % ('D' if k == 'define' else 'S', i)
    return (i, PMACRO + it.get('pre', '') + it['decl'], st)


def oracle(it, lines):
    """what gcc printed for the context -> True when it equals the evaluator's value"""
    try:
        vals = [int(x) for x in lines]
    except (TypeError, ValueError):
        return False
    exp = [c['G'] for c in it.get('prefs', ())]
    if it['ctx'] == 'menum':
        exp += [c['G'] for c in it['enums']]
    elif it['ctx'] == 'array' and it['form'].endswith('2d'):
        exp += [it['G'] * it['k']]
    else:
        exp += [it['G']] + ([it['G'] + 1] if it.get('next') else [])
    return vals == exp


def generate(ctx):
    rng = ctx.rng('gen')
    n = ctx.scale(5000, 100000)
    kinds = ['array'] * 3 + ['enum'] * 3 + ['menum'] + ['bitfield'] * 2 + ['define'] * 2 + \
        ['sconst'] * 2
    items = []
    for i in range(n):
        it = gen_item(rng, i, kinds[i % len(kinds)])
        if it == 'huge':
            ctx.count('skipped_huge_untyped_shift')
        elif it is None:
            ctx.count('generator_gave_up')
        else:
            items.append(it)
    res = cc.batch_probe(ctx.tmp, [probe_unit(it) for it in items], batch=1000)
    good = []
    for it in items:
        r = res.get(it['i'])
        if not oracle(it, r):
            ctx.count('evaluator_disagrees_with_gcc')
            ctx.inconclusive('C-typing evaluator and gcc disagree (machinery bug): %s -> model %r, '
                             'gcc %s' % ((it.get('pre', '') + it['decl']).strip(),
                                         it['G'] if it['ctx'] != 'menum' else
                                         [c['G'] for c in it['enums']],
                                         str(r['error'][-300:] if isinstance(r, dict) else r)))
            continue
        ctx.count('gcc_probed_' + ('otherforms' if it.get('ext') else it['ctx']))
        good.append(it)
    per = 500 if ctx.thorough else max(40, (len(good) + 15) // 16)
    cases = [{'no': k // per, 'items': good[k:k + per]} for k in range(0, len(good), per)]
    # the ffi.verify() mode (a distutils build each): a few chunks, both engines
    for c in cases[::20] if ctx.thorough else cases[:1]:
        c['verify'] = 'cpy'
    for c in cases[10::20] if ctx.thorough else cases[1:2]:
        c['verify'] = 'gen'
    return None, cases


# ---------------------------------------------------------------------------
# child: the real cffi

class ContractViolation(Exception):
    pass


class CDivTruncates(ContractViolation):
    pass


class ParseConstantReturnsInt(ContractViolation):
    pass


TOP = {'depth': 0, 'value': None}
NUMBERED = re.compile(r'\b([RM])\d+')       # names carry the item number: not part of the case
CONTRACT_EVALS = {'c_div_truncates': 0, 'parse_constant_returns_int': 0}


def c_div_truncates(a, b, result):
    CONTRACT_EVALS['c_div_truncates'] += 1
    return abs(result) == abs(a) // abs(b) and (result == 0 or (result < 0) == ((a < 0) != (b < 0)))


def parse_constant_returns_int(result):
    CONTRACT_EVALS['parse_constant_returns_int'] += 1
    return (isinstance(result, int) and not isinstance(result, bool)) or result == '...'


def child_setup(setup, wd):
    import warnings, sysconfig
    warnings.simplefilter('ignore')
    sys.path.insert(0, wd)
    from cffi import cparser
    P = cparser.Parser
    try:
        sys.path.append(os.path.join(core.VERIF, '.deps'))
        import icontract
        P._c_div = icontract.ensure(c_div_truncates, error=CDivTruncates)(P._c_div)
        P._parse_constant = icontract.ensure(parse_constant_returns_int,
                                             error=ParseConstantReturnsInt)(P._parse_constant)
        how = 'icontract'
    except ImportError:
        def wrap(f, cond, nargs, error):
            def w(self, *a, **kw):
                r = f(self, *a, **kw)
                if not cond(*(list(a[:nargs]) + [r])):
                    raise error('%s%r -> %r' % (f.__name__, a[:nargs], r))
                return r
            return w
        P._c_div = wrap(P._c_div, c_div_truncates, 2, CDivTruncates)
        P._parse_constant = wrap(P._parse_constant, parse_constant_returns_int, 0,
                                 ParseConstantReturnsInt)
        how = 'plain-wrapper'
    inner = P._parse_constant

    def outermost(self, *a, **kw):      # value of the outermost _parse_constant call
        TOP['depth'] += 1
        try:
            r = inner(self, *a, **kw)
        finally:
            TOP['depth'] -= 1
        if not TOP['depth']:
            TOP['value'] = r
        return r
    P._parse_constant = outermost
    return {'wd': wd, 'inc': sysconfig.get_paths()['include'], 'contracts': how}


def names_of(it):
    i = it['i']
    if it['ctx'] == 'array' and it['form'] == 'typedef':
        return 'ta%d' % i
    if it['ctx'] == 'enum' and it['form'] != 'named':
        return 'te%d' % i if it['form'] == 'typedef' else None
    return {'array': 'struct sa%d', 'bitfield': 'struct sb%d', 'enum': 'enum e%d',
            'menum': 'enum me%d', 'define': 'D%d', 'sconst': 'S%d'}[it['ctx']] % i


def read_constant(ffi, lib, name, mode):
    """every way this mode reports a named integer constant -> {path: value}"""
    out = {}
    if mode == 'inline':
        out['int_constants'] = ffi._parser._int_constants[name]
    elif mode != 'verify':
        out['integer_const'] = ffi.integer_const(name)
    out['lib'] = getattr(lib, name)
    return out


def observe(ffi, lib, it, mode):
    """every way this mode reports the value -> {path: value}"""
    k, nm, i = it['ctx'], names_of(it), it['i']
    out = {}
    if k == 'array' and it['form'] == 'typedef':
        t = ffi.typeof(nm)
        out['typedef_length'] = t.length
        out['sizeof_typedef'] = ffi.sizeof(nm)
        if mode == 'inline':
            out['typeof_string'] = ffi.typeof('char[%s]' % it['expr']).length
    elif k == 'array' and it['form'].endswith('2d'):
        ft = ffi.typeof(nm).fields[0][1].type
        dims = (ft.length, ft.item.length)
        mine, other = dims if it['form'] == 'outer2d' else dims[::-1]
        out['field_length'] = mine
        out['_other_dim'] = other
        if mine >= 1:
            sz = ffi.sizeof(nm)
            out['sizeof_struct_over_k'] = sz // it['k'] if sz % it['k'] == 0 else 'sizeof %d' % sz
    elif k == 'array':
        t = ffi.typeof(nm)
        out['field_length'] = t.fields[0][1].type.length
        out['sizeof_field'] = ffi.sizeof(t.fields[0][1].type)
        if out['field_length'] >= 1:
            out['sizeof_struct'] = ffi.sizeof(nm)
        if mode == 'inline':
            out['typeof_string'] = ffi.typeof('char[%s]' % it['expr']).length
    elif k == 'bitfield':
        out['bitsize'] = ffi.typeof(nm).fields[0][1].bitsize
    elif k == 'enum':
        en = 'E%d' % i
        if nm is not None:      # an anonymous enum has no type name to ask for
            t = ffi.typeof(nm)
            out['relements'] = t.relements[en]
            out['elements'] = [v for v, name in t.elements.items() if name == en][0]
        out['lib'] = getattr(lib, en)
        if mode == 'inline':
            out['int_constants'] = ffi._parser._int_constants[en]
        elif mode != 'verify':
            out['integer_const'] = ffi.integer_const(en)
        if it['next']:
            out['_next'] = getattr(lib, 'EN%d' % i)
    elif k == 'menum':
        t = ffi.typeof(nm)
        out = []
        for c in it['enums']:
            o = read_constant(ffi, lib, c['name'], mode)
            o['relements'] = t.relements[c['name']]
            byvalue = [v for v, name in t.elements.items() if name == c['name']]
            if byvalue:         # .elements keeps one name per value
                o['elements'] = byvalue[0]
            out.append(o)
    else:
        if mode == 'inline' and nm not in ffi._parser._int_constants:
            return None         # not evaluated by cffi (value left to the C library)
        out = read_constant(ffi, lib, nm, mode)
    return out


def classify(it, X):
    """mechanism of a value X != gcc's, by which reading of the expression explains X:
    U = unbounded integers instead of C types (differs from C only through an operand of
    unsigned type), Ge = C types but an escape '\\c' read as the letter c, Ue = both"""
    uns = 'unsigned_typed_node' in it['tags']
    if uns and it['U'] is not None and X == it['U']:
        return 'unsigned-typed-operand'
    if 'chr_escape' in it['tags']:
        if it['Ge'] is not None and X == it['Ge']:
            return 'char-escape'
        if it['Ue'] is not None and X == it['Ue']:
            return 'char-escape+unsigned-typed-operand' if uns else 'char-escape'
    return 'value-differs:' + it['ctx']


def cdef_inline(it):
    """the in-line FFI of one item; a prelude of named constants comes in the same cdef(),
    in an earlier cdef() call, or from an included FFI"""
    from cffi import FFI
    ffi = FFI()
    pre, hist = it.get('pre', ''), it.get('hist')
    if pre and hist == 'prior_cdef':
        ffi.cdef(pre)
        ffi.cdef(it['decl'])
    elif pre and hist == 'include':
        base = FFI()
        base.cdef(pre)
        ffi.include(base)
        ffi.cdef(it['decl'])
    else:
        ffi.cdef(pre + it['decl'])
    return ffi


def type_string_lengths(rep, ffi, it, expected, mech, what):
    """out-of-line type strings: 'char[<expression>]' and 'char[<NAME>]' go through the C
    type parser (parse_c_type.c: literals and named integer constants); where it accepts
    the string, the length must be the value"""
    todo = []
    if it['ctx'] == 'array':
        todo.append((it['expr'], expected, it['shape']))
    elif it['ctx'] == 'enum':
        todo.append(('E%d' % it['i'], expected, 'name'))
    elif it['ctx'] == 'menum':
        todo.extend((c['name'], x, 'name') for c, x in zip(it['enums'], expected))
    elif it['ctx'] in ('define', 'sconst'):
        todo.append((names_of(it), expected, 'name'))
    for text, x, form in todo:
        try:
            got = ffi.typeof('char[%s]' % text).length
        except Exception as e:
            rep.stat('type_string_%s_rejected' % form)
            continue
        rep.stat('type_string_%s_values_read' % form)
        if got != x or type(got) is not int:
            rep.bad(mech + ':type-string-' + form, '%s: %s value %r, ffi.typeof("char[%s]").length '
                    '== %r' % ((it.get('pre', '') + it['decl']).strip(), what, x, text, got),
                    it['i'])


def verify_stage(rep, st, case, agreeing):
    """the old ffi.verify() mode (vengine_cpy / vengine_gen have their own generated checks
    of the cdef values against the C compiler): declarations whose in-line values are
    gcc's must load and report the same values"""
    from cffi import FFI, VerificationError
    engine = case['verify']
    agreeing = agreeing[::max(1, (len(agreeing) + 199) // 200)]     # a build of <= 200 items
    text = '\n'.join(it.get('pre', '') + it['decl'] for it in agreeing)
    f = FFI()
    try:
        f.cdef(text)
        vlib = f.verify('#include <stdint.h>\n#include <sys/types.h>\n' + text,
                        tmpdir=os.path.join(st['wd'], 'c09ver_%d' % case['no']),
                        modulename='_c09ver_%d' % case['no'], extra_compile_args=['-O0', '-w'],
                        force_generic_engine=(engine == 'gen'))
    except Exception as e:
        import traceback
        msg = 'ffi.verify() (engine %s) of declarations whose in-line values are gcc\'s raised ' \
            '%s: %s\n%s' % (engine, type(e).__name__, str(e)[:400], traceback.format_exc()[-600:])
        if isinstance(e, VerificationError) and ('CompileError' in str(e) or 'LinkError' in str(e)):
            rep.bad('harness-verify-module-build', msg, None)
        else:
            rep.bad('verify-module-raised:' + type(e).__name__, msg, None)
        return
    rep.stat('verify_modules_' + engine)
    for it in agreeing:
        full = (it.get('pre', '') + it['decl']).strip()
        try:
            obs = observe(f, vlib, it, 'verify')
            preobs = [read_constant(f, vlib, c['name'], 'verify') for c in it.get('prefs', ())]
        except Exception as e:
            rep.bad('verify-check-disagrees:' + it['ctx'], '%s: in-line value %r equals gcc\'s, '
                    'ffi.verify() module raised %s: %s' % (full, it['X'], type(e).__name__,
                                                           str(e)[:300]), it['i'])
            continue
        pairs = list(zip(it.get('prefs', ()), preobs))
        if it['ctx'] == 'menum':
            pairs += list(zip(it['enums'], obs))
        for c, o in pairs:
            rep.stat('verify_module_values_read', len(o))
            if set(o.values()) != {c['G']}:
                rep.bad('verify-check-disagrees:' + ('menum' if c in it.get('enums', ()) else
                                                     'prelude'), '%s: %s: gcc %d, ffi.verify() '
                        'module %r' % (full, c['name'], c['G'], o), it['i'])
        if it['ctx'] == 'menum':
            continue
        nxt = obs.pop('_next', None)
        other = obs.pop('_other_dim', None)
        rep.stat('verify_module_values_read', len(obs))
        if set(obs.values()) != {it['G']} or (nxt is not None and nxt != it['G'] + 1) or \
                (other is not None and other != it['k']):
            rep.bad('verify-check-disagrees:' + it['ctx'], '%s: gcc %d, ffi.verify() module %r' %
                    (full, it['G'], obs), it['i'])


def child_case(st, case):
    import importlib
    from cffi import FFI
    rep = core.ChildRep()
    ev0 = dict(CONTRACT_EVALS)
    accepted, agreeing = [], []
    for it in case['items']:
        k, G = it['ctx'], it['G']
        kk = 'otherforms' if it.get('ext') else k
        full = (it.get('pre', '') + it['decl']).strip()
        rep.case((k, it.get('ty'), it.get('form'), it.get('hist'),
                  [NUMBERED.sub(r'\1', c['expr'] or '') for c in it.get('prefs', []) +
                   it.get('enums', [])], NUMBERED.sub(r'\1', it['expr'] if k != 'menum' else '')),
                 nontrivial=it['nontrivial'],
                 sample={'decl': full, 'gcc': G if k != 'menum' else [c['G'] for c in it['enums']]})
        TOP['value'] = pv = None
        try:
            ffi = cdef_inline(it)
            pv = TOP['value']           # arrays, widths, enumerators: what the parser computed
            lib = ffi.dlopen(None)
            obs = observe(ffi, lib, it, 'inline')
            preobs = [read_constant(ffi, lib, c['name'], 'inline') for c in it.get('prefs', ())]
        except ContractViolation as e:
            rep.bad('contract:' + type(e).__name__, '%s: %s' % (full, str(e)[-300:]), it['i'])
            continue
        except Exception as e:
            # not "accepted": outside the statement; recorded with the reason
            rep.stat('rejected_%s' % kk)
            rep.stat('rejected_%s:%s' % (kk, type(e).__name__))
            for tg in it['tags']:
                if tg.startswith('ext_'):
                    rep.stat('rejected_form_with_' + tg)
            pv = TOP['value'] if pv is None else pv
            if k == 'menum' or it.get('pre') or it.get('form', '').endswith('2d'):
                pass                    # the last value computed is not this expression's
            elif pv is None:
                rep.stat('rejected_before_a_value_was_computed_' + kk)
            elif pv == G:
                rep.stat('rejected_although_parser_value_equals_gcc_' + kk)
            else:
                rep.stat('rejected_after_parser_value_differs:' + classify(it, pv))
            continue
        if obs is None:
            rep.stat('not_evaluated_by_cffi_' + k)
            continue
        rep.stat('accepted_' + kk)
        if it.get('ext'):
            rep.stat('accepted_otherforms_in_' + k)
        rep.stat('depth_%d' % it['depth'])
        for tg in it['tags']:
            rep.stat(tg)
        if it.get('pre'):
            rep.stat('prelude_' + it['hist'])
        # ---- the named constants of the prelude
        ok = True
        it = dict(it)
        it['preX'] = []
        for c, o in zip(it.get('prefs', ()), preobs):
            rep.stat('inline_values_read', len(o))
            rep.stat('prelude_constants')
            x = o['int_constants']
            it['preX'].append(x)
            if len(set(o.values())) != 1:
                rep.bad('inline-paths-disagree:prelude', '%s: %s: %r' % (full, c['name'], o), it['i'])
            if x != c['G'] or type(x) is not int:
                ok = False
                rep.bad(classify(dict(c, ctx='prelude-' + c['kind']), x), '%s: %s: cffi %r, gcc %d '
                        '(untyped reading %r)' % (full, c['name'], x, c['G'], c['U']), it['i'])
        # ---- several enumerators
        if k == 'menum':
            it['X'] = []
            for c, o in zip(it['enums'], obs):
                rep.stat('inline_values_read', len(o))
                rep.stat('menum_enumerators')
                x = o['relements']
                it['X'].append(x)
                if len(set(o.values())) != 1:
                    rep.bad('inline-paths-disagree:menum', '%s: %s: %r' % (full, c['name'], o),
                            it['i'])
                if c['U'] != c['G']:
                    rep.stat('untyped_reading_differs_from_C')
                if x != c['G'] or type(x) is not int:
                    ok = False
                    rep.bad(classify(dict(c, ctx='menum' + ('-implicit' if c['implicit'] else '')),
                                     x), '%s: %s: cffi %r, gcc %d (untyped reading %r)' %
                            (full, c['name'], x, c['G'], c['U']), it['i'])
            accepted.append(it)
            if ok:
                agreeing.append(it)
            continue
        # ---- one expression
        other = obs.pop('_other_dim', None)
        if other is not None:
            rep.stat('array_2d_other_dimension_read')
            if other != it['k']:
                rep.bad('array-2d-other-dimension', '%s: the constant dimension %d is reported as '
                        '%r' % (full, it['k'], other), it['i'])
        elif k in ('array', 'bitfield', 'enum'):
            obs['parser_value'] = pv
            if k == 'bitfield' and isinstance(pv, int) and pv < 0 and obs['bitsize'] == -1:
                del obs['bitsize']      # a negative width silently declares a plain field
                rep.stat('negative_width_became_plain_field')
        if k in ('array', 'enum'):
            rep.stat('%s_form_%s' % (k, it['form']))
        nxt = obs.pop('_next', None)
        rep.stat('inline_values_read', len(obs))
        X = obs['parser_value'] if 'parser_value' in obs else obs[sorted(obs)[0]]
        it['X'] = X
        accepted.append(it)
        if len(set(obs.values())) != 1:
            rep.bad('inline-paths-disagree:' + k, '%s: %r' % (full, obs), it['i'])
        if nxt is not None:
            rep.stat('enum_implicit_next')
            if nxt != X + 1:
                rep.bad('enum-implicit-next', '%s: E = %r but EN = %r' % (full, X, nxt),
                        it['i'])
        if it['U'] != G:
            rep.stat('untyped_reading_differs_from_C')
        if 'chr_escape' in it['tags'] and it['Ge'] != G:
            rep.stat('escape_letter_reading_differs_from_C')
        if X == G and type(X) is int:
            if ok:
                agreeing.append(it)
        else:
            rep.bad(classify(it, X), '%s: cffi %r, gcc %d (untyped reading %r)' %
                    (full, X, G, it['U']), it['i'])
    for name, n in CONTRACT_EVALS.items():
        rep.stat('contract_evaluations_%s' % name, n - ev0[name])
    rep.stat('contracts_installed_with_' + st['contracts'])
    if case.get('verify') and agreeing:
        verify_stage(rep, st, case, agreeing)
    # ---- out-of-line ABI module: must report what the in-line FFI reports
    nacc = len(accepted)
    accepted = [it for it in accepted if not (it['ctx'] == 'array' and it['X'] >= 1 << 31)]
    rep.stat('abi_module_refuses_array_length_ge_2**31', nacc - len(accepted))
    nacc = len(accepted)    # a (wrong) in-line value outside 64 bits has no out-of-line form
    accepted = [it for it in accepted
                if all(-(1 << 63) <= x < (1 << 64) for x in
                       (it['X'] if it['ctx'] == 'menum' else [it['X']]) + it['preX'])]
    rep.stat('abi_module_skipped_inline_value_outside_64_bits', nacc - len(accepted))
    if not accepted:
        return rep.result()
    try:
        mod = '_c09abi_%d' % case['no']
        inbase = lambda it: bool(it.get('pre')) and it['hist'] == 'include'
        f = FFI()
        if any(inbase(it) for it in accepted):
            # preludes that the in-line FFI got through ffi.include(): an included module
            fb = FFI()
            fb.cdef(''.join(it['pre'] for it in accepted if inbase(it)))
            fb.set_source(mod + '_base', None)
            fb.emit_python_code(os.path.join(st['wd'], mod + '_base.py'))
            f.include(fb)
            rep.stat('abi_base_modules')
        f.cdef('\n'.join(('' if inbase(it) else it.get('pre', '')) + it['decl'] for it in accepted))
        f.set_source(mod, None)
        f.emit_python_code(os.path.join(st['wd'], mod + '.py'))
        importlib.invalidate_caches()
        sys.modules.pop(mod, None)
        sys.modules.pop(mod + '_base', None)
        m = importlib.import_module(mod)
        lib = m.ffi.dlopen(None)
        rep.stat('abi_modules')
    except Exception as e:
        import traceback
        rep.bad('abi-module-raised:' + type(e).__name__, traceback.format_exc()[-700:], None)
        m = None
    for it in accepted if m else []:
        full = (it.get('pre', '') + it['decl']).strip()
        try:
            obs = observe(m.ffi, lib, it, 'abi')
            preobs = [read_constant(m.ffi, lib, c['name'], 'abi') for c in it.get('prefs', ())]
        except Exception as e:
            rep.bad('mode-disagrees:abi-module:' + it['ctx'], '%s: in-line %r, out-of-line raised '
                    '%s: %s' % (full, it['X'], type(e).__name__, e), it['i'])
            continue
        for c, o, x in zip(it.get('prefs', ()), preobs, it['preX']):
            rep.stat('abi_module_values_read', len(o))
            if inbase(it):
                rep.stat('abi_module_constants_read_through_include')
            if set(o.values()) != {x}:
                rep.bad('mode-disagrees:abi-module:prelude' + ('-included' if inbase(it) else ''),
                        '%s: %s: in-line %r, out-of-line %r' % (full, c['name'], x, o), it['i'])
        if it['ctx'] == 'menum':
            for c, o, x in zip(it['enums'], obs, it['X']):
                rep.stat('abi_module_values_read', len(o))
                if set(o.values()) != {x}:
                    rep.bad('mode-disagrees:abi-module:menum', '%s: %s: in-line %r, out-of-line %r'
                            % (full, c['name'], x, o), it['i'])
        else:
            obs.pop('_next', None)
            other = obs.pop('_other_dim', None)
            rep.stat('abi_module_values_read', len(obs))
            if set(obs.values()) != {-1 if it['ctx'] == 'bitfield' and it['X'] < 0 else it['X']} \
                    or (other is not None and other != it['k']):
                rep.bad('mode-disagrees:abi-module:' + it['ctx'], '%s: in-line %r, out-of-line %r' %
                        (full, it['X'], obs), it['i'])
        type_string_lengths(rep, m.ffi, it, it['X'], 'mode-disagrees:abi-module', 'in-line')
    # ---- API module: the generated checks against the C compiler must agree
    if not agreeing:
        return rep.result()
    try:
        mod = '_c09api_%d' % case['no']
        text = '\n'.join(it.get('pre', '') + it['decl'] for it in agreeing)
        f = FFI()
        f.cdef(text)
        f.set_source(mod, '#include <stdint.h>\n#include <sys/types.h>\n' + text)
        cfile = os.path.join(st['wd'], mod + '.c')
        f.emit_c_code(cfile)
        r = subprocess.run(['gcc', '-O0', '-w', '-shared', '-fPIC', '-I' + st['inc'], cfile, '-o',
                            os.path.join(st['wd'], mod + '.so')], stdout=subprocess.PIPE,
                           stderr=subprocess.STDOUT, timeout=600)
        if r.returncode != 0:
            rep.bad('harness-api-module-build', 'gcc failed on the generated module: ' +
                    r.stdout.decode(errors='replace')[-800:], None)
            return rep.result()
        importlib.invalidate_caches()
        sys.modules.pop(mod, None)
        m = importlib.import_module(mod)
        rep.stat('api_modules')
    except Exception as e:
        import traceback
        rep.bad('api-module-raised:' + type(e).__name__, traceback.format_exc()[-700:], None)
        return rep.result()
    for it in agreeing:
        full = (it.get('pre', '') + it['decl']).strip()
        try:
            obs = observe(m.ffi, m.lib, it, 'api')
            preobs = [read_constant(m.ffi, m.lib, c['name'], 'api') for c in it.get('prefs', ())]
        except Exception as e:
            rep.bad('api-check-disagrees:' + it['ctx'], '%s: in-line value %r equals gcc\'s, API '
                    'module raised %s: %s' % (full, it['X'], type(e).__name__, str(e)[:300]),
                    it['i'])
            continue
        for c, o in zip(it.get('prefs', ()), preobs):
            rep.stat('api_module_values_read', len(o))
            if set(o.values()) != {c['G']}:
                rep.bad('api-check-disagrees:prelude', '%s: %s: gcc %d, API module %r' %
                        (full, c['name'], c['G'], o), it['i'])
        if it['ctx'] == 'menum':
            for c, o in zip(it['enums'], obs):
                rep.stat('api_module_values_read', len(o))
                if set(o.values()) != {c['G']}:
                    rep.bad('api-check-disagrees:menum', '%s: %s: gcc %d, API module %r' %
                            (full, c['name'], c['G'], o), it['i'])
            type_string_lengths(rep, m.ffi, it, [c['G'] for c in it['enums']],
                                'api-check-disagrees', 'gcc')
            continue
        nxt = obs.pop('_next', None)
        other = obs.pop('_other_dim', None)
        rep.stat('api_module_values_read', len(obs))
        if set(obs.values()) != {it['G']} or (nxt is not None and nxt != it['G'] + 1) or \
                (other is not None and other != it['k']):
            rep.bad('api-check-disagrees:' + it['ctx'], '%s: gcc %d, API module %r' %
                    (full, it['G'], obs), it['i'])
        type_string_lengths(rep, m.ffi, it, it['G'], 'api-check-disagrees', 'gcc')
    return rep.result()


def run(ctx):
    setup, cases = generate(ctx)
    obs = core.run_cases(ctx, 'c09', setup, cases, variant=VARIANT, timeout=900)
    for c, o in zip(cases, obs):
        if core.std_obs_check(ctx, c, o):
            judge(ctx, setup, c, o)
    cnt = ctx.counters
    for k in ('array', 'bitfield', 'enum', 'menum', 'define', 'sconst'):
        if cnt.get('accepted_' + k, 0) < 0.5 * cnt.get('gcc_probed_' + k, 0) or \
                not cnt.get('accepted_' + k):
            ctx.inconclusive('cffi evaluated only %d of %d %s expressions' %
                             (cnt.get('accepted_' + k, 0), cnt.get('gcc_probed_' + k, 0), k))
    for k in CONTRACT_EVALS:
        if not cnt.get('contract_evaluations_' + k):
            ctx.inconclusive('contract %s was never evaluated' % k)
    for k in ('abi_module_values_read', 'api_module_values_read', 'verify_module_values_read'):
        if not cnt.get(k):
            ctx.inconclusive('no value was read in mode %s' % k.split('_values')[0])


def judge(ctx, setup, case, obs):
    def rp(i):
        return case if i is None else dict(case, items=[it for it in case['items']
                                                        if it['i'] == i])
    core.absorb(ctx, case, obs, rp)
