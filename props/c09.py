"""C09 -- integer constant expressions in cdef evaluate as C evaluates them.

Differential oracle: gcc prints, for every generated expression *in its
context* (array length -> sizeof, bitfield width -> bits set by an all-ones
store, enumerator, #define, static const), the value it computes.  A small
C-typing evaluator (LP64: literal typing by value/base/suffix, usual
arithmetic conversions, two's complement) only discards expressions whose C
evaluation is undefined and keeps values in the range of the context; if it
disagrees with gcc the run is inconclusive.  cffi's value is read in-line,
from an emitted out-of-line ABI module and from a compiled API module.
"""
import os, sys, subprocess
from vlib import core, cc

RULE = ("case = (context, expression text[, declared type]); contexts: array length of a struct "
        "field, bitfield width, enumerator value (1/4 with an implicit next enumerator), "
        "'#define N <literal|-literal>' (+ a few non-literal forms, expected to be rejected), "
        "'static const <integer type> N = <literal|-literal>'; expressions = random trees of depth "
        "<= 4 (plus extra unary minus on / % >> operands) over decimal/octal/hex literals (values 0..2**64-1 around the 2**7..2**64 "
        "boundaries, all u/l/ul/ll/ull suffix spellings), character constants (printable and "
        "simple escapes), unary + -, binary + - * / % << >> & | ^, with and without redundant "
        "parentheses (+ up to two '(t & m) + 1' levels steering array lengths / widths into range); "
        "C-undefined expressions discarded by the evaluator; distinct = (context, "
        "text, type); non-trivial = has an operator, or a literal that is not plain decimal")
ASSUMPTIONS = ["gcc -std=gnu11 on x86-64 (LP64) is the C compiler of the statement; enumerator "
               "values outside int and arithmetic >> of negative values follow gcc",
               "expressions whose untyped (unbounded-integer) reading contains a shift by more "
               "than 4096 are not sent to cffi (it would allocate without bound); counted",
               "static const initialisers are only generated inside the range of the declared "
               "type (the conversion to that type is not part of the expression)",
               "the API module is compiled by gcc -O0 directly from ffi.emit_c_code() output"]
VARIANT = 'plain'

I32, U32, I64, U64 = (32, True), (32, False), (64, True), (64, False)
SUFFIXES = [['u', 'U'], ['l', 'L'], ['ll', 'LL'], ['ul', 'uL', 'Ul', 'UL', 'lu', 'lU', 'Lu', 'LU'],
            ['ull', 'uLL', 'Ull', 'ULL', 'llu', 'llU', 'LLu', 'LLU']]
ESCAPES = {'n': 10, 't': 9, 'r': 13, 'a': 7, 'b': 8, 'f': 12, 'v': 11, '\\': 92, "'": 39,
           '"': 34, '?': 63, '0': 0, '1': 1, '2': 2, '3': 3, '4': 4, '5': 5, '6': 6, '7': 7}
BINOPS = ['+', '-', '*', '/', '%', '<<', '>>', '&', '|', '^']
PREC = {'*': 10, '/': 10, '%': 10, '+': 9, '-': 9, '<<': 8, '>>': 8, '&': 7, '^': 6, '|': 5}
OPNAME = {'+': 'add', '-': 'sub', '*': 'mul', '/': 'div', '%': 'mod', '<<': 'shl', '>>': 'shr',
          '&': 'and', '|': 'or', '^': 'xor'}
BF_TYPES = [('unsigned char', 8), ('signed char', 8), ('unsigned short', 16), ('short', 16),
            ('int', 32), ('unsigned int', 32), ('long', 64), ('unsigned long', 64),
            ('long long', 64), ('unsigned long long', 64)]
SC_TYPES = [('signed char', 8, True), ('unsigned char', 8, False), ('short', 16, True),
            ('unsigned short', 16, False), ('int', 32, True), ('unsigned', 32, False),
            ('unsigned int', 32, False), ('long', 64, True), ('unsigned long', 64, False),
            ('long long', 64, True), ('unsigned long long', 64, False), ('int8_t', 8, True),
            ('uint8_t', 8, False), ('int16_t', 16, True), ('uint16_t', 16, False),
            ('int32_t', 32, True), ('uint32_t', 32, False), ('int64_t', 64, True),
            ('uint64_t', 64, False), ('size_t', 64, False), ('ssize_t', 64, True),
            ('intptr_t', 64, True), ('uintptr_t', 64, False)]
MAX_ARRAY = 1 << 62
HUGE_SHIFT = 4096


# ---------------------------------------------------------------------------
# the C-typing evaluator (and its untyped, unbounded-integer counterpart)

class Undef(Exception):
    """the evaluation is undefined (C: UB; untyped: division by zero, negative shift)"""


class Huge(Exception):
    """untyped reading shifts by more than HUGE_SHIFT"""


def lit_type(v, base, suf):
    s = suf.lower()
    if 'u' in s:
        cands = [U64] if 'l' in s else [U32, U64]
    elif 'l' in s:
        cands = [I64] if base == 'd' else [I64, U64]
    else:
        cands = [I32, I64] if base == 'd' else [I32, U32, I64, U64]
    for t in cands:
        if fits(v, t):
            return t
    return None


def fits(v, t):
    bits, signed = t
    return -(1 << (bits - 1)) <= v < (1 << (bits - 1)) if signed else 0 <= v < (1 << bits)


def common(a, b):
    if a[1] == b[1]:
        return a if a[0] >= b[0] else b
    u, s = (a, b) if not a[1] else (b, a)
    return u if u[0] >= s[0] else s


def conv(v, t):
    return v if t[1] else v & ((1 << t[0]) - 1)


def tdiv(a, b):
    q = abs(a) // abs(b)
    return q if (a < 0) == (b < 0) else -q


def ev(n, typed, esclit, info):
    """-> (value, type).  typed=False: unbounded Python ints (type None).
    esclit=True: an escape '\\c' is read as the code of the letter c."""
    v, t = _ev(n, typed, esclit, info)
    if typed and not t[1]:
        info['unsigned_typed_node'] = True
    return v, t


def _ev(n, typed, esclit, info):
    k = n[0]
    if k == 'L':
        return n[2], (lit_type(n[2], n[3], n[4]) if typed else None)
    if k == 'C':
        return (n[3] if esclit else n[2]), (I32 if typed else None)
    if k == 'U':
        v, t = ev(n[2], typed, esclit, info)
        if n[1] == '-':
            v = -v
            if typed:
                if t[1] and not fits(v, t):
                    raise Undef('negation overflows')
                v = conv(v, t)
        return v, t
    op = n[1]
    a, ta = ev(n[2], typed, esclit, info)
    b, tb = ev(n[3], typed, esclit, info)
    if op in ('<<', '>>'):
        t = ta
        if b < 0 or (typed and b >= t[0]):
            raise Undef('shift count')
        if not typed and b > HUGE_SHIFT:
            raise Huge()
        if op == '>>':
            if typed and a < 0:
                info['shr_negative_impl_defined'] = True
            r = a >> b
        else:
            if typed and t[1] and a < 0:
                raise Undef('left shift of a negative value')
            r = a << b
    else:
        t = common(ta, tb) if typed else None
        if typed:
            a, b = conv(a, t), conv(b, t)
        if op in ('/', '%'):
            if b == 0:
                raise Undef('division by zero')
            q = tdiv(a, b)
            if typed and not fits(q, t):
                raise Undef('INT_MIN / -1')
            if typed and q != a // b:
                info['division_where_floor_differs'] = True
            r = q if op == '/' else a - q * b
        else:
            r = {'+': a + b, '-': a - b, '*': a * b, '&': a & b, '|': a | b, '^': a ^ b}[op]
    if typed:
        if t[1] and not fits(r, t):
            raise Undef('signed overflow')
        r = conv(r, t)
    return r, t


def models(tree):
    """-> (G, type, U, Ge, Ue, info); G raises Undef when C leaves it undefined;
    the other three are None where that reading is undefined."""
    info = {}
    G, t = ev(tree, True, False, info)
    out = []
    for typed, esclit in ((False, False), (True, True), (False, True)):
        try:
            out.append(ev(tree, typed, esclit, {})[0])
        except Undef:
            out.append(None)
    return G, t, out[0], out[1], out[2], info


# ---------------------------------------------------------------------------
# generator

def gen_lit(rng, small=False):
    while True:
        r = rng.random()
        if small or r < .55:
            v = rng.randrange(0, 70)
        elif r < .8:
            v = (1 << rng.choice([7, 8, 15, 16, 31, 32, 63, 64])) + rng.choice([-2, -1, 0, 1])
        else:
            v = rng.getrandbits(rng.choice([8, 16, 31, 32, 33, 48, 63, 64]))
        base = rng.choice('dddoxx')
        suf = '' if rng.random() < .55 else rng.choice(rng.choice(SUFFIXES))
        if not 0 <= v < (1 << 64) or lit_type(v, base, suf) is None:
            continue
        if base == 'd':
            text = str(v)
        elif base == 'o':
            text = '0' * rng.choice([1, 1, 1, 2]) + ('%o' % v if v else '')
        else:
            text = rng.choice(['0x', '0X']) + '0' * rng.choice([0, 0, 0, 1, 3]) + ''.join(
                rng.choice([c, c.upper()]) for c in '%x' % v)
        return ['L', text + suf, v, base, suf]


def gen_chr(rng):
    if rng.random() < .5:
        c = rng.choice(sorted(ESCAPES))
        return ['C', "'\\%s'" % c, ESCAPES[c], ord(c)]
    c = rng.choice([chr(x) for x in range(32, 127) if chr(x) not in "'\\"])
    return ['C', "'%s'" % c, ord(c), ord(c)]


def gen_leaf(rng, small=False):
    return gen_chr(rng) if rng.random() < .09 else gen_lit(rng, small)


def gen_tree(rng, depth, small=False):
    """a tree whose C evaluation is defined (undefined nodes are re-drawn locally)"""
    if depth <= 0 or rng.random() < .2:
        return gen_leaf(rng, small)
    if rng.random() < .15:
        sub = gen_tree(rng, depth - 1, small)
        for op in rng.sample(['-', '+', '-'], 2):
            n = ['U', op, sub]
            if defined(n):
                return n
        return sub
    left = gen_tree(rng, depth - 1, small)
    for _ in range(6):
        op = rng.choice(BINOPS)
        sm = small or (op in ('<<', '>>') and rng.random() < .85)
        right = gen_tree(rng, rng.randrange(0, depth), sm)
        lt = left
        if op in ('/', '%', '>>') and rng.random() < .4:      # negative operands: truncation, sign of %
            lt, right = [x if rng.random() < .4 else ['U', '-', x] for x in (left, right)]
        n = ['B', op, lt, right]
        if defined(n):
            return n
    return left


def defined(n):
    try:
        ev(n, True, False, {})
        return True
    except Undef:
        return False


def render(n, rng):
    k = n[0]
    if k in 'LC':
        return n[1]
    if k == 'U':
        s = render(n[2], rng)
        return n[1] + (s if n[2][0] in 'LC' and rng.random() < .7 else '(%s)' % s)
    parts = []
    for side, c in ((0, n[2]), (1, n[3])):
        s = render(c, rng)
        need = c[0] == 'U' or (c[0] == 'B' and (PREC[c[1]] < PREC[n[1]] or
                                                (side == 1 and PREC[c[1]] == PREC[n[1]])))
        if need or (c[0] == 'B' and rng.random() < .4):
            s = '(%s)' % s
        parts.append(s)
    sp = rng.choice(['', ' ', ' '])
    if sp == '' and (parts[1][0] in '+-' or (n[1] in '+-' and parts[0][-1] in 'eEpP')):
        sp = ' '        # 'a--b' is not 'a - -b'; '0xE+1' is one (invalid) pp-number
    return parts[0] + sp + n[1] + sp + parts[1]


def tags_of(n, out):
    k = n[0]
    if k == 'L':
        out.add('lit_' + {'d': 'dec', 'o': 'oct', 'x': 'hex'}[n[3]])
        s = n[4].lower()
        if s:
            out.add('suffix_' + ''.join(sorted(set(s))))
        if n[3] == 'o' and n[2] >= 8:
            out.add('lit_oct_ge_8')
    elif k == 'C':
        out.add('chr_escape' if n[1][1] == '\\' else 'chr_plain')
        if n[2] != n[3]:
            out.add('chr_escape_letter_differs')
    elif k == 'U':
        out.add('op_unary_' + ('minus' if n[1] == '-' else 'plus'))
        tags_of(n[2], out)
    else:
        out.add('op_' + OPNAME[n[1]])
        tags_of(n[2], out)
        tags_of(n[3], out)
    return out


def depth_of(n):
    return 0 if n[0] in 'LC' else 1 + max(depth_of(c) for c in n[2:])


def wrap_into(rng, tree, kind):
    """expression forms that steer the value into the context's range"""
    if kind == 'bitfield':
        return rng.choice([['B', '+', ['B', '&', tree, gen_lit_of(63)], gen_lit_of(1)],
                           ['B', '|', ['B', '&', tree, gen_lit_of(rng.choice([7, 31, 62]))],
                            gen_lit_of(1)]])
    m = rng.choice([63, 0xff, 0xffff, 0x7ffffffe, 0xfffffffffff])
    return ['B', '+', ['B', '&', tree, gen_lit_of(m)], gen_lit_of(1)]


def gen_lit_of(v):
    return ['L', str(v), v, 'd', '']


def in_range(kind, G):
    if kind == 'array':
        return 1 <= G <= MAX_ARRAY
    if kind == 'bitfield':
        return 1 <= G <= 64
    return True


def gen_item(rng, i, kind):
    for attempt in range(200):
        note = None
        if kind in ('define', 'sconst'):
            r = rng.random()
            lit = gen_lit(rng)
            if kind == 'define' and r < .12:
                tree = rng.choice([['U', '+', lit], gen_chr(rng), ['B', rng.choice('+-*|'), lit,
                                                                    gen_lit(rng, True)],
                                   ['U', '-', ['U', '-', lit]]])
                note = 'nonliteral'
            else:
                tree = lit if r < .6 else ['U', '-', lit]
        else:
            d = rng.choice([0, 1, 1, 2, 2, 3, 3, 4])
            tree = gen_tree(rng, d, small=(kind == 'bitfield' and rng.random() < .6))
        try:
            G, t, U, Ge, Ue, info = models(tree)
            if not in_range(kind, G) and kind in ('array', 'bitfield') and attempt % 2:
                tree = wrap_into(rng, tree, kind)
                G, t, U, Ge, Ue, info = models(tree)
        except Undef:
            continue
        except Huge:
            return 'huge'
        if not in_range(kind, G):
            continue
        if kind in ('define', 'sconst') and tree[0] == 'U' and tree[2][0] == 'L' and \
                (kind == 'define' or rng.random() < .7):
            expr = tree[1] + tree[2][1]     # '-5': the only spelling '#define' accepts
        else:
            expr = render(tree, rng)
        it = {'i': i, 'ctx': kind, 'expr': expr, 'G': G, 'U': U, 'Ge': Ge, 'Ue': Ue,
              'depth': depth_of(tree), 'tags': sorted(tags_of(tree, set()) | set(info)),
              'nontrivial': depth_of(tree) > 0 or tree[0] == 'C' or tree[3] != 'd' or bool(tree[4])}
        if note:
            it['tags'].append('define_' + note)
            it['nonliteral'] = True
        if kind == 'array':
            it['decl'] = 'struct sa%d { char a[%s]; };' % (i, expr)
        elif kind == 'bitfield':
            it['ty'] = rng.choice([ty for ty, w in BF_TYPES if w >= G])
            it['decl'] = 'struct sb%d { %s b : %s; };' % (i, it['ty'], expr)
        elif kind == 'enum':
            it['next'] = rng.random() < .25 and -(1 << 31) <= G < (1 << 31) - 1
            it['decl'] = 'enum e%d { E%d = %s%s };' % (i, i, expr,
                                                       ', EN%d' % i if it['next'] else '')
        elif kind == 'define':
            it['decl'] = '#define%sD%d%s%s%s\n' % (rng.choice(' \t'), i, rng.choice([' ', '\t', '  ']),
                                                  expr, rng.choice(['', '', ' ', '\t']))
        else:
            it['ty'] = rng.choice([ty for ty, w, sg in SC_TYPES if fits(G, (w, sg))])
            it['decl'] = 'static const %s S%d = %s;' % (it['ty'], i, expr)
        return it
    return None


PMACRO = ('#ifndef C09P\n#define C09P(x) ((x) < 0 ? printf("%lld\\n", (long long)(x)) : '
          'printf("%llu\\n", (unsigned long long)(x)))\n#endif\n')


def probe_unit(it):
    i, k = it['i'], it['ctx']
    if k == 'array':
        st = 'printf("%%zu\\n", sizeof(struct sa%d));' % i
    elif k == 'bitfield':
        st = ('{ struct sb%d o; unsigned char *q = (unsigned char *)&o; size_t k; int n = 0; '
              'memset(&o, 0, sizeof o); o.b = -1; for (k = 0; k < sizeof o; k++) '
              'n += __builtin_popcount(q[k]); printf("%%d\\n", n); }' % i)
    elif k == 'enum':
        st = 'C09P(E%d);' % i + (' C09P(EN%d);' % i if it['next'] else '')
    else:
        st = 'C09P(%s%d);' % ('D' if k == 'define' else 'S', i)
    return (i, PMACRO + it['decl'], st)


def oracle(it, lines):
    """what gcc printed for the context -> True when it equals the evaluator's value"""
    try:
        vals = [int(x) for x in lines]
    except (TypeError, ValueError):
        return False
    exp = [it['G']] + ([it['G'] + 1] if it.get('next') else [])
    return vals == exp


def generate(ctx):
    rng = ctx.rng('gen')
    n = ctx.scale(5000, 100000)
    kinds = ['array'] * 3 + ['enum'] * 4 + ['bitfield'] * 2 + ['define'] * 2 + ['sconst'] * 2
    items = []
    for i in range(n):
        it = gen_item(rng, i, kinds[i % len(kinds)])
        if it == 'huge':
            ctx.count('skipped_huge_untyped_shift')
        elif it is None:
            ctx.count('generator_gave_up')
        else:
            items.append(it)
    res = cc.batch_probe(ctx.tmp, [probe_unit(it) for it in items], batch=1000)
    good = []
    for it in items:
        r = res.get(it['i'])
        if not oracle(it, r):
            ctx.count('evaluator_disagrees_with_gcc')
            ctx.inconclusive('C-typing evaluator and gcc disagree (machinery bug): %s -> model %d, '
                             'gcc %s' % (it['decl'].strip(), it['G'],
                                         str(r['error'][-300:] if isinstance(r, dict) else r)))
            continue
        ctx.count('gcc_probed_' + it['ctx'])
        good.append(it)
    per = 500 if ctx.thorough else max(40, (len(good) + 15) // 16)
    return None, [{'no': k // per, 'items': good[k:k + per]} for k in range(0, len(good), per)]


# ---------------------------------------------------------------------------
# child: the real cffi

class ContractViolation(Exception):
    pass


class CDivTruncates(ContractViolation):
    pass


class ParseConstantReturnsInt(ContractViolation):
    pass


TOP = {'depth': 0, 'value': None}
CONTRACT_EVALS = {'c_div_truncates': 0, 'parse_constant_returns_int': 0}


def c_div_truncates(a, b, result):
    CONTRACT_EVALS['c_div_truncates'] += 1
    return abs(result) == abs(a) // abs(b) and (result == 0 or (result < 0) == ((a < 0) != (b < 0)))


def parse_constant_returns_int(result):
    CONTRACT_EVALS['parse_constant_returns_int'] += 1
    return (isinstance(result, int) and not isinstance(result, bool)) or result == '...'


def child_setup(setup, wd):
    import warnings, sysconfig
    warnings.simplefilter('ignore')
    sys.path.insert(0, wd)
    from cffi import cparser
    P = cparser.Parser
    try:
        sys.path.append(os.path.join(core.VERIF, '.deps'))
        import icontract
        P._c_div = icontract.ensure(c_div_truncates, error=CDivTruncates)(P._c_div)
        P._parse_constant = icontract.ensure(parse_constant_returns_int,
                                             error=ParseConstantReturnsInt)(P._parse_constant)
        how = 'icontract'
    except ImportError:
        def wrap(f, cond, nargs, error):
            def w(self, *a, **kw):
                r = f(self, *a, **kw)
                if not cond(*(list(a[:nargs]) + [r])):
                    raise error('%s%r -> %r' % (f.__name__, a[:nargs], r))
                return r
            return w
        P._c_div = wrap(P._c_div, c_div_truncates, 2, CDivTruncates)
        P._parse_constant = wrap(P._parse_constant, parse_constant_returns_int, 0,
                                 ParseConstantReturnsInt)
        how = 'plain-wrapper'
    inner = P._parse_constant

    def outermost(self, *a, **kw):      # value of the outermost _parse_constant call
        TOP['depth'] += 1
        try:
            r = inner(self, *a, **kw)
        finally:
            TOP['depth'] -= 1
        if not TOP['depth']:
            TOP['value'] = r
        return r
    P._parse_constant = outermost
    return {'wd': wd, 'inc': sysconfig.get_paths()['include'], 'contracts': how}


def names_of(it):
    i = it['i']
    return {'array': 'struct sa%d', 'bitfield': 'struct sb%d', 'enum': 'enum e%d',
            'define': 'D%d', 'sconst': 'S%d'}[it['ctx']] % i


def observe(ffi, lib, it, mode):
    """every way this mode reports the value -> {path: value}"""
    k, nm, i = it['ctx'], names_of(it), it['i']
    out = {}
    if k == 'array':
        t = ffi.typeof(nm)
        out['field_length'] = t.fields[0][1].type.length
        out['sizeof_field'] = ffi.sizeof(t.fields[0][1].type)
        if out['field_length'] >= 1:
            out['sizeof_struct'] = ffi.sizeof(nm)
        if mode == 'inline':
            out['typeof_string'] = ffi.typeof('char[%s]' % it['expr']).length
    elif k == 'bitfield':
        out['bitsize'] = ffi.typeof(nm).fields[0][1].bitsize
    elif k == 'enum':
        t = ffi.typeof(nm)
        en = 'E%d' % i
        out['relements'] = t.relements[en]
        out['elements'] = [v for v, name in t.elements.items() if name == en][0]
        out['lib'] = getattr(lib, en)
        if mode == 'inline':
            out['int_constants'] = ffi._parser._int_constants[en]
        else:
            out['integer_const'] = ffi.integer_const(en)
        if it['next']:
            out['_next'] = getattr(lib, 'EN%d' % i)
    else:
        if mode == 'inline':
            if nm not in ffi._parser._int_constants:
                return None         # not evaluated by cffi (value left to the C library)
            out['int_constants'] = ffi._parser._int_constants[nm]
        else:
            out['integer_const'] = ffi.integer_const(nm)
        out['lib'] = getattr(lib, nm)
    return out


def classify(it, X):
    """mechanism of a value X != gcc's, by which reading of the expression explains X:
    U = unbounded integers instead of C types (differs from C only through an operand of
    unsigned type), Ge = C types but an escape '\\c' read as the letter c, Ue = both"""
    uns = 'unsigned_typed_node' in it['tags']
    if uns and it['U'] is not None and X == it['U']:
        return 'unsigned-typed-operand'
    if 'chr_escape' in it['tags']:
        if it['Ge'] is not None and X == it['Ge']:
            return 'char-escape'
        if it['Ue'] is not None and X == it['Ue']:
            return 'char-escape+unsigned-typed-operand' if uns else 'char-escape'
    return 'value-differs:' + it['ctx']


def child_case(st, case):
    import importlib
    from cffi import FFI
    rep = core.ChildRep()
    ev0 = dict(CONTRACT_EVALS)
    accepted, agreeing = [], []
    for it in case['items']:
        k, G = it['ctx'], it['G']
        rep.case((k, it['expr'], it.get('ty')), nontrivial=it['nontrivial'],
                 sample={'decl': it['decl'].strip(), 'gcc': G})
        TOP['value'] = pv = None
        try:
            ffi = FFI()
            ffi.cdef(it['decl'])
            pv = TOP['value']           # arrays, widths, enumerators: what the parser computed
            obs = observe(ffi, ffi.dlopen(None), it, 'inline')
        except ContractViolation as e:
            rep.bad('contract:' + type(e).__name__, '%s: %s' % (it['decl'].strip(), str(e)[-300:]),
                    it['i'])
            continue
        except Exception as e:
            # not "accepted": outside the statement; recorded with the reason
            rep.stat('rejected_%s' % k)
            rep.stat('rejected_%s:%s' % (k, type(e).__name__))
            pv = TOP['value'] if pv is None else pv
            if pv is None:
                rep.stat('rejected_before_a_value_was_computed_' + k)
            elif pv == G:
                rep.stat('rejected_although_parser_value_equals_gcc_' + k)
            else:
                rep.stat('rejected_after_parser_value_differs:' + classify(it, pv))
            continue
        if obs is None:
            rep.stat('not_evaluated_by_cffi_' + k)
            continue
        if k in ('array', 'bitfield', 'enum'):
            obs['parser_value'] = pv
            if k == 'bitfield' and isinstance(pv, int) and pv < 0 and obs['bitsize'] == -1:
                del obs['bitsize']      # a negative width silently declares a plain field
                rep.stat('negative_width_became_plain_field')
        rep.stat('accepted_' + k)
        rep.stat('depth_%d' % it['depth'])
        for tg in it['tags']:
            rep.stat(tg)
        nxt = obs.pop('_next', None)
        rep.stat('inline_values_read', len(obs))
        X = obs['parser_value'] if 'parser_value' in obs else obs[sorted(obs)[0]]
        it = dict(it, X=X)
        accepted.append(it)
        if len(set(obs.values())) != 1:
            rep.bad('inline-paths-disagree:' + k, '%s: %r' % (it['decl'].strip(), obs), it['i'])
        if nxt is not None:
            rep.stat('enum_implicit_next')
            if nxt != X + 1:
                rep.bad('enum-implicit-next', '%s: E = %r but EN = %r' % (it['decl'], X, nxt),
                        it['i'])
        if it['U'] != G:
            rep.stat('untyped_reading_differs_from_C')
        if 'chr_escape' in it['tags'] and it['Ge'] != G:
            rep.stat('escape_letter_reading_differs_from_C')
        if X == G and type(X) is int:
            agreeing.append(it)
        else:
            rep.bad(classify(it, X), '%s: cffi %r, gcc %d (untyped reading %r)' %
                    (it['decl'].strip(), X, G, it['U']), it['i'])
    for name, n in CONTRACT_EVALS.items():
        rep.stat('contract_evaluations_%s' % name, n - ev0[name])
    rep.stat('contracts_installed_with_' + st['contracts'])
    # ---- out-of-line ABI module: must report what the in-line FFI reports
    nacc = len(accepted)
    accepted = [it for it in accepted if not (it['ctx'] == 'array' and it['X'] >= 1 << 31)]
    rep.stat('abi_module_refuses_array_length_ge_2**31', nacc - len(accepted))
    nacc = len(accepted)    # a (wrong) in-line value outside 64 bits has no out-of-line form
    accepted = [it for it in accepted if -(1 << 63) <= it['X'] < (1 << 64)]
    rep.stat('abi_module_skipped_inline_value_outside_64_bits', nacc - len(accepted))
    if not accepted:
        return rep.result()
    try:
        mod = '_c09abi_%d' % case['no']
        f = FFI()
        f.cdef('\n'.join(it['decl'] for it in accepted))
        f.set_source(mod, None)
        f.emit_python_code(os.path.join(st['wd'], mod + '.py'))
        importlib.invalidate_caches()
        sys.modules.pop(mod, None)
        m = importlib.import_module(mod)
        lib = m.ffi.dlopen(None)
        rep.stat('abi_modules')
    except Exception as e:
        import traceback
        rep.bad('abi-module-raised:' + type(e).__name__, traceback.format_exc()[-700:], None)
        m = None
    for it in accepted if m else []:
        try:
            obs = observe(m.ffi, lib, it, 'abi')
            obs.pop('_next', None)
        except Exception as e:
            rep.bad('mode-disagrees:abi-module:' + it['ctx'], '%s: in-line %r, out-of-line raised '
                    '%s: %s' % (it['decl'].strip(), it['X'], type(e).__name__, e), it['i'])
            continue
        rep.stat('abi_module_values_read', len(obs))
        if set(obs.values()) != {-1 if it['ctx'] == 'bitfield' and it['X'] < 0 else it['X']}:
            rep.bad('mode-disagrees:abi-module:' + it['ctx'], '%s: in-line %r, out-of-line %r' %
                    (it['decl'].strip(), it['X'], obs), it['i'])
    # ---- API module: the generated checks against the C compiler must agree
    if not agreeing:
        return rep.result()
    try:
        mod = '_c09api_%d' % case['no']
        text = '\n'.join(it['decl'] for it in agreeing)
        f = FFI()
        f.cdef(text)
        f.set_source(mod, '#include <stdint.h>\n#include <sys/types.h>\n' + text)
        cfile = os.path.join(st['wd'], mod + '.c')
        f.emit_c_code(cfile)
        r = subprocess.run(['gcc', '-O0', '-w', '-shared', '-fPIC', '-I' + st['inc'], cfile, '-o',
                            os.path.join(st['wd'], mod + '.so')], stdout=subprocess.PIPE,
                           stderr=subprocess.STDOUT, timeout=600)
        if r.returncode != 0:
            rep.bad('harness-api-module-build', 'gcc failed on the generated module: ' +
                    r.stdout.decode(errors='replace')[-800:], None)
            return rep.result()
        importlib.invalidate_caches()
        sys.modules.pop(mod, None)
        m = importlib.import_module(mod)
        rep.stat('api_modules')
    except Exception as e:
        import traceback
        rep.bad('api-module-raised:' + type(e).__name__, traceback.format_exc()[-700:], None)
        return rep.result()
    for it in agreeing:
        try:
            obs = observe(m.ffi, m.lib, it, 'api')
            nxt = obs.pop('_next', None)
        except Exception as e:
            rep.bad('api-check-disagrees:' + it['ctx'], '%s: in-line value %r equals gcc\'s, API '
                    'module raised %s: %s' % (it['decl'].strip(), it['X'], type(e).__name__,
                                              str(e)[:300]), it['i'])
            continue
        rep.stat('api_module_values_read', len(obs))
        if set(obs.values()) != {it['G']} or (nxt is not None and nxt != it['G'] + 1):
            rep.bad('api-check-disagrees:' + it['ctx'], '%s: gcc %d, API module %r' %
                    (it['decl'].strip(), it['G'], obs), it['i'])
    return rep.result()


def run(ctx):
    setup, cases = generate(ctx)
    obs = core.run_cases(ctx, 'c09', setup, cases, variant=VARIANT, timeout=900)
    for c, o in zip(cases, obs):
        if core.std_obs_check(ctx, c, o):
            judge(ctx, setup, c, o)
    cnt = ctx.counters
    for k in ('array', 'bitfield', 'enum', 'define', 'sconst'):
        if cnt.get('accepted_' + k, 0) < 0.5 * cnt.get('gcc_probed_' + k, 0) or \
                not cnt.get('accepted_' + k):
            ctx.inconclusive('cffi evaluated only %d of %d %s expressions' %
                             (cnt.get('accepted_' + k, 0), cnt.get('gcc_probed_' + k, 0), k))
    for k in CONTRACT_EVALS:
        if not cnt.get('contract_evaluations_' + k):
            ctx.inconclusive('contract %s was never evaluated' % k)
    for k in ('abi_module_values_read', 'api_module_values_read'):
        if not cnt.get(k):
            ctx.inconclusive('no value was read in mode %s' % k.split('_values')[0])


def judge(ctx, setup, case, obs):
    def rp(i):
        return case if i is None else {'no': case['no'],
                                       'items': [it for it in case['items'] if it['i'] == i]}
    core.absorb(ctx, case, obs, rp)
