"""C16 -- array/pointer indexing, slicing and arithmetic follow the C model.

Shape: history + byte model.  The array under test is either an owned
ffi.new('T[n]') (ASan red zones directly behind it) or a view in the middle of
a larger malloc'ed block (wrongly accepted accesses show as changes of the
neighbouring bytes).  After every operation the whole backing store is
compared with a bytearray model.
"""
import sys, os, struct
from vlib import gen, core

MEMCHECK_SAMPLE = 4
RULE = ("case = one history of 60 random operations (index read/write with i in -n-2..n+2 and "
        "huge values, slices with/without step and missing bounds, writes through slices, slice "
        "assignment from list/tuple/bytes/array cdata/generator of right and wrong length, pointer "
        "+/-, (p+i)[j], p-q, addressof(x,i), offsetof('T[]',i), owning-pointer indexes) over one "
        "array of a random element kind (8 integer kinds, float, double, void*, struct, nested "
        "array) and length 0..12; distinct = distinct (element kind, n, op, arguments) tuples; "
        "non-trivial = operation other than an in-range read")
ASSUMPTIONS = ["offsets are bounded so that i*sizeof(T) stays below 2**62 (beyond that C itself is undefined)",
               "non-integer keys are not generated; slices of a plain pointer are unbounded by design (C semantics)"]

KINDS = [('char', 'c'), ('signed char', 'b'), ('unsigned char', 'B'), ('short', 'h'), ('unsigned short', 'H'),
         ('int', 'i'), ('unsigned int', 'I'), ('long', 'q'), ('unsigned long long', 'Q'),
         ('float', 'f'), ('double', 'd'), ('void *', 'Q'), ('struct sp', None), ('short[2]', None)]
CDEF = "struct sp { short a; char b; };"
HUGE = [2 ** 31, 2 ** 63 - 1, 2 ** 63, 2 ** 64, 2 ** 70, -2 ** 63, -2 ** 63 - 1, -2 ** 70]


def generate(ctx):
    rng = ctx.rng('gen')
    nh = ctx.scale(1500, 60000)
    per = 50
    cases = []
    seeds = [rng.getrandbits(48) for _ in range(nh)]
    for i in range(0, nh, per):
        cases.append({'seeds': seeds[i:i + per], 'ops': 60})
    return None, cases


def child_setup(setup, wd):
    from cffi import FFI
    ffi = FFI()
    ffi.cdef(CDEF)
    return {'ffi': ffi}


class H(object):
    """one history"""

    def __init__(self, ffi, rnd, rep, seed):
        self.ffi, self.rnd, self.rep, self.seed = ffi, rnd, rep, seed
        self.T, self.fmt = rnd.choice(KINDS)
        self.s = ffi.sizeof(self.T)
        self.n = rnd.choice([0, 1, 2, 3, 5, 8, 12])
        self.own = rnd.random() < 0.4
        if self.own:
            self.off = 0
            self.arr = ffi.new(self.tarr(self.n))
            self.backing = self.arr
            total = self.n * self.s
        else:
            pre, post = rnd.choice([1, 2, 3]), rnd.choice([1, 2, 3])
            self.off = pre * self.s
            total = (pre + self.n + post) * self.s
            self.backing = ffi.new('char[]', total)
            self.arr = ffi.cast(ffi.getctype(ffi.typeof(self.T), '(*)[%d]' % self.n),
                                self.backing + self.off)[0]
        init = bytes(rnd.getrandbits(8) for _ in range(total))
        if total:
            ffi.buffer(self.backing, total)[:] = init
        self.model = bytearray(init)
        self.total = total
        self.base = int(ffi.cast('uintptr_t', ffi.cast('char *', self.backing))) + self.off
        self.oplog = []

    def tarr(self, n):
        return self.ffi.getctype(self.ffi.typeof(self.T), '[%d]' % n)

    # --- values -------------------------------------------------------
    def rand_value(self):
        """returns (python value to store, bytes expected)"""
        rnd, T = self.rnd, self.T
        if self.fmt in ('b', 'B', 'h', 'H', 'i', 'I', 'q', 'Q') and T != 'void *':
            size = self.s
            signed = self.fmt.islower()
            lo, hi = gen.int_range(size, signed)
            v = rnd.choice([lo, hi, 0, 1, rnd.randint(lo, hi)])
            return v, struct.pack('<' + self.fmt, v)
        if self.fmt == 'c':
            v = bytes([rnd.randrange(256)])
            return v, v
        if self.fmt == 'f':
            v = struct.unpack('<f', struct.pack('<I', rnd.getrandbits(32) & 0x7f7fffff))[0]
            return v, struct.pack('<f', v)
        if self.fmt == 'd':
            v = rnd.uniform(-1e9, 1e9)
            return v, struct.pack('<d', v)
        if T == 'void *':
            a = rnd.getrandbits(64)
            return self.ffi.cast('void *', a), struct.pack('<Q', a)
        if T == 'struct sp':
            tmp = self.ffi.new('struct sp *')
            b = bytes(rnd.getrandbits(8) for _ in range(4))
            self.ffi.buffer(tmp)[:] = b
            self._keep = tmp
            return tmp[0], b
        if T == 'short[2]':
            a, b = rnd.randint(-32768, 32767), rnd.randint(-32768, 32767)
            return [a, b], struct.pack('<hh', a, b)

    def decode(self, b):
        T = self.T
        if T == 'void *':
            return ('ptr', struct.unpack('<Q', b)[0])
        if self.fmt:
            v = struct.unpack('<' + self.fmt, b)[0]
            if v != v:
                return ('nan',)
            return v
        return ('bytes', bytes(b))

    def observe(self, x):
        ffi = self.ffi
        if isinstance(x, ffi.CData):
            t = ffi.typeof(x)
            if t.kind == 'pointer':
                return ('ptr', int(ffi.cast('uintptr_t', x)))
            if t.kind == 'struct':
                x = ffi.addressof(x)
            return ('bytes', bytes(ffi.buffer(x)))
        if isinstance(x, float) and x != x:
            return ('nan',)
        return x

    def check_mem(self, what):
        if self.total and bytes(self.ffi.buffer(self.backing, self.total)) != bytes(self.model):
            real = bytes(self.ffi.buffer(self.backing, self.total))
            diff = [i for i in range(self.total) if real[i] != self.model[i]]
            inside = all(self.off <= i < self.off + self.n * self.s for i in diff)
            self.bad('memory-differs-from-model' if inside else 'memory-outside-array-changed',
                     '%s: after %s backing bytes differ from the model at offsets %r (array at '
                     '%d..%d)' % (self.desc(), what, diff[:8], self.off, self.off + self.n * self.s))
            self.model[:] = real

    def desc(self):
        return '%s[%d]%s' % (self.T, self.n, ' (owned)' if self.own else ' (view)')

    def bad(self, mech, msg):
        self.rep.bad(mech, msg + ' | history seed %d, ops so far: %r' %
                     (self.seed, self.oplog[-6:]), self.seed)

    def expect_index_error(self, fn, what):
        try:
            r = fn()
        except IndexError:
            return True
        except OverflowError as e:
            self.bad('overflowerror-instead-of-indexerror', '%s: %s raised OverflowError (%s), '
                     'the statement asks for IndexError' % (self.desc(), what, e))
            return True
        except Exception as e:
            self.bad('wrong-exception', '%s: %s raised %s: %s' % (self.desc(), what,
                                                                   type(e).__name__, e))
            return True
        self.bad('accepted-out-of-range', '%s: %s was accepted (result %r)' %
                 (self.desc(), what, r))
        return False

    # --- operations ---------------------------------------------------
    def rand_index(self):
        r = self.rnd.random()
        if r < 0.75:
            return self.rnd.randint(-self.n - 2, self.n + 2)
        if r < 0.9:
            return self.rnd.choice(HUGE)
        return self.rnd.choice([self.n, -1, self.n - 1, 0])

    def step(self):
        rnd, ffi, n, s, x = self.rnd, self.ffi, self.n, self.s, self.arr
        op = rnd.choice(['read', 'read', 'write', 'write', 'slice', 'slice', 'slicewrite',
                         'sliceassign', 'sliceassign', 'badslice', 'ptrarith', 'ptrindex',
                         'addressof', 'offsetof', 'ownptr', 'ptrdiff'])
        key = None
        if op == 'read':
            i = self.rand_index()
            key = (op, i)
            if 0 <= i < n:
                try:
                    got = self.observe(x[i])
                except Exception as e:
                    self.bad('inrange-index-rejected', '%s: x[%d] raised %s' %
                             (self.desc(), i, type(e).__name__))
                else:
                    exp = self.decode(self.model[self.off + i * s: self.off + (i + 1) * s])
                    if got != exp:
                        self.bad('read-value', '%s: x[%d] = %r, memory holds %r' %
                                 (self.desc(), i, got, exp))
                self.rep.stat('reads_ok')
            else:
                self.expect_index_error(lambda: x[i], 'x[%d]' % i)
                self.rep.stat('reads_rejected')
        elif op == 'write':
            i = self.rand_index()
            v, b = self.rand_value()
            key = (op, i)
            if 0 <= i < n:
                try:
                    x[i] = v
                except Exception as e:
                    self.bad('inrange-index-rejected', '%s: x[%d] = ... raised %s: %s' %
                             (self.desc(), i, type(e).__name__, e))
                else:
                    self.model[self.off + i * s: self.off + (i + 1) * s] = b
                self.rep.stat('writes_ok')
            else:
                def f():
                    x[i] = v
                self.expect_index_error(f, 'x[%d] = v' % i)
                self.rep.stat('writes_rejected')
        elif op in ('slice', 'slicewrite'):
            i, j = self.rand_index(), self.rand_index()
            key = (op, i, j)
            if 0 <= i <= j <= n:
                try:
                    sl = x[i:j]
                except Exception as e:
                    self.bad('valid-slice-rejected', '%s: x[%d:%d] raised %s' %
                             (self.desc(), i, j, type(e).__name__))
                    return key, op
                t = ffi.typeof(sl)
                if t.kind != 'array' or len(sl) != j - i or \
                        t.item is not ffi.typeof(self.T):
                    self.bad('slice-type', '%s: x[%d:%d] is %r with len %d' %
                             (self.desc(), i, j, t, len(sl)))
                a = int(ffi.cast('uintptr_t', ffi.cast('char *', sl)))
                if a != (self.base + i * s) % 2 ** 64:
                    self.bad('slice-address', '%s: x[%d:%d] starts at %#x, expected %#x' %
                             (self.desc(), i, j, a, self.base + i * s))
                self.rep.stat('slices_ok')
                if op == 'slicewrite' and j > i:
                    k = rnd.randrange(j - i)
                    v, b = self.rand_value()
                    sl[k] = v
                    self.model[self.off + (i + k) * s: self.off + (i + k + 1) * s] = b
                    self.expect_index_error(lambda: sl[j - i], 'slice[%d] (len %d)' % (j - i, j - i))
                    self.expect_index_error(lambda: sl[-1], 'slice[-1]')
                    got = self.observe(x[i + k])
                    if got != self.decode(b):
                        self.bad('slice-not-a-view', '%s: write through x[%d:%d][%d] not seen in '
                                 'x[%d]' % (self.desc(), i, j, k, i + k))
            else:
                self.expect_index_error(lambda: x[i:j], 'x[%d:%d]' % (i, j))
                self.rep.stat('slices_rejected')
        elif op == 'badslice':
            i = rnd.randint(0, n)
            j = rnd.randint(i, n)
            which = rnd.choice(['step', 'nostart', 'nostop', 'none', 'negstep'])
            key = (op, which, i, j)
            if which == 'step':
                st_ = rnd.choice([1, 2, -1])
                self.expect_index_error(lambda: x[i:j:st_], 'x[%d:%d:%d]' % (i, j, st_))
            elif which == 'negstep':
                self.expect_index_error(lambda: x[j:i:-1], 'x[%d:%d:-1]' % (j, i))
            elif which == 'nostart':
                self.expect_index_error(lambda: x[:j], 'x[:%d]' % j)
            elif which == 'nostop':
                self.expect_index_error(lambda: x[i:], 'x[%d:]' % i)
            else:
                self.expect_index_error(lambda: x[:], 'x[:]')
            self.rep.stat('bad_slices')
        elif op == 'sliceassign':
            i, j = self.rand_index(), self.rand_index()
            if rnd.random() < 0.6 and n:
                i = rnd.randint(0, n)
                j = rnd.randint(i, n)
            valid = 0 <= i <= j <= n
            want = (j - i) if valid else rnd.randint(0, 3)
            delta = rnd.choice([0, 0, 0, -1, 1, 2]) if valid else 0
            cnt = max(0, want + delta)
            vals = [self.rand_value() for _ in range(cnt)]
            srckind = rnd.choice(['list', 'tuple', 'gen', 'cdata', 'bytes'])
            if srckind == 'bytes' and self.T != 'char':
                srckind = 'list'     # the bytes/bytearray fast path exists for 'char' only
            if srckind == 'bytes':
                raw = b''.join(b for v, b in vals)
                src = raw if rnd.random() < 0.5 else bytearray(raw)
                srckind = type(src).__name__
            if srckind in ('bytes', 'bytearray'):
                pass
            elif srckind == 'cdata':
                tmp = ffi.new(self.tarr(cnt))
                if cnt:
                    ffi.buffer(tmp)[:] = b''.join(b for v, b in vals)
                src = tmp
            elif srckind == 'list':
                src = [v for v, b in vals]
            elif srckind == 'tuple':
                src = tuple(v for v, b in vals)
            else:
                src = (v for v, b in vals)
            key = (op, i, j, cnt, srckind)

            def f():
                x[i:j] = src
            if not valid:
                self.expect_index_error(f, 'x[%d:%d] = <%d values>' % (i, j, cnt))
                self.rep.stat('sliceassign_rejected_bounds')
            elif cnt == j - i:
                try:
                    f()
                except Exception as e:
                    self.bad('valid-sliceassign-rejected', '%s: x[%d:%d] = <%s of %d> raised %s: '
                             '%s' % (self.desc(), i, j, srckind, cnt, type(e).__name__, e))
                else:
                    self.model[self.off + i * s: self.off + j * s] = b''.join(b for v, b in vals)
                self.rep.stat('sliceassign_ok')
            else:
                try:
                    f()
                except Exception:
                    # partial writes before the count is known are allowed for
                    # iterables; resynchronise the model inside the slice only
                    real = bytes(ffi.buffer(self.backing, self.total))
                    self.model[self.off + i * s: self.off + j * s] = \
                        real[self.off + i * s: self.off + j * s]
                else:
                    self.bad('sliceassign-wrong-count-accepted', '%s: x[%d:%d] = <%s of %d '
                             'values> accepted' % (self.desc(), i, j, srckind, cnt))
                self.rep.stat('sliceassign_wrong_count')
        elif op in ('ptrarith', 'ptrindex', 'ptrdiff'):
            p = x + 0
            lim = (2 ** 62) // max(s, 1)
            i = rnd.choice([rnd.randint(-n - 3, n + 3), rnd.randint(-lim, lim), 0, n])
            key = (op, i)
            q = p + i
            a = int(ffi.cast('uintptr_t', q))
            if a != (self.base + i * s) % 2 ** 64:
                self.bad('pointer-add-address', '%s: (p+%d) is at %#x, expected %#x' %
                         (self.desc(), i, a, (self.base + i * s) % 2 ** 64))
            if (q - p) != i or (p - q) != -i:
                self.bad('pointer-diff', '%s: (p+%d)-p = %r' % (self.desc(), i, q - p))
            if int(ffi.cast('uintptr_t', q - i)) != self.base % 2 ** 64:
                self.bad('pointer-sub', '%s: (p+%d)-%d != p' % (self.desc(), i, i))
            if op == 'ptrindex' and n:
                j = rnd.randint(-3, n + 3)
                tgt = i + j
                aj = int(ffi.cast('uintptr_t', ffi.addressof(q, j)))
                if aj != (self.base + tgt * s) % 2 ** 64:
                    self.bad('pointer-index-address', '%s: &(p+%d)[%d] at %#x, expected %#x' %
                             (self.desc(), i, j, aj, (self.base + tgt * s) % 2 ** 64))
                lo = -(self.off // s) if s else 0
                hi = lo + self.total // s if s else 0
                if lo <= tgt < hi:
                    got = self.observe(q[j])
                    o = self.off + tgt * s
                    exp = self.decode(self.model[o:o + s])
                    if got != exp:
                        self.bad('pointer-index-value', '%s: (p+%d)[%d] = %r, memory holds %r' %
                                 (self.desc(), i, j, got, exp))
                    if 0 <= tgt < n and self.observe(p[tgt]) != got:
                        self.bad('pointer-index-alias', '%s: (p+%d)[%d] != p[%d]' %
                                 (self.desc(), i, j, tgt))
                    v, b = self.rand_value()
                    q[j] = v
                    self.model[o:o + s] = b
            self.rep.stat('pointer_ops')
        elif op == 'addressof':
            i = rnd.randint(0, n) if rnd.random() < 0.8 else rnd.randint(-3, n + 3)
            key = (op, i)
            try:
                a = ffi.addressof(x, i)
            except Exception as e:
                if 0 <= i <= n:
                    self.bad('addressof-raised', '%s: addressof(x, %d) raised %s' %
                             (self.desc(), i, type(e).__name__))
            else:
                if a != x + i or int(ffi.cast('uintptr_t', a)) != (self.base + i * s) % 2 ** 64:
                    self.bad('addressof-value', '%s: addressof(x, %d) = %r, x+%d = %r' %
                             (self.desc(), i, a, i, x + i))
            self.rep.stat('addressof')
        elif op == 'offsetof':
            lim = (2 ** 63) // max(s, 1)
            i = rnd.choice([0, 1, n, rnd.randint(0, 10 ** 6), rnd.randint(-5, 5),
                            lim + rnd.randint(-2, 2), -lim + rnd.randint(-2, 2),
                            rnd.randint(-lim, lim), 2 ** 62, -2 ** 62, 2 ** 63 - 1, -2 ** 63])
            key = (op, i)
            for spec in (ffi.getctype(ffi.typeof(self.T), '[]'),
                         ffi.typeof(ffi.getctype(ffi.typeof(self.T), '[]')),
                         ffi.getctype(ffi.typeof(self.T), '[%d]' % max(n, 1)),
                         ffi.getctype(ffi.typeof(self.T), '*')):
                try:
                    o = ffi.offsetof(spec, i)
                except OverflowError:
                    if -2 ** 63 <= i * s < 2 ** 63:
                        self.bad('offsetof-raised', 'offsetof(%r, %d) raised OverflowError although '
                                 'the offset %d fits' % (spec, i, i * s))
                    self.rep.stat('offsetof_overflow_rejected')
                    continue
                except Exception as e:
                    if -2 ** 63 <= i < 2 ** 63:     # an index that is not even a ssize_t may
                        self.bad('offsetof-raised', 'offsetof(%r, %d) raised %s' %   # raise anything
                                 (spec, i, type(e).__name__))
                    continue
                if o != i * s:
                    self.bad('offsetof-value', 'offsetof(%r, %d) = %d, expected %d' %
                             (spec, i, o, i * s))
            self.rep.stat('offsetof')
        elif op == 'ownptr':
            if self.T == 'short[2]':
                q = ffi.new('short(*)[2]')
            else:
                q = ffi.new(self.T + ' *')
            i = rnd.choice([0, 1, -1, 2, rnd.choice(HUGE)])
            key = (op, i)
            if i == 0:
                q[0]
                v, b = self.rand_value()
                q[0] = v
                if bytes(ffi.buffer(q)) != b:
                    self.bad('ownptr-write', '%s *: q[0] = v stored %s, expected %s' %
                             (self.T, bytes(ffi.buffer(q)).hex(), b.hex()))
            else:
                self.expect_index_error(lambda: q[i], 'owning pointer q[%d]' % i)

                def f():
                    v, b = self.rand_value()
                    q[i] = v
                self.expect_index_error(f, 'owning pointer q[%d] = v' % i)
            self.rep.stat('owning_pointer_ops')
        return key, op


def child_case(st, case):
    import random
    ffi = st['ffi']
    rep = core.ChildRep()
    for seed in case['seeds']:
        rnd = random.Random(seed)
        h = H(ffi, rnd, rep, seed)
        rep.stat('histories')
        rep.stat('kind_' + h.T.replace(' ', '_'))
        for _ in range(case['ops']):
            try:
                key, op = h.step()
            except Exception as e:
                import traceback
                h.bad('harness-exception', traceback.format_exc()[-900:])
                break
            h.oplog.append(key)
            h.check_mem(repr(key))
            rep.case((h.T, h.n, h.own, key), nontrivial=op != 'read',
                     sample={'array': h.desc(), 'op': repr(key)})
    return rep.result()


def judge(ctx, setup, case, obs):
    core.absorb(ctx, case, obs, lambda seed: {'seeds': [seed], 'ops': case['ops']})
